"""Engine D: schemas read from the pinned dependency sources named by /repo/Cargo.lock (offline registry), parsed with
syndump on every run: enum variants and field types of naga / wgpu-types, bitflags constants, encase's glam impl table,
naga's WGSL reserved words."""
import glob, json, os, re
from common import REPO, WORK, tree_hash
import engine_ogp


def lock_versions():
    v = {}
    name = None
    for line in open(os.path.join(REPO, 'Cargo.lock')):
        line = line.strip()
        if line.startswith('name = '):
            name = line.split('"')[1]
        elif line.startswith('version = ') and name:
            v.setdefault(name, line.split('"')[1])
            name = None
    return v


def registry_dir(crate, version):
    cands = glob.glob(os.path.expanduser(f'~/.cargo/registry/src/*/{crate}-{version}'))
    if not cands:
        raise RuntimeError(f'source of {crate} {version} (named by Cargo.lock) is not in the offline registry')
    return cands[0]


class Schema:
    def __init__(self):
        self.versions = lock_versions()
        self.enums = {}     # 'naga::TypeInner' -> {variant: {'shape':..., 'fields': [(name, ty)]}}
        self.structs = {}
        self.flags = {}     # 'naga::StorageAccess' -> [names]
        nd = registry_dir('naga', self.versions['naga'])
        wd = registry_dir('wgpu-types', self.versions['wgpu-types'])
        files = {'naga': os.path.join(nd, 'src', 'lib.rs'), 'wgpu': os.path.join(wd, 'src', 'lib.rs')}
        cache = os.path.join(WORK, f"schema-{self.versions['naga']}-{self.versions['wgpu-types']}.json")
        dumped = None
        if os.path.exists(cache):
            try:
                dumped = json.load(open(cache))
            except Exception:
                dumped = None       # being written by a concurrent run / truncated: parse the sources again
        if dumped is None:
            raw = engine_ogp.dump_files(list(files.values()))
            dumped = {k: raw[p] for k, p in files.items()}
            os.makedirs(WORK, exist_ok=True)
            tmp = f'{cache}.{os.getpid()}.tmp'
            with open(tmp, 'w') as fh:
                json.dump(dumped, fh)
            os.replace(tmp, cache)      # atomic: a concurrent reader sees the old file or the complete new one
        for prefix, items in dumped.items():
            self._collect(prefix, items)
        self.sources = files
        # naga WGSL reserved words
        kw = os.path.join(nd, 'src', 'keywords', 'wgsl.rs')
        self.wgsl_reserved = set(re.findall(r'"([A-Za-z_][A-Za-z0-9_]*)"', open(kw).read())) if os.path.exists(kw) else set()
        # encase glam impls
        self.encase_glam = self._encase_glam()

    def _collect(self, prefix, items):
        for it in items:
            if it.get('cfg_test'):
                continue
            if it['k'] == 'Enum':
                self.enums[f"{prefix}::{it['name']}"] = {v['name']: {'shape': v['shape'], 'fields': [(f['name'], f['ty'].replace(' ', '')) for f in v['fields']], 'cfg': v.get('cfg', [])}
                                                        for v in it['variants']}
            elif it['k'] == 'Struct':
                self.structs[f"{prefix}::{it['name']}"] = [(f['name'], f['ty'].replace(' ', '')) for f in it['fields']]
            elif it['k'] == 'ItemMacro' and 'bitflags' in it['name']:
                toks = it['tokens']
                # struct Name ... { const A = ..; const B = ..; }
                name = None
                for i, t in enumerate(toks):
                    if t['t'] == 'i' and t['v'] == 'struct' and i + 1 < len(toks):
                        name = toks[i + 1]['v']
                    if t['t'] == 'g' and t['d'] == '{' and name:
                        consts = []
                        inner = t['s']
                        for j, u in enumerate(inner):
                            if u['t'] == 'i' and u['v'] == 'const' and j + 1 < len(inner):
                                consts.append(inner[j + 1]['v'])
                        self.flags[f'{prefix}::{name}'] = consts
                        name = None
            elif it['k'] == 'Const' and (it.get('expr') or {}).get('k') == 'Lit' and it.get('vis', 'pub').startswith('pub'):
                # public literal constants of the library (`pub const BOOL_WIDTH: Bytes = 1;`): a crate that names one means that value
                self.__dict__.setdefault('consts', {})[f"{prefix}::{it['name']}"] = it['expr']
            elif it['k'] == 'Mod' and it.get('items'):
                self._collect(prefix, it['items'])

    def _encase_glam(self):
        try:
            d = registry_dir('encase', self.versions['encase'])
            txt = open(os.path.join(d, 'src', 'impls', 'glam.rs')).read()
        except Exception:
            return None
        vec = re.findall(r'^impl_vector!\(\s*(\d)\s*,\s*([\w:]+)\s*,\s*(\w+)', txt, re.M)
        mat = re.findall(r'^impl_matrix!\(\s*(\d)\s*,\s*(\d)\s*,\s*([\w:]+)\s*,\s*(\w+)', txt, re.M)
        return {'vectors': {(int(n), ty): el for n, ty, el in vec}, 'matrices': {(int(c), int(r), ty): el for c, r, ty, el in mat}}

    def variants(self, enum):
        return list(self.enums[enum].keys())


_s = None


def load():
    global _s
    if _s is None:
        _s = Schema()
    return _s
