"""Cross-validation of Engine A against Engine B: every crate-internal call edge of the syntactic call graph (syn, path resolution by
use-tables) must be a resolved MIR edge and vice versa (closures are attributed to the function that creates them).  A construct
Engine A does not see (method call resolved through a trait, macro-generated call, glob import) shows up here instead of silently
weakening a rule."""
import engine_ogp as E
from engine_mir import Mir


def graphs():
    ogp = E.load()
    mir = Mir()
    ga = {}
    for q, callees in ogp.crate.call_graph().items():
        ga[q.replace('crate::', '', 1)] = {c.replace('crate::', '', 1) for c in callees}
    # methods of crate types called with method syntax are inlined by Engine A through inline_calls
    for caller, callee, _ in ogp.it.inline_calls:
        ga.setdefault(caller.replace('crate::', '', 1), set()).add(callee.replace('crate::', '', 1))
    # a work list rewritten as a synthetic recursive function (engine_ogp.normalise_worklists) is part of the function it was cut out of
    syn = {k.replace('crate::', '', 1): v.replace('crate::', '', 1) for k, v in ogp.crate.synthetic.items()}
    if syn:
        ga2 = {}
        for a, bs in ga.items():
            a2 = syn.get(a, a)
            for b in bs:
                b2 = syn.get(b, b)
                if a2 == b2 and (a in syn or b in syn):
                    continue
                ga2.setdefault(a2, set()).add(b2)
            ga2.setdefault(a2, set())
        ga = ga2
    gb = {}
    graphs.approx = set()
    for n, callees in mir.call_graph().items():
        p = mir.bodies[n].parent
        for c in callees:
            cp = mir.bodies[c].parent
            if (n, c) in mir.approx_edges:
                # over-approximated dispatch (trait objects, function pointers, ..): not an edge the compiler resolved - Engine A may have it (it
                # follows a function read out of a literal table) but need not
                if cp != p:
                    graphs.approx.add((p, cp))
                continue
            if cp != p:
                gb.setdefault(p, set()).add(cp)
            elif mir.bodies[c].kind != 'Closure' and c == n:
                gb.setdefault(p, set()).add(cp)
    return ga, gb, ogp, mir


def norm(n):
    """comparable name: no spaces, no generic arguments on path segments (`Collector::<'_>::visit` and `Collector<'_>::visit` -> `Collector::visit`)"""
    n = n.replace(' ', '')
    if n.startswith('<'):
        return n
    # an inherent impl outside the module that defines the type: rustc names its methods `wgsl::<impl MatrixVectorTypes>::vector_type`, the
    # syntactic side `wgsl::MatrixVectorTypes::vector_type`
    import re
    n = re.sub(r"<impl([A-Za-z_][\w:]*?)(<[^>]*>)?>", lambda m_: m_.group(1).split('::')[-1], n)
    out, depth = [], 0
    for ch in n:
        if ch == '<':
            depth += 1
        elif ch == '>':
            depth -= 1
        elif depth == 0:
            out.append(ch)
    r = ''.join(out)
    while '::::' in r:
        r = r.replace('::::', '::')
    return r


def compare():
    ga, gb, ogp, mir = graphs()
    ea = {(norm(a), norm(b)) for a, bs in ga.items() for b in bs if not a.startswith('<') and not b.startswith('<') and '::<' not in b and '::<' not in a}
    eb = {(norm(a), norm(b)) for a, bs in gb.items() for b in bs if not a.startswith('<') and not b.startswith('<')}
    only_a = sorted(ea - eb - {(norm(a), norm(b)) for a, b in graphs.approx})
    only_b = sorted(eb - ea)
    return ea, eb, only_a, only_b


def add_to(rep, anchors=()):
    try:
        ea, eb, only_a, only_b = compare()
    except Exception as ex:
        rep.bad('crossval', 'crossval:engine', '', f'cannot cross-validate the call graphs: {ex!r}', undecided=True)
        return
    rep.info['crossval'] = {'edges_engine_a': len(ea), 'edges_engine_b': len(eb), 'only_in_syntactic_graph': only_a[:20], 'only_in_mir_graph': only_b[:20]}
    # only edges of the generating part of the crate matter to the Engine-A rules: functions reachable (in either graph) from the functions that
    # take the WriteOptions.  The error-rendering methods (`emit_*`) and other API outside generation are judged on MIR alone (C17)
    try:
        ga, gb, ogp, mir = graphs()
        roots = {n for n, b in mir.bodies.items() if b.kind != 'Closure' and any('WriteOptions' in ty for ty in b.locals[1:b.arg_count + 1])}
        reach = set()
        for g_ in (ga, gb):
            st_ = [norm(r_) for r_ in roots]
            gn = {}
            for a_, bs_ in g_.items():
                gn.setdefault(norm(a_), set()).update(norm(b_) for b_ in bs_)
            seen_ = set()
            while st_:
                x_ = st_.pop()
                if x_ in seen_:
                    continue
                seen_.add(x_)
                st_.extend(gn.get(x_, ()))
            reach |= seen_
        relevant = lambda e: e[0] in reach or e[1] in reach
    except Exception:
        relevant = lambda e: True
    bad = [e for e in only_a + only_b if relevant(e) and (not anchors or any(a in e[0] or a in e[1] for a in anchors))]
    rep.check(not bad, 'crossval.call-graph', 'call-graph-agreement', '',
              f'the syntactic call graph (Engine A) and the resolved MIR call graph (Engine B) disagree on {bad[:6]}: some call is invisible to one engine, so rules over that engine may be incomplete',
              ok_detail=f'{len(ea & eb)} crate-internal call edges agree between the syntactic and the resolved MIR call graph')
