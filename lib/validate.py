#!/usr/bin/env python3
"""validate MANIFEST.json and every evidence file against the schemas (uses the tooling venv's jsonschema)"""
import json, glob, sys
import jsonschema
ms = json.load(open('/root/.vp/MANIFEST.schema.json')); es = json.load(open('/root/.vp/EVIDENCE.schema.json'))
m = json.load(open('/verif/MANIFEST.json'))
jsonschema.validate(m, ms)
bad = 0
for c in m['checks']:
    try:
        jsonschema.validate(json.load(open(c['evidence_file'])), es)
    except Exception as e:
        bad += 1; print('EVIDENCE INVALID', c['property_id'], str(e)[:300])
print('manifest valid; checks', len(m['checks']), 'n/a', len(m.get('not_applicable', [])), 'bad evidence', bad)
sys.exit(1 if bad else 0)
