"""Shared infrastructure of the static checks: tree hashing, work directories, obligations, evidence,
known findings, violation reporting."""
import fcntl, hashlib, json, os, subprocess, sys, time

VERIF = os.path.dirname(os.path.dirname(os.path.abspath(__file__)))
REPO = os.environ.get('VERIF_REPO', '/repo')
CRATE = os.path.join(REPO, 'wgsl_to_wgpu')
SRC = os.path.join(CRATE, 'src')
WORK = os.path.join(VERIF, '.work')
EVID = os.environ.get('VERIF_EVID', os.path.join(VERIF, 'evidence'))
KNOWN = os.path.join(VERIF, 'known_findings.json')


def tree_files():
    files = []
    for root, _, names in os.walk(SRC):
        for n in sorted(names):
            if n.endswith('.rs'):
                files.append(os.path.join(root, n))
    for extra in ('Cargo.toml', 'Cargo.lock', 'wgsl_to_wgpu/Cargo.toml'):
        p = os.path.join(REPO, extra)
        if os.path.exists(p):
            files.append(p)
    return sorted(files)


def tree_hash():
    h = hashlib.sha256()
    for f in tree_files():
        h.update(f.encode())
        h.update(b'\0')
        with open(f, 'rb') as fh:
            h.update(fh.read())
        h.update(b'\0')
    # the engines themselves are part of the key
    for tool in ('tools/mirfacts/src/main.rs', 'tools/syndump/src/main.rs'):
        p = os.path.join(VERIF, tool)
        if os.path.exists(p):
            with open(p, 'rb') as fh:
                h.update(fh.read())
    return h.hexdigest()[:20]


class Lock:
    def __init__(self, name):
        os.makedirs(WORK, exist_ok=True)
        self.path = os.path.join(WORK, name + '.lock')

    def __enter__(self):
        self.fh = open(self.path, 'w')
        fcntl.flock(self.fh, fcntl.LOCK_EX)
        return self

    def __exit__(self, *a):
        fcntl.flock(self.fh, fcntl.LOCK_UN)
        self.fh.close()


def run(cmd, env=None, cwd=None, timeout=1800):
    e = dict(os.environ)
    e['CARGO_NET_OFFLINE'] = 'true'
    if env:
        e.update(env)
    p = subprocess.run(cmd, shell=isinstance(cmd, str), env=e, cwd=cwd, stdout=subprocess.PIPE,
                       stderr=subprocess.STDOUT, timeout=timeout, text=True)
    return p.returncode, p.stdout


def prune_work(keep_hash):
    """remove per-tree caches of other trees (bounded disk use)"""
    base = os.path.join(WORK, 'trees')
    if not os.path.isdir(base):
        return
    entries = []
    for d in os.listdir(base):
        try:
            entries.append((os.path.getmtime(os.path.join(base, d)), d))
        except OSError:
            pass        # removed by a concurrent run
    entries.sort()
    now = time.time()
    for mt, d in entries[:-24]:
        # never remove a cache that was touched in the last half hour: a concurrent check of another tree may be using it
        if d != keep_hash and now - mt > 1800:
            subprocess.run(['rm', '-rf', os.path.join(base, d)])


class Ob:
    """one obligation = one instance of one rule"""
    __slots__ = ('rule', 'key', 'ok', 'where', 'detail', 'undecided')

    def __init__(self, rule, key, ok, where='', detail='', undecided=False):
        self.rule, self.key, self.ok, self.where, self.detail, self.undecided = rule, key, ok, where, detail, undecided

    def to_json(self):
        return {'rule': self.rule, 'key': self.key, 'ok': self.ok, 'where': self.where, 'detail': self.detail,
                'undecided': self.undecided}


class Report:
    def __init__(self, pid, tier):
        self.pid, self.tier = pid, tier
        self.obs = []
        self.info = {}
        self.assumptions = []
        self.trusted = []
        self.explanation = ''
        self.analysed = {}
        self.exhaustive = False
        self.floors = []  # (name, found, floor)

    def ok(self, rule, key, where='', detail=''):
        self.obs.append(Ob(rule, key, True, where, detail))

    def bad(self, rule, key, where='', detail='', undecided=False):
        self.obs.append(Ob(rule, key, False, where, detail, undecided))

    def check(self, cond, rule, key, where='', detail='', ok_detail=None):
        if cond:
            self.ok(rule, key, where, ok_detail if ok_detail is not None else detail)
        else:
            self.bad(rule, key, where, detail)
        return cond

    def floor(self, name, found, floor, where=''):
        """a rule that matches fewer instances than were confirmed by hand must not pass vacuously"""
        self.floors.append((name, found, floor))
        if found < floor:
            self.bad('floor', f'floor:{name}', where,
                     f'rule/anchor `{name}` matched {found} instance(s), expected at least {floor}: the construct the '
                     f'rule is anchored on was not found, so the property cannot be established', undecided=True)
        else:
            self.ok('floor', f'floor:{name}', where, f'{found} >= {floor}')


_INCLUDING = []


def include(rep, module_name, prefixes, label):
    """evaluate another property's rules in this run and adopt the obligations whose rule id starts with one of `prefixes`
    (a property whose statement contains a clause that is decided by a sibling's rules)"""
    import importlib
    if _INCLUDING:
        return      # rules adopted by an adopted module are not adopted again (and mutual adoption - C03 <-> C13 - terminates)
    _INCLUDING.append(module_name)
    try:
        mod = importlib.import_module('rules.' + module_name)
        sub = Report(rep.pid, rep.tier)
        try:
            mod.run(sub)
        finally:
            _INCLUDING.pop()
        n = 0
        for o in sub.obs:
            if o.rule.startswith(tuple(prefixes)):
                o.rule = f'{label}/{o.rule}'
                rep.obs.append(o)
                n += 1
        rep.floor(f'{label}: adopted obligations', n, 1)
    except Exception as ex:
        rep.bad(label, f'{label}:engine', '', f'cannot evaluate the shared rules of {module_name}: {ex!r}', undecided=True)


def load_known():
    if not os.path.exists(KNOWN):
        return []
    return json.load(open(KNOWN))['findings']


def finish(rep, t0, seed=0):
    """write evidence, print KNOWN-FINDING / VIOLATION lines, return exit code"""
    known = {(k['property'], k['key']): k for k in load_known() if k.get('status') == 'known'}
    viol, kf = [], []
    for o in rep.obs:
        if o.ok:
            continue
        if (rep.pid, o.key) in known:
            kf.append(o)
        else:
            viol.append(o)
    os.makedirs(EVID, exist_ok=True)
    rdir = os.path.join(EVID, 'replay')
    os.makedirs(rdir, exist_ok=True)
    for f in os.listdir(rdir):
        if f.startswith(rep.pid + '-'):
            os.unlink(os.path.join(rdir, f))
    seen = set()
    for o in kf:
        if o.key in seen:
            continue
        seen.add(o.key)
        print(f'KNOWN-FINDING: property={rep.pid} {o.key} {known[(rep.pid, o.key)].get("what", o.detail)}')
    n = 0
    for o in viol:
        n += 1
        path = os.path.join(rdir, f'{rep.pid}-{n}.json')
        json.dump({'property': rep.pid, 'tree': tree_hash(), **o.to_json()}, open(path, 'w'), indent=1)
        kind = 'UNDECIDED (treated as violation: the rule could not establish the property)' if o.undecided else 'violated'
        print(f'[{rep.pid}] rule {o.rule} {kind}: key={o.key}\n    at {o.where}\n    {o.detail}')
        print(f'VIOLATION property={rep.pid} replay={path}')
    total = len(rep.obs)
    good = sum(1 for o in rep.obs if o.ok)
    samples = []
    per_rule = {}
    for o in rep.obs:
        per_rule.setdefault(o.rule, [0, 0])
        per_rule[o.rule][0] += 1
        per_rule[o.rule][1] += 1 if o.ok else 0
    seen_rules = {}
    for o in rep.obs:
        if seen_rules.get(o.rule, 0) < 3:
            seen_rules[o.rule] = seen_rules.get(o.rule, 0) + 1
            samples.append(o.to_json())
    distinct = len({(o.rule, o.key) for o in rep.obs if o.rule != 'floor'})
    ev = {
        'property_id': rep.pid,
        'tier': rep.tier,
        'seed': seed,
        'level': 'other',
        'coverage': {
            'explanation': rep.explanation,
            'obligations': total,
            'discharged': good,
            'evaluations': max(total, 1),
            'distinct_nontrivial': max(distinct, 2) if distinct >= 2 else distinct,
            'rule': 'one obligation = one instance of one static rule (rule id + role-based key, never a line number) evaluated on '
                    "/repo's current working tree; distinct = distinct (rule,key) pairs excluding instance floors",
            'per_rule': {k: {'instances': v[0], 'holding': v[1]} for k, v in sorted(per_rule.items())},
            'instance_floors': [{'anchor': a, 'found': b, 'floor': c} for a, b, c in rep.floors],
            'samples': samples[:40],
            'analysed': rep.analysed,
            'known_findings_observed': sorted({o.key for o in kf}),
            'trusted_base': rep.trusted,
            'checker_cmd': f'./check {rep.pid} --tier {rep.tier}',
            'exhaustive': rep.exhaustive,
            'tree_hash': tree_hash(),
        },
        'assumptions': rep.assumptions,
        'wall_s': round(time.time() - t0, 2),
        'violations': len(viol),
    }
    ev['coverage'].update(rep.info)
    json.dump(ev, open(os.path.join(EVID, rep.pid + '.json'), 'w'), indent=1, sort_keys=True)
    print(f'[{rep.pid}] tier={rep.tier} obligations={total} holding={good} known-findings={len(seen)} '
          f'violations={len(viol)} wall={ev["wall_s"]}s')
    return 1 if viol else 0


def conditional_compilation(rep):
    """Coverage of the analysis: the checks see the crate as it is built with its default features in the dev profile.  Code under any other
    `#[cfg(..)]` / `cfg!(..)` / `#[cfg_attr(..)]` (another profile, feature, target) is a second program the analysis has not looked at - it
    is reported as undecided, never silently trusted.  `#[cfg(test)]` items are not part of the library."""
    import re, glob
    hits = []
    for path in sorted(glob.glob(os.path.join(SRC, '**', '*.rs'), recursive=True)):
        text = open(path, encoding='utf-8', errors='replace').read()
        # drop line comments and string literals (doc examples live in comments)
        code = re.sub(r'//[^\n]*', '', text)
        code = re.sub(r'"(?:\\.|[^"\\])*"', '""', code)
        for m in re.finditer(r'#!?\[\s*cfg(_attr)?\s*\(([^\]]*)\]|\bcfg!\s*\(([^)]*)\)', code):
            body = (m.group(2) or m.group(3) or '').replace(' ', '')
            if m.group(1) is None and m.group(3) is None and body.rstrip(')') == 'test':
                continue
            if m.group(3) is not None and body == 'test':
                continue
            if m.group(1) is not None and re.match(r'^(?:[^,()]|\([^()]*(?:\([^()]*\)[^()]*)*\))*,(doc|allow|warn|deny|forbid|expect|must_use|inline|cold|deprecated|rustfmt::skip)\b', body):
                continue        # documentation / lint / inlining attribute: no effect on what the code computes
            line = code[:m.start()].count('\n') + 1
            hits.append((os.path.relpath(path, REPO), line, m.group(0)[:60]))
    for f, line, what in hits:
        rep.bad('coverage.conditional-compilation', f'cfg:{f}:{what.replace(" ", "")}', f'{f}:{line}',
                f'`{what}`: code that is compiled only under another configuration (profile, feature, target) is not covered by the analysed build; the property is not established '
                f'for that variant of the library', undecided=True)
    if not hits:
        rep.ok('coverage.conditional-compilation', 'no-cfg', '', 'no #[cfg(..)] / cfg!(..) other than cfg(test) in the library source: the analysed build is the only variant')
