#!/usr/bin/env python3
"""confirm_seed.py <worktree> <n> <PID> [name]  - independently confirm a seeded change delivered by a sub-agent in
<worktree>/out/<n>/: (1) patch applies to clean HEAD, (2) whole existing suite passes with it, (3) the demonstration fails
with it, (4) the demonstration passes without it. On success store it under /verif/seeded/<PID>-<name>/."""
import json, os, re, shutil, subprocess, sys
wt, n, pid = sys.argv[1], sys.argv[2], sys.argv[3]
name = sys.argv[4] if len(sys.argv) > 4 else n
out = f'{wt}/out/{n}'
env = dict(os.environ, CARGO_TARGET_DIR=f'{wt}/target', CARGO_NET_OFFLINE='true')
def sh(cmd, **kw):
    p = subprocess.run(cmd, shell=True, cwd=wt, env=env, stdout=subprocess.PIPE, stderr=subprocess.STDOUT, text=True, **kw)
    return p.returncode, p.stdout
def results(o):
    return re.findall(r'test result: (\w+)\. (\d+) passed; (\d+) failed', o)
sh('git checkout -q -- . && git clean -fdq wgsl_to_wgpu example')
demo_dst = f'{wt}/wgsl_to_wgpu/tests/demo.rs'
extra = [f for f in os.listdir(out) if f not in ('patch.diff', 'demo.rs', 'notes.md')]
log = {}
rc, o = sh(f'git apply --check {out}/patch.diff'); log['applies'] = rc == 0
if rc: print('patch does not apply', o); sys.exit(1)
sh(f'git apply {out}/patch.diff')
rc, o = sh('cargo test --workspace --no-fail-fast --offline 2>&1')
r = results(o); log['suite_with_patch'] = r
suite_ok = rc == 0 and sum(int(x[1]) for x in r) >= 56 and all(x[0] == 'ok' for x in r)
shutil.copy(f'{out}/demo.rs', demo_dst)
for f in extra:
    src = f'{out}/{f}'
    if os.path.isfile(src): shutil.copy(src, f'{wt}/wgsl_to_wgpu/tests/{f}')
rc1, o1 = sh('cargo test -p wgsl_to_wgpu --test demo --offline 2>&1', timeout=1200)
log['demo_with_patch'] = results(o1); demo_fails = rc1 != 0 and ('FAILED' in o1 or 'failed' in o1)
sh('git checkout -q -- wgsl_to_wgpu/src example')
rc2, o2 = sh('cargo test -p wgsl_to_wgpu --test demo --offline 2>&1', timeout=1200)
log['demo_without_patch'] = results(o2); demo_passes = rc2 == 0
sh('git checkout -q -- . && git clean -fdq wgsl_to_wgpu example')
ok = suite_ok and demo_fails and demo_passes
print(json.dumps(dict(pid=pid, n=n, suite_ok=suite_ok, demo_fails_with=demo_fails, demo_passes_without=demo_passes, **log)))
if not ok:
    if not demo_fails: print(o1[-1500:])
    if not demo_passes: print(o2[-1500:])
    if not suite_ok: print(o[-2500:])
    sys.exit(1)
dst = f'/verif/seeded/{pid}-{name}'
os.makedirs(dst, exist_ok=True)
for f in os.listdir(out):
    if os.path.isfile(f'{out}/{f}'): shutil.copy(f'{out}/{f}', dst)
notes = open(f'{out}/notes.md').read() if os.path.exists(f'{out}/notes.md') else ''
meta = {'property': pid, 'origin': 'independent sub-agent given only the property text and a scratch worktree',
        'needs_to_manifest': notes[:1500],
        'confirmed': {'base_commit': subprocess.check_output(['git', '-C', wt, 'rev-parse', 'HEAD'], text=True).strip(),
                      'commands': ['git apply patch.diff', 'cargo test --workspace --no-fail-fast --offline  (existing suite: all pass)',
                                   'cp demo.rs wgsl_to_wgpu/tests/demo.rs; cargo test -p wgsl_to_wgpu --test demo --offline  (fails with patch)',
                                   'git checkout -- wgsl_to_wgpu/src; cargo test -p wgsl_to_wgpu --test demo --offline  (passes without patch)'],
                      'suite_with_patch': log['suite_with_patch'], 'demo_with_patch': log['demo_with_patch'],
                      'demo_without_patch': log['demo_without_patch']},
        'detected_by': None}
json.dump(meta, open(f'{dst}/meta.json', 'w'), indent=1)
print('stored', dst)
# ---- optional twin: the same refactoring without the defect (delivered by the agent as twin.diff) -------------------------------------------
twin = f'{out}/twin.diff'
if os.path.exists(twin):
    sh('git checkout -q -- . && git clean -fdq wgsl_to_wgpu example')
    rc, o = sh(f'git apply {twin}')
    tl = {'applies': rc == 0}
    if rc == 0:
        rc, o = sh('cargo test --workspace --no-fail-fast --offline 2>&1')
        r = results(o)
        tl['suite'] = r
        t_suite = rc == 0 and sum(int(x[1]) for x in r) >= 56 and all(x[0] == 'ok' for x in r)
        shutil.copy(f'{out}/demo.rs', demo_dst)
        for f in extra:
            src = f'{out}/{f}'
            if os.path.isfile(src) and f != 'twin.diff':
                shutil.copy(src, f'{wt}/wgsl_to_wgpu/tests/{f}')
        rc3, o3 = sh('cargo test -p wgsl_to_wgpu --test demo --offline 2>&1', timeout=1200)
        tl['demo'] = results(o3)
        ok_t = t_suite and rc3 == 0
        if ok_t:
            os.makedirs('/verif/selftest/twins', exist_ok=True)
            shutil.copy(twin, f'/verif/selftest/twins/{pid}-{name}.diff')
        print(json.dumps({'twin': tl, 'twin_ok': ok_t}))
    else:
        print(json.dumps({'twin': tl, 'twin_ok': False}))
    sh('git checkout -q -- . && git clean -fdq wgsl_to_wgpu example')
    # twin.diff is not part of the seed directory's deliverables to replay
    if os.path.exists(f'{dst}/twin.diff'):
        os.unlink(f'{dst}/twin.diff')
