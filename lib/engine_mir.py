"""Engine B: run the mirfacts rustc driver over /repo's current working tree and give the rules a typed view of
the resolved MIR: bodies, CFG, dominators, reachability, resolved call graph, def-use slices."""
import glob, json, os, shutil, subprocess
from common import VERIF, REPO, WORK, Lock, run, tree_hash, prune_work

DRIVER_DIR = os.path.join(VERIF, 'tools', 'mirfacts')
DRIVER = os.path.join(DRIVER_DIR, 'target', 'debug', 'mirfacts')


def sysroot():
    return subprocess.check_output(['rustc', '+nightly', '--print', 'sysroot'], text=True).strip()


def build_driver():
    src = os.path.join(DRIVER_DIR, 'src', 'main.rs')
    if os.path.exists(DRIVER) and os.path.getmtime(DRIVER) >= os.path.getmtime(src):
        return
    rc, out = run('cargo build --offline', cwd=DRIVER_DIR)
    if rc != 0:
        raise RuntimeError('cannot build mirfacts driver:\n' + out[-3000:])


class EngineError(Exception):
    pass


def facts_path():
    return os.path.join(WORK, 'trees', tree_hash(), 'mir.json')


def ensure_facts():
    """(re)compute MIR facts for the current tree; cached by tree hash only"""
    path = facts_path()
    if os.path.exists(path):
        try:
            os.utime(os.path.dirname(path))
        except OSError:
            pass
        return path
    with Lock('mir'):
        if os.path.exists(path):
            return path
        build_driver()
        outdir = os.path.join(WORK, 'mir-out')
        shutil.rmtree(outdir, ignore_errors=True)
        os.makedirs(outdir)
        target = os.path.join(WORK, 'mir-target')
        # cargo must not replay a cached result for the member crate: drop its fingerprints
        for fp in glob.glob(os.path.join(target, 'debug', '.fingerprint', 'wgsl_to_wgpu-*')):
            shutil.rmtree(fp, ignore_errors=True)
        env = {
            'LD_LIBRARY_PATH': os.path.join(sysroot(), 'lib'),
            'RUSTFLAGS': '-Zmir-opt-level=0 -Awarnings',
            'RUSTC_WORKSPACE_WRAPPER': DRIVER,
            'MIRFACTS_OUT': outdir,
            'MIRFACTS_CRATE': 'wgsl_to_wgpu',
            'CARGO_TARGET_DIR': target,
        }
        rc, out = run('cargo +nightly check --offline -p wgsl_to_wgpu --lib', env=env, cwd=REPO)
        files = glob.glob(os.path.join(outdir, 'wgsl_to_wgpu-*.json'))
        if rc != 0 or len(files) != 1:
            raise EngineError('cargo +nightly check of /repo failed or wrote no fact file (rc=%d, files=%d):\n%s'
                              % (rc, len(files), out[-4000:]))
        os.makedirs(os.path.dirname(path), exist_ok=True)
        shutil.move(files[0], path)
        prune_work(tree_hash())
    return path


# ------------------------------------------------------------------------------------------------------------

def op_place(op):
    if op is None:
        return None
    return op.get('copy') or op.get('move')


def op_local(op):
    p = op_place(op)
    return p['l'] if p else None


class Body:
    def __init__(self, j):
        self.j = j
        self.name = j['fn']
        self.kind = j['kind']
        self.parent = j['parent']
        self.blocks = j['blocks']
        self.locals = j['locals']
        self.arg_count = j['arg_count']
        self.file = j['span']['file']
        self.line = j['span']['line']
        self.n = len(self.blocks)
        self._succ = None
        self._pred = None
        self._dom = None
        self._defs = None

    def where(self, bb=None):
        if bb is None:
            return f'{self.file}:{self.line} fn {self.name}'
        t = self.blocks[bb]['term']
        sp = t.get('span')
        if sp:
            return f"{sp['file']}:{sp['line']} fn {self.name} (bb{bb})"
        return f'{self.file} fn {self.name} (bb{bb})'

    # --- CFG -------------------------------------------------------------------------------------------
    def term_succ(self, bb, unwind=True):
        t = self.blocks[bb]['term']
        k = t['k']
        out = []
        if k == 'goto':
            out = [t['target']]
        elif k == 'switch':
            out = [x[1] for x in t['targets']] + [t['otherwise']]
        elif k in ('call', 'drop', 'assert'):
            if t.get('target') is not None:
                out.append(t['target'])
            if unwind and t.get('unwind') is not None:
                out.append(t['unwind'])
        elif k == 'other':
            out = list(t.get('succ', []))
        return out

    def succ(self, unwind=False):
        key = '_succ_u' if unwind else '_succ'
        if getattr(self, key, None) is None:
            setattr(self, key, [self.term_succ(b, unwind) for b in range(self.n)])
        return getattr(self, key)

    def preds(self):
        if self._pred is None:
            p = [[] for _ in range(self.n)]
            for b, ss in enumerate(self.succ()):
                for s in ss:
                    p[s].append(b)
            self._pred = p
        return self._pred

    def reachable_from(self, starts, unwind=False, avoid=()):
        seen = set()
        st = [s for s in starts if s not in avoid]
        succ = self.succ(unwind)
        while st:
            b = st.pop()
            if b in seen:
                continue
            seen.add(b)
            for s in succ[b]:
                if s not in seen and s not in avoid:
                    st.append(s)
        return seen

    def dominators(self):
        """dom[b] = set of blocks dominating b (normal edges only), unreachable blocks -> all"""
        if self._dom is not None:
            return self._dom
        n = self.n
        reach = self.reachable_from([0])
        full = set(range(n))
        dom = [set(full) for _ in range(n)]
        dom[0] = {0}
        preds = self.preds()
        changed = True
        order = sorted(reach)
        while changed:
            changed = False
            for b in order:
                if b == 0:
                    continue
                ps = [p for p in preds[b] if p in reach]
                if not ps:
                    continue
                new = set.intersection(*[dom[p] for p in ps]) | {b}
                if new != dom[b]:
                    dom[b] = new
                    changed = True
        self._dom = dom
        return dom

    def dominates(self, a, b):
        return a in self.dominators()[b]

    # --- statements / def-use ---------------------------------------------------------------------------
    def calls(self):
        for b, blk in enumerate(self.blocks):
            t = blk['term']
            if t['k'] == 'call':
                yield b, t

    def defs(self):
        """local -> list of (bb, kind, payload): assignments and call destinations that write the local
        (whole or projected)"""
        if self._defs is None:
            d = {}
            for b, blk in enumerate(self.blocks):
                for si, st in enumerate(blk['stmts']):
                    d.setdefault(st['lhs']['l'], []).append((b, 'assign', st))
                t = blk['term']
                if t['k'] == 'call':
                    d.setdefault(t['dest']['l'], []).append((b, 'call', t))
            self._defs = d
        return self._defs

    @staticmethod
    def rvalue_places(rv):
        out = []
        for o in rv.get('ops', []):
            p = op_place(o)
            if p:
                out.append(p)
        if 'place' in rv:
            out.append(rv['place'])
        return out

    def backward_slice(self, locals_, through_calls=True, max_steps=10000, cut=None):
        """set of locals the given locals (transitively) derive from; also returns the call terminators and
        statements visited"""
        seen = set()
        calls, stmts = [], []
        work = list(locals_)
        defs = self.defs()
        while work and max_steps > 0:
            max_steps -= 1
            l = work.pop()
            if l in seen:
                continue
            seen.add(l)
            for (b, kind, x) in defs.get(l, []):
                if kind == 'assign':
                    stmts.append((b, x))
                    for p in self.rvalue_places(x['rv']):
                        work.append(p['l'])
                        for e in p['p']:
                            if isinstance(e, dict) and 'index' in e:
                                work.append(e['index'])
                else:
                    calls.append((b, x))
                    if through_calls and not (cut is not None and cut(x)):
                        for o in x['args']:
                            ll = op_local(o)
                            if ll is not None:
                                work.append(ll)
        return seen, calls, stmts


class Mir:
    def __init__(self, path=None):
        path = path or ensure_facts()
        self.j = json.load(open(path))
        self.bodies = {b['fn']: Body(b) for b in self.j['bodies']}
        self.statics = self.j['statics']
        self._cg = None

    def crate_fn(self, name):
        return name in self.bodies

    def callee_of(self, t):
        """best name of a call terminator's callee: resolved instance if any, else the unresolved path"""
        return t['callee'] or t['raw']

    def trait_impls(self):
        """(trait path without generics, method) -> bodies `<T as Trait>::method` of the crate"""
        if getattr(self, '_ti', None) is None:
            import re
            ti = {}
            for n in self.bodies:
                m = re.match(r'^<(.+) as ([^<>]+?)(<.*>)?>::(\w+)$', n)
                if m:
                    ti.setdefault((m.group(2), m.group(4)), []).append(n)
            self._ti = {k: sorted(v) for k, v in ti.items()}
        return self._ti

    def dyn_candidates(self, t, fmt=False):
        """a call the compiler could not resolve to one instance (`dyn Trait` receiver, or a method of a bounded type parameter) whose trait
        has implementations in the crate: every implementation may run (class-hierarchy analysis)"""
        import re
        c = self.callee_of(t)
        virtual = (t.get('self_ty') or '').startswith('dyn ') or not t.get('callee')
        if (c in self.bodies and not virtual) or '::' not in c:
            return []
        if c in self.bodies:
            # a provided method of a crate trait called on a trait object / a bounded type parameter: the implementations that override it may run
            tr, _, me = re.sub(r'::<[^>]*>', '', c).rpartition('::')
            return [x for x in self.trait_impls().get((tr, me), []) if x != c]
        # formatting machinery: `format_args!("{}", x)` stores <T as Display>::fmt as a function pointer (Argument::new_display::<T>), `x.to_string()` runs
        # it through the blanket impl - the implementation of the crate is what runs
        fm = re.match(r"^core::fmt::rt::Argument::<'_>::new_(display|debug|lower_hex|upper_hex|lower_exp|upper_exp|octal|binary|pointer)$", c)
        if fmt and (fm or c in ('<T as std::string::ToString>::to_string', '<T as std::string::SpecToString>::spec_to_string')):
            tr = {'display': 'Display', 'debug': 'Debug', 'lower_hex': 'LowerHex', 'upper_hex': 'UpperHex', 'lower_exp': 'LowerExp', 'upper_exp': 'UpperExp',
                  'octal': 'Octal', 'binary': 'Binary', 'pointer': 'Pointer'}[fm.group(1)] if fm else 'Display'
            ty = re.sub(r"^(&('\w+ |'\{erased\} )?(mut )?)+", '', t.get('self_ty') or '')
            n_ = f'<{ty} as std::fmt::{tr}>::fmt'
            return [n_] if n_ in self.bodies else []
        tr, _, me = re.sub(r'::<[^>]*>', '', c).rpartition('::')
        return self.trait_impls().get((tr, me), [])

    def impls_by_type(self):
        """type (as printed in impl names) -> bodies `<T as Trait>::m` for traits that are not the crate's own"""
        if getattr(self, '_ibt', None) is None:
            import re
            d = {}
            for n in self.bodies:
                m = re.match(r'^<(.+) as ([^<>]+?)(<.*>)?>::(\w+)$', n)
                if m and '::' in m.group(2):
                    ty = re.sub(r"<.*$", '', m.group(1))           # `Summary<'_>` -> `Summary`
                    d.setdefault(ty, []).append(n)
            self._ibt = {k: (re.compile(r'(?<![\w:])' + re.escape(k) + r'(?![\w])'), sorted(v)) for k, v in d.items()}
        return self._ibt

    def generic_candidates(self, t):
        """library code instantiated with a crate type runs that type's trait implementations (Iterator::next under `collect`, Ord::cmp under `sort`,
        Clone under `cloned`, Hash / Eq under a map, Extend, FromIterator, ..): a call of a function that is not the crate's own whose generic arguments
        mention the type may call every implementation of a non-crate trait for it (an over-approximation)"""
        if self.callee_of(t) in self.bodies:
            return []
        g = (t.get('generics') or '') + ' ' + (t.get('self_ty') or '')
        if not g.strip():
            return []
        out = []
        for ty, (rx, fns) in self.impls_by_type().items():
            if rx.search(g):
                out.extend(fns)
        return out

    def drop_candidates(self, body, t):
        """a `drop` of a place whose type mentions a crate type with a Drop impl runs it"""
        ty = body.locals[t['place']['l']] if isinstance(t.get('place'), dict) and 'l' in t['place'] else ''
        out = []
        for ty_, (rx, fns) in self.impls_by_type().items():
            if rx.search(ty):
                out.extend(f for f in fns if ' as std::ops::Drop>::drop' in f)
        return out

    @staticmethod
    def _sig_norm(s):
        import re
        s = re.sub(r"for<[^>]*>\s*", '', s)
        s = re.sub(r"'\w+\s*|'\{erased\}\s*", '', s)
        s = re.sub(r"\b(unsafe |extern \"[^\"]*\" )", '', s)
        return s.replace(' ', '')

    def indirect_candidates(self, t):
        """a call through a function pointer: every function of the crate with that signature may be the target (its address may have been taken in a
        constant or static initialiser, which has no body in the facts)"""
        raw = t.get('raw') or ''
        if not t.get('indirect') or not raw.startswith('<indirect:'):
            return []
        want = self._sig_norm(raw[len('<indirect:'):-1])
        if getattr(self, '_sigs', None) is None:
            self._sigs = {}
            for n, b in self.bodies.items():
                if b.kind in ('Fn', 'AssocFn'):
                    ret = b.locals[0]
                    sig = 'fn(' + ','.join(b.locals[1:1 + b.arg_count]) + ')' + ('' if ret == '()' else '->' + ret)
                    self._sigs.setdefault(self._sig_norm(sig), []).append(n)
        return self._sigs.get(want, [])

    def call_graph(self):
        """edges between crate bodies: direct resolved calls, plus closure creation (a closure is attributed
        to the body that creates it: it may be called by whatever the creator hands it to)"""
        if self._cg is None:
            g = {n: set() for n in self.bodies}
            self.approx_edges = set()       # edges added by over-approximation of open dispatch (not resolved by the compiler)
            for n, b in self.bodies.items():
                for _, t in b.calls():
                    c = self.callee_of(t)
                    if c in self.bodies:
                        if c not in g[n] and ((t.get('self_ty') or '').startswith('dyn ') or not t.get('callee')):
                            self.approx_edges.add((n, c))       # the provided method of a virtual call is one candidate among the implementations
                        g[n].add(c)
                        ap = set(self.dyn_candidates(t))
                        self.approx_edges.update((n, c_) for c_ in ap if c_ not in g[n])
                        g[n].update(ap)
                    else:
                        ap = set(self.dyn_candidates(t, fmt=True)) | set(self.generic_candidates(t)) | set(self.indirect_candidates(t))
                        self.approx_edges.update((n, c_) for c_ in ap if c_ not in g[n])
                        g[n].update(ap)
                    # function items / closures passed as values
                    for o in t['args']:
                        if 'fn' in o and o['fn'] in self.bodies:
                            g[n].add(o['fn'])
                for blk in b.blocks:
                    if blk['term']['k'] == 'drop':
                        ap = set(self.drop_candidates(b, blk['term']))
                        self.approx_edges.update((n, c_) for c_ in ap if c_ not in g[n])
                        g[n].update(ap)
                    for st in blk['stmts']:
                        rv = st['rv']
                        if rv.get('rk') == 'aggregate' and rv['agg'].startswith('closure:'):
                            c = rv['agg'][len('closure:'):]
                            if c in self.bodies:
                                g[n].add(c)
                        for o in rv.get('ops', []):
                            if 'fn' in o and o['fn'] in self.bodies:
                                g[n].add(o['fn'])
            self._cg = g
        return self._cg

    def reachable_fns(self, roots):
        g = self.call_graph()
        seen, st = set(), list(roots)
        while st:
            f = st.pop()
            if f in seen or f not in g:
                continue
            seen.add(f)
            st.extend(g[f])
        return seen

    def callers_closure(self, targets):
        """all crate bodies from which one of `targets` is reachable"""
        g = self.call_graph()
        rev = {n: set() for n in g}
        for a, bs in g.items():
            for b in bs:
                rev[b].add(a)
        seen, st = set(), list(targets)
        while st:
            f = st.pop()
            if f in seen:
                continue
            seen.add(f)
            st.extend(rev.get(f, ()))
        return seen

    def sccs(self):
        g = self.call_graph()
        index, low, onst, st, out = {}, {}, set(), [], []
        counter = [0]
        import sys
        sys.setrecursionlimit(10000)

        def visit(v):
            index[v] = low[v] = counter[0]
            counter[0] += 1
            st.append(v)
            onst.add(v)
            for w in g[v]:
                if w not in index:
                    visit(w)
                    low[v] = min(low[v], low[w])
                elif w in onst:
                    low[v] = min(low[v], index[w])
            if low[v] == index[v]:
                comp = []
                while True:
                    w = st.pop()
                    onst.discard(w)
                    comp.append(w)
                    if w == v:
                        break
                out.append(comp)
        for v in g:
            if v not in index:
                visit(v)
        return out

    def all_calls(self):
        for n, b in self.bodies.items():
            for bb, t in b.calls():
                yield b, bb, t


# ---- MIR-level inlining of crate helpers (so that intra-procedural path rules survive the extraction of helper functions) -----------------
def _renumber(x, loff, boff):
    """deep copy of a statement / terminator JSON with locals shifted by loff and block numbers by boff"""
    if isinstance(x, dict):
        out = {}
        for k, v in x.items():
            if k == 'l' and isinstance(v, int):
                out[k] = v + loff
            elif k == 'index' and isinstance(v, int):
                out[k] = v + loff
            elif k in ('target', 'unwind', 'otherwise') and isinstance(v, int):
                out[k] = v + boff
            elif k == 'targets' and isinstance(v, list):
                out[k] = [[a, b + boff] for a, b in v]
            elif k == 'succ' and isinstance(v, list):
                out[k] = [b + boff for b in v]
            else:
                out[k] = _renumber(v, loff, boff)
        return out
    if isinstance(x, list):
        return [_renumber(v, loff, boff) for v in x]
    return x


def _expand_combinators(mir, j, name, rec, skip):
    """`opt.and_then(f)` / `opt.map(f)` / `res.and_then(f)` / `res.map(f)` with `f` a crate function passed by name are rewritten into the branch
    they stand for (switch on the discriminant; on the Some / Ok edge a direct call of `f` with the payload), so that the call can be inlined
    and its guards correlate with the paths that built the Option / Result"""
    for b in range(len(j['blocks'])):
        t = j['blocks'][b]['term']
        if t['k'] != 'call' or t.get('target') is None or len(t.get('args', [])) != 2:
            continue
        callee = t['callee'] or t['raw']
        kind = None
        for pre, some, none, adt in (('std::option::Option::<T>::', 'Some', 'None', 'std::option::Option'), ('std::result::Result::<T, E>::', 'Ok', 'Err', 'std::result::Result')):
            if callee in (pre + 'and_then', pre + 'map'):
                kind = (callee[len(pre):], some, none, adt)
        f = t['args'][1].get('fn') if isinstance(t['args'][1], dict) else None
        if kind is None or f is None or f not in mir.bodies or f in rec or f in skip or f == name:
            continue
        recv = t['args'][0]
        rp = recv.get('move') or recv.get('copy')
        if rp is None:
            continue
        which, some, none, adt = kind
        sp = t.get('span')
        nl = len(j['locals'])
        j['locals'].extend(['isize', 'payload', 'mapped'])
        disc, payload, mapped = nl, nl + 1, nl + 2
        nb = len(j['blocks'])
        b_none, b_some, b_wrap = nb, nb + 1, nb + 2
        j['blocks'][b]['stmts'].append({'lhs': {'l': disc, 'p': []}, 'rv': {'rk': 'discriminant', 'place': rp}, 'span': sp})
        j['blocks'][b]['term'] = {'k': 'switch', 'discr': {'move': {'l': disc, 'p': []}}, 'targets': [[0 if some == 'Some' else 1, b_none]], 'otherwise': b_some, 'span': sp,
                                  'expanded': callee}
        if some == 'Some':
            j['blocks'][b]['term']['targets'] = [[0, b_none]]
        else:
            j['blocks'][b]['term']['targets'] = [[1, b_none]]
        # None / Err edge: the result is the empty variant (for Result the error is carried over)
        none_ops = [] if none == 'None' else [{'move': {'l': rp['l'], 'p': rp['p'] + [{'downcast': 'Err'}, {'f': '0', 'i': 0, 'adt': adt, 'variant': 'Err'}]}}]
        j['blocks'].append({'stmts': [{'lhs': t['dest'], 'rv': {'rk': 'aggregate', 'agg': f'adt:{adt}::{none}', 'fields': ['0'] if none_ops else [], 'ops': none_ops}, 'span': sp}],
                            'term': {'k': 'goto', 'target': t['target']}})
        pay_place = {'l': rp['l'], 'p': rp['p'] + [{'downcast': some}, {'f': '0', 'i': 0, 'adt': adt, 'variant': some}]}
        call_dest = t['dest'] if which == 'and_then' else {'l': mapped, 'p': []}
        j['blocks'].append({'stmts': [{'lhs': {'l': payload, 'p': []}, 'rv': {'rk': 'use', 'ops': [{'move': pay_place}]}, 'span': sp}],
                            'term': {'k': 'call', 'raw': f, 'callee': f, 'generics': '[]', 'self_ty': '', 'indirect': False, 'args': [{'move': {'l': payload, 'p': []}}],
                                     'dest': call_dest, 'target': t['target'] if which == 'and_then' else b_wrap, 'unwind': t.get('unwind'), 'span': sp}})
        j['blocks'].append({'stmts': [{'lhs': t['dest'], 'rv': {'rk': 'aggregate', 'agg': f'adt:{adt}::{some}', 'fields': ['0'], 'ops': [{'move': {'l': mapped, 'p': []}}]}, 'span': sp}],
                            'term': {'k': 'goto', 'target': t['target']}})


def _expand_value_combinators(j):
    """`cond.then_some(v)` and `opt.ok_or(e)` are rewritten into the branch they stand for (`if cond { Some(v) } else { None }`,
    `match opt { Some(v) => Ok(v), None => Err(e) }`), so that a result built as `is_consecutive.then_some(groups).ok_or(Error)` is the guarded
    `Ok(groups)` / `Err(..)` the path rules look for"""
    for b in range(len(j['blocks'])):
        t = j['blocks'][b]['term']
        if t['k'] != 'call' or t.get('target') is None or len(t.get('args', [])) != 2 or t['dest']['p']:
            continue
        callee = t['callee'] or t['raw']
        sp = t.get('span')
        a0, a1 = t['args']
        nb = len(j['blocks'])
        if callee == 'core::bool::<impl bool>::then_some' and (a0.get('move') or a0.get('copy')):
            j['blocks'].append({'stmts': [{'lhs': t['dest'], 'rv': {'rk': 'aggregate', 'agg': 'adt:std::option::Option::Some', 'fields': ['0'], 'ops': [a1]}, 'span': sp}],
                                'term': {'k': 'goto', 'target': t['target']}})
            j['blocks'].append({'stmts': [{'lhs': t['dest'], 'rv': {'rk': 'aggregate', 'agg': 'adt:std::option::Option::None', 'fields': [], 'ops': []}, 'span': sp}],
                                'term': {'k': 'goto', 'target': t['target']}})
            j['blocks'][b]['term'] = {'k': 'switch', 'discr': a0, 'targets': [[0, nb + 1]], 'otherwise': nb, 'span': sp, 'expanded': callee}
        elif callee == 'std::option::Option::<T>::ok_or' and (a0.get('move') or a0.get('copy')):
            rp = a0.get('move') or a0.get('copy')
            disc = len(j['locals'])
            j['locals'].append('isize')
            j['blocks'][b]['stmts'].append({'lhs': {'l': disc, 'p': []}, 'rv': {'rk': 'discriminant', 'place': rp}, 'span': sp})
            pay = {'l': rp['l'], 'p': rp['p'] + [{'downcast': 'Some'}, {'f': '0', 'i': 0, 'adt': 'std::option::Option', 'variant': 'Some'}]}
            j['blocks'].append({'stmts': [{'lhs': t['dest'], 'rv': {'rk': 'aggregate', 'agg': 'adt:std::result::Result::Ok', 'fields': ['0'], 'ops': [{'move': pay}]}, 'span': sp}],
                                'term': {'k': 'goto', 'target': t['target']}})
            j['blocks'].append({'stmts': [{'lhs': t['dest'], 'rv': {'rk': 'aggregate', 'agg': 'adt:std::result::Result::Err', 'fields': ['0'], 'ops': [a1]}, 'span': sp}],
                                'term': {'k': 'goto', 'target': t['target']}})
            j['blocks'][b]['term'] = {'k': 'switch', 'discr': {'move': {'l': disc, 'p': []}}, 'targets': [[0, nb + 1]], 'otherwise': nb, 'span': sp, 'expanded': callee}


LOOP_CONSUMERS = {'std::iter::Iterator::try_for_each': 'try', 'std::iter::Iterator::for_each': 'each'}


def _expand_closure_loops(mir, j, name):
    """`iter.for_each(closure)` / `iter.try_for_each(closure)` with a closure created in this body is the loop it stands for:
    `loop { match iter.next() { Some(x) => closure(x) [?], None => break } }` with the closure body inlined (its environment parameter is a
    reference to the closure value, so captured variables resolve to the creator's places) - so that path rules written for `for` loops judge
    the iterator-chain form of the same loop."""
    import copy
    for b in range(len(j['blocks'])):
        t = j['blocks'][b]['term']
        if t['k'] != 'call' or t.get('target') is None or len(t.get('args', [])) != 2:
            continue
        callee = t['callee'] or t['raw']
        kind = LOOP_CONSUMERS.get(t['raw']) or LOOP_CONSUMERS.get(callee.split('<')[0] if not callee.startswith('<') else callee)
        if kind is None:
            for k_, v_ in LOOP_CONSUMERS.items():
                if callee.endswith('::' + k_.split('::')[-1]) and 'Iterator' in callee:
                    kind = v_
        if kind is None:
            continue
        ca = t['args'][1]
        cl = (ca.get('move') or ca.get('copy') or {}).get('l') if isinstance(ca, dict) else None
        it = t['args'][0]
        itl = (it.get('move') or it.get('copy') or {}).get('l') if isinstance(it, dict) else None
        if cl is None or itl is None:
            continue
        cname_ = None
        for blk in j['blocks']:
            for st in blk['stmts']:
                if st['lhs']['l'] == cl and not st['lhs']['p'] and st['rv']['rk'] == 'aggregate' and st['rv']['agg'].startswith('closure:'):
                    cname_ = st['rv']['agg'][len('closure:'):]
        if cname_ is None or cname_ not in mir.bodies:
            continue
        cb = mir.bodies[cname_]
        if cb.arg_count != 2 or len(cb.blocks) > 200:
            continue
        sp = t.get('span')
        it_ty = j['locals'][itl]
        while it_ty.startswith('&'):
            it_ty = it_ty[1:].lstrip()
            if it_ty.startswith('mut '):
                it_ty = it_ty[4:]
        nl = len(j['locals'])
        j['locals'].extend(['std::option::Option<item>', 'isize', 'isize'])
        optl, d1, d2 = nl, nl + 1, nl + 2
        loff = len(j['locals'])
        j['locals'].extend(cb.locals)
        nb = len(j['blocks'])
        H, S, BODY, DONE, AFTER_ERR = nb, nb + 1, nb + 2, nb + 3, nb + 4
        boff = nb + 5
        j['blocks'][b]['term'] = {'k': 'goto', 'target': H, 'expanded_loop': callee}
        j['blocks'].append({'stmts': [], 'term': {'k': 'call', 'raw': 'std::iter::Iterator::next', 'callee': f'<{it_ty} as std::iter::Iterator>::next', 'generics': f'[{it_ty}]',
                                                  'self_ty': it_ty, 'indirect': False, 'args': [{'copy': {'l': itl, 'p': []}}], 'dest': {'l': optl, 'p': []}, 'target': S,
                                                  'unwind': t.get('unwind'), 'span': sp}})
        j['blocks'].append({'stmts': [{'lhs': {'l': d1, 'p': []}, 'rv': {'rk': 'discriminant', 'place': {'l': optl, 'p': []}}, 'span': sp}],
                            'term': {'k': 'switch', 'discr': {'move': {'l': d1, 'p': []}}, 'targets': [[0, DONE]], 'otherwise': BODY, 'span': sp}})
        pay = {'l': optl, 'p': [{'downcast': 'Some'}, {'f': '0', 'i': 0, 'adt': 'std::option::Option', 'variant': 'Some'}]}
        j['blocks'].append({'stmts': [{'lhs': {'l': loff + 1, 'p': []}, 'rv': {'rk': 'ref', 'place': {'l': cl, 'p': []}, 'mut': True}, 'span': sp},
                                      {'lhs': {'l': loff + 2, 'p': []}, 'rv': {'rk': 'use', 'ops': [{'move': pay}]}, 'span': sp}],
                            'term': {'k': 'goto', 'target': boff}})
        done_stmts = []
        if kind == 'try':
            done_stmts = [{'lhs': t['dest'], 'rv': {'rk': 'aggregate', 'agg': 'adt:std::result::Result::Ok', 'fields': ['0'], 'ops': [{'const': 'const ()', 'ty': '()'}]}, 'span': sp}]
        j['blocks'].append({'stmts': done_stmts, 'term': {'k': 'goto', 'target': t['target']}})
        j['blocks'].append({'stmts': [{'lhs': t['dest'], 'rv': {'rk': 'use', 'ops': [{'move': {'l': loff, 'p': []}}]}, 'span': sp}], 'term': {'k': 'goto', 'target': t['target']}})
        for cblk in cb.blocks:
            nbk = _renumber(copy.deepcopy(cblk), loff, boff)
            if nbk['term']['k'] == 'return':
                if kind == 'try' and 'Result' in cb.locals[0]:
                    nbk['stmts'].append({'lhs': {'l': d2, 'p': []}, 'rv': {'rk': 'discriminant', 'place': {'l': loff, 'p': []}}, 'span': sp})
                    nbk['term'] = {'k': 'switch', 'discr': {'move': {'l': d2, 'p': []}}, 'targets': [[0, H]], 'otherwise': AFTER_ERR, 'span': sp}
                else:
                    nbk['term'] = {'k': 'goto', 'target': H}
            j['blocks'].append(nbk)


def inline_front_end(mir, extra=()):
    """The generating entry may delegate its front-end steps (parse, validate, collect the bind group data) to small sibling helpers
    (`parse_module`, `check_module`, `validate_module`, ..).  Find the function that joins the front end with the emission functions - the one
    function that reaches the WGSL parser and also calls crate functions that do not - and replace its body (in this Mir instance) by the
    version in which those front-end helpers are inlined, so that the path rules see parse -> validate -> group data -> emission in one CFG.
    Returns (name of that function or None, set of inlined helper names)."""
    def calls_of(n):
        return [c['callee'] or c['raw'] for _, c in mir.bodies[n].calls()]
    parse = {n for n in mir.bodies if 'naga::front::wgsl::parse_str' in calls_of(n)}
    valid = {n for n in mir.bodies if 'naga::valid::Validator::validate' in calls_of(n)}
    if not parse:
        return None, set()
    front = mir.callers_closure(parse)
    cg = mir.call_graph()
    # helpers below the joining function: reach the parser / validator, or are called only from front-end functions and return a Result
    cands = []
    for n in sorted(front):
        b = mir.bodies[n]
        if b.kind == 'Closure':
            continue
        others = {c for c in cg.get(n, ()) if c not in front and mir.bodies[c].kind != 'Closure'}
        if len(others) >= 3:
            cands.append((len(mir.reachable_fns([n])), n))
    if not cands:
        return None, set()
    top = sorted(cands)[0][1]          # the innermost function that joins front end and emission
    helpers = set()
    for c in cg.get(top, ()):
        if mir.bodies[c].kind == 'Closure':
            continue
        reach = mir.reachable_fns([c])
        tg = parse | valid | set(extra)
        if c not in set(extra) and (reach & tg) and len(mir.bodies[c].blocks) <= 80:
            helpers |= {h for h in reach if h not in set(extra) and (mir.reachable_fns([h]) & tg) and mir.bodies[h].kind != 'Closure' and len(mir.bodies[h].blocks) <= 80}
    helpers.discard(top)
    if helpers:
        mir.bodies[top] = inlined(mir, top, depth=4, skip=[n for n in mir.bodies if n not in helpers])
        mir._cg = None
    return top, helpers


def inlined(mir, name, depth=2, max_blocks=400, skip=()):
    """a Body for `name` in which the direct calls of non-recursive, non-closure crate functions are replaced by the callee's CFG
    (arguments assigned to the callee's parameter locals, returns assigned to the call's destination)"""
    import copy
    src = mir.bodies[name]
    j = copy.deepcopy(src.j)
    cg = mir.call_graph()
    rec = {n for comp in mir.sccs() if len(comp) > 1 or comp[0] in cg[comp[0]] for n in comp}
    _expand_combinators(mir, j, name, rec, skip)
    _expand_value_combinators(j)
    _expand_closure_loops(mir, j, name)
    for _ in range(depth):
        changed = False
        nblocks0 = len(j['blocks'])
        for b in range(nblocks0):
            t = j['blocks'][b]['term']
            if t['k'] != 'call':
                continue
            callee = t['callee'] or t['raw']
            if (callee not in mir.bodies or mir.dyn_candidates(t)) and t.get('target') is not None and not t.get('devirt'):
                allc = mir.dyn_candidates(t) + ([callee] if callee in mir.bodies else [])
                cands = [c_ for c_ in allc if c_ not in rec and c_ not in skip and c_ != name]
                if cands and len(cands) == len(allc):
                    # dynamic dispatch: any implementation of the crate may run - a switch on an undefined selector over one call per implementation
                    # (an over-approximation: which one runs is decided by the type the receiver was unsized from)
                    sel = len(j['locals'])
                    j['locals'].append('isize')
                    tg = []
                    for k_, c_ in enumerate(cands):
                        t2 = copy.deepcopy(t)
                        t2['callee'] = c_
                        t2['devirt'] = callee
                        tg.append([k_, len(j['blocks'])])
                        j['blocks'].append({'stmts': [], 'term': t2})
                    j['blocks'][b]['term'] = {'k': 'switch', 'discr': {'copy': {'l': sel, 'p': []}}, 'targets': tg[:-1], 'otherwise': tg[-1][1], 'devirt': callee, 'span': t.get('span')}
                    changed = True
                continue
            if callee not in mir.bodies or callee == name or callee in rec or callee in skip:
                continue
            cb = mir.bodies[callee]
            if cb.kind == 'Closure' or len(cb.blocks) > max_blocks or t.get('target') is None:
                continue
            loff, boff = len(j['locals']), len(j['blocks'])
            j['locals'].extend(cb.locals)
            sp = t.get('span')
            pre = []
            for i, a in enumerate(t['args']):
                pre.append({'lhs': {'l': loff + 1 + i, 'p': []}, 'rv': {'rk': 'use', 'ops': [a]}, 'span': sp})
            for cblk in cb.blocks:
                nb = _renumber(cblk, loff, boff)
                if nb['term']['k'] == 'return':
                    nb['stmts'].append({'lhs': t['dest'], 'rv': {'rk': 'use', 'ops': [{'move': {'l': loff, 'p': []}}]}, 'span': sp})
                    nb['term'] = {'k': 'goto', 'target': t['target']}
                j['blocks'].append(nb)
            j['blocks'][b]['stmts'].extend(pre)
            j['blocks'][b]['term'] = {'k': 'goto', 'target': boff, 'inlined': callee}
            changed = True
        if not changed:
            break
    nb = Body(j)
    nb.inlined_from = name
    return nb
