#!/usr/bin/env python3
"""agent_prompt_r17.py <worktree> <PID> <PID> ...  - prompt of a round-8 sub-agent: per property one realistic change of a given *kind*
(feature addition, two cooperating edits, optimisation, robustness 'improvement', API migration) that hides a defect, delivered with its
repaired twin. The agent sees only the property texts and its own scratch worktree."""
import json, sys
wt = sys.argv[1]
pids = sys.argv[2:]
props = {}
for l in open('/verif/properties.jsonl'):
    p = json.loads(l)
    props[p['id']] = p
KINDS = [
    "a REFACTORING in the style 'private extension traits / methods': free functions become methods of a private extension trait implemented for a naga or wgpu type (e.g. `trait TypeExt`, `trait ModuleExt`, `trait EntryPointExt`) or inherent methods of a private struct - with one subtle semantic slip introduced on the way",
    "a REFACTORING in the style 'intermediate representation': a function is split into one that builds a Vec of private records (or a private enum with payload) from the naga module and a second one that renders the records into tokens - with one subtle semantic slip introduced on the way (wrong field copied into the record, a record dropped or duplicated, a condition evaluated on the wrong side of the split ..)",
    "a REFACTORING in the style 'context struct': several parameters (module, options, derived tables) are bundled into a private context struct that is passed around, or a bundle of precomputed identifiers / names is shared by several templates - with one subtle semantic slip introduced on the way",
    "a REFACTORING in the style 'iterator chains and closures': `for` loops become iterator chains (`filter_map`, `flat_map`, `zip`, `unzip`, `try_for_each`, `fold`, `find_map`, `partition` ..) or the other way round, loop bodies move into closures or named helper functions - with one subtle semantic slip introduced on the way",
    "a REFACTORING in the style 'token generation': `quote!` templates are split into named pieces or merged, repeated fragments are produced by helper functions returning `TokenStream` / by `impl ToTokens` for a private type / by a const table of names, identifiers are built with `format_ident!`, literals with `syn::Index` / `LitInt` / `Literal::*_unsuffixed` - with one subtle semantic slip introduced on the way",
]
blocks = []
for i, pid in enumerate(pids):
    p = props[pid]
    blocks.append(f"""--- change {i + 1}: property {p['id']} - {p['title']}
  statement: {p['statement']}
  quantified over: {p['quantifier']['text']}
  kind of change wanted: {KINDS[i % len(KINDS)]}
""")
print(f"""You are working on a scratch git worktree of the open-source Rust project wgsl_to_wgpu (a build-time code generator that parses WGSL shaders with naga and emits Rust wgpu bindings). The worktree is at {wt} (library crate in {wt}/wgsl_to_wgpu, an example crate in {wt}/example). Work ONLY inside {wt}. Never read or write /repo or /verif. The sandbox has no network: always pass --offline to cargo and set CARGO_TARGET_DIR={wt}/target for every cargo command. The existing test suite is `cd {wt} && CARGO_TARGET_DIR={wt}/target cargo test --workspace --no-fail-fast --offline` (53 tests + 3 doctests, they pass now; rustfmt is on PATH and some tests use it).

This is robustness research on the project's verification: I need realistic faulty changes ("seeded defects") that a reviewer and the existing tests would not catch, each together with its CORRECT counterpart, so I can find out whether independent checks tell them apart.

Below are {len(pids)} behavioural guarantees ("properties") of the library that should hold for all inputs. For EACH of them produce ONE change to the library's non-test source code (files under {wt}/wgsl_to_wgpu/src, outside #[cfg(test)] modules; do not edit tests, snapshots or test data), of the kind named for it, in two versions:

  * the DEFECTIVE version (patch.diff): it
    (a) still compiles, and the whole existing test suite still passes unchanged, and
    (b) breaks the named property for some input/configuration, and
    (c) needs something specific to manifest - an unusual input, a particular combination of options, a multi-step situation, a fault at a particular point, or the cooperation of two sites - NOT something ordinary use would expose at once, and
    (d) looks like a change a competent maintainer could realistically make and a reviewer could approve (20 to 150 changed lines is typical; write it in the code base's style), not an obvious sabotage;
  * the CORRECT TWIN (twin.diff): the same change (same feature / optimisation / clean-up, same structure, same helper names) done right, so that the property holds for all inputs; it differs from the defective version only where the defect requires. The existing suite passes with it and so does your demonstration.

{''.join(blocks)}
For each change also write a demonstration: a small Rust integration test file (wgsl_to_wgpu/tests/demo.rs using the crate's public API create_shader_module / create_shader_module_embedded, plus string assertions on the generated text or on the Result; or a timing assertion, or a stub `rustfmt` earlier on PATH, whatever the property needs) that FAILS with the defective version applied and PASSES both on the unchanged tree and with the twin applied. Verify all three directions yourself, and verify that the full existing suite passes with the defective version and with the twin. If the feature you add makes the unchanged tree fail the demonstration for an unrelated reason (e.g. the unchanged tree panics on the new kind of input), restrict the demonstration to inputs the unchanged tree handles, or make the assertion "if the call succeeds then ...".

Deliver, for change i = 1..{len(pids)}, a directory {wt}/out/<i>/ containing:
  - patch.diff   : `git diff` of the DEFECTIVE library source change only (must apply with `git apply` to a clean checkout of this worktree's HEAD; must not contain the demonstration)
  - twin.diff    : `git diff` of the CORRECT twin, likewise against clean HEAD
  - demo.rs      : the demonstration test file (placed as wgsl_to_wgpu/tests/demo.rs) - if it needs helper files, put them next to it and say so
  - notes.md     : first line `property: <id>`; then which clause of the property the defect breaks, what exactly is needed for it to manifest, what the twin does differently, the exact commands you ran, and their observed outcome (unchanged / defective / twin)
When finished, restore the worktree source to a clean state (git checkout -- . ; remove the demo test from the tree; keep only {wt}/out/). Finally reply with a short summary: per change one paragraph (what it alters, why tests miss it, how the demo exposes it, how the twin differs). Keep going until all {len(pids)} are verified in all directions; if one idea turns out to be caught by the existing tests, replace it with another.""")
