#!/usr/bin/env python3
"""agent_prompt_r18.py <worktree> <n> <PID> <PID> ...  - prompt of a round-18 sub-agent: small slips (one to five changed lines) - the round-4 kind, re-sampled after the generalisations of rounds 14-17."""
import json, sys
wt = sys.argv[1]
n = int(sys.argv[2])
pids = sys.argv[3:]
props = {}
for l in open('/verif/properties.jsonl'):
    p = json.loads(l)
    props[p['id']] = p
blocks = []
for pid in pids:
    p = props[pid]
    blocks.append(f"""--- property {p['id']} - {p['title']}
  statement: {p['statement']}
  quantified over: {p['quantifier']['text']}
""")
total = n * len(pids)
print(f"""You are working on a scratch git worktree of the open-source Rust project wgsl_to_wgpu (a build-time code generator that parses WGSL shaders with naga and emits Rust wgpu bindings). The worktree is at {wt} (library crate in {wt}/wgsl_to_wgpu, an example crate in {wt}/example). Work ONLY inside {wt}. Never read or write /repo or /verif. The sandbox has no network: always pass --offline to cargo and set CARGO_TARGET_DIR={wt}/target for every cargo command. The existing test suite is `cd {wt} && CARGO_TARGET_DIR={wt}/target cargo test --workspace --no-fail-fast --offline` (53 tests + 3 doctests, they pass now; rustfmt is on PATH and some tests use it).

This is robustness research on the project's verification: I need realistic faulty changes ("seeded defects") that a reviewer and the existing tests would not catch, so I can find out whether independent checks catch them.

Below are {len(pids)} behavioural guarantees ("properties") of the library that should hold for all inputs:

{''.join(blocks)}
Your task: for EACH property produce {n} DIFFERENT, independent changes to the library's non-test source code (files under {wt}/wgsl_to_wgpu/src, outside #[cfg(test)] modules; do not edit tests, snapshots or test data) - {total} changes in total - such that each change on its own
  (a) still compiles, and the whole existing test suite still passes unchanged, and
  (b) breaks its property for some input/configuration, and
  (c) needs something specific to manifest - an unusual input, a particular combination of options, a multi-step situation, a fault at a particular point, or two cooperating edits that each look fine alone - NOT something ordinary use would expose at once, and
  (e) is SMALL: one to five changed lines, the kind of slip that survives review because the diff is tiny - a wrong field or variable of the same type, two swapped lines or arguments, a flipped / dropped / duplicated test, a copy-pasted table row, an off-by-one, `<` for `<=`, `any` for `all`, `filter` for `take_while`, `min` for `max`, `iter()` for `iter().rev()`, a narrowing or sign-changing cast, `unwrap_or` with the wrong default, a moved statement, a changed string constant that is a key somewhere else, `clone()` of the wrong thing - anywhere in the crate, including helpers, trait impls, constants and the public wrappers, and
  (d) looks like something that could realistically happen (a plausible refactoring, optimisation, feature addition or "bug fix" gone subtly wrong), not an obvious sabotage; vary the kind of change, its size (from a one-line slip to a 100-line rework) and the code location across your changes (different functions / different clauses of the property where possible; prefer clauses and code paths that are rarely exercised).
For each change also write a demonstration: a small Rust integration test file (wgsl_to_wgpu/tests/demo.rs using the crate's public API create_shader_module / create_shader_module_embedded, plus string assertions on the generated text or on the Result; or a timing assertion, or a stub `rustfmt` earlier on PATH, whatever the property needs) that FAILS with the change applied and PASSES on the unchanged tree. Verify both directions yourself, and verify that the full existing suite passes with the change.

Deliver, for change i = 1..{total}, a directory {wt}/out/<i>/ containing:
  - patch.diff   : `git diff` of the library source change only (must apply with `git apply` to a clean checkout of this worktree's HEAD; must not contain the demonstration)
  - demo.rs      : the demonstration test file (placed as wgsl_to_wgpu/tests/demo.rs) - if it needs helper files, put them next to it and say so
  - notes.md     : first line `property: <id>`; then which clause of the property it breaks, what exactly is needed for it to manifest, the exact commands you ran, and their observed outcome with and without the change
When finished, restore the worktree source to a clean state (git checkout -- . ; remove the demo test from the tree; keep only {wt}/out/). Finally reply with a short summary: per change one paragraph (property, what it alters, why tests miss it, how the demo exposes it). Keep going until all {total} are verified; if one idea turns out to be caught by the existing tests, replace it with another.""")
