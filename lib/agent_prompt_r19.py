#!/usr/bin/env python3
"""agent_prompt_r19.py <worktree> <PID> <PID> ...  - prompt of a round-19 sub-agent (indirection through language features: trait objects, tables of functions, std trait impls, builders, generic / higher-order helpers): per property one realistic change of a given *kind*
(feature addition, two cooperating edits, optimisation, robustness 'improvement', API migration) that hides a defect, delivered with its
repaired twin. The agent sees only the property texts and its own scratch worktree."""
import json, sys
wt = sys.argv[1]
pids = sys.argv[2:]
props = {}
for l in open('/verif/properties.jsonl'):
    p = json.loads(l)
    props[p['id']] = p
KINDS = [
    "a REFACTORING in the style 'strategy objects': a private trait with several implementations, one of which is selected at run time and used through `&dyn Trait` / `Box<dyn Trait>` (e.g. one implementation per MatrixVectorTypes value, per shader stage, per resource kind, per error kind), or the same through a generic function with a trait bound - with one subtle semantic slip introduced on the way (one implementation differs slightly from the code it replaces, the wrong implementation is selected in a corner case, a default method is not overridden where it should be ..)",
    "a REFACTORING in the style 'tables': a `match` becomes a `const` / `static` table of rows (tuples or small structs, possibly holding `fn` items or closures) that is searched with `iter().find(..)` / indexed, or a table becomes a `match`; several tables are merged into one - with one subtle semantic slip introduced on the way (a row with a wrong cell, a row missing so that a fallback applies, first-match order changed, the wrong column read ..)",
    "a REFACTORING in the style 'std traits on private types': behaviour moves into implementations of std traits for private types so that it runs inside library code - `impl Iterator for ..` consumed by adapters / `collect`, `impl Ord / PartialOrd / PartialEq / Hash` used by `sort` / `BTreeMap` / `dedup` / `contains`, `impl From / TryFrom / FromIterator / Extend / Default / Display / Deref / Index` - with one subtle semantic slip introduced on the way (an ordering that compares the wrong field first, an `eq` that ignores a field, an iterator that stops one element early or skips, a `Default` that differs from the old initial value ..)",
    "a REFACTORING in the style 'builder / staged construction': a private builder struct with chained setters and a `build()` / `finish()` / `into_tokens()` step, or a value assembled in stages through `Option` / `Result` combinators and helper functions returning `Option` / `Result` with `?` - with one subtle semantic slip introduced on the way (a setter that is not called on one path, a default left in place, a stage applied in the wrong order, an error mapped to the wrong case ..)",
    "a REFACTORING in the style 'generic and higher-order helpers': private generic functions (`fn join<I: IntoIterator<Item = TokenStream>>(..)`), `impl Trait` arguments and return types, functions returning closures (`fn namer(prefix: &str) -> impl Fn(u32) -> Ident`), helpers taking closures (`fn for_each_binding(.., f: impl FnMut(..))`) replace repeated code - with one subtle semantic slip introduced on the way (the helper is right for three of its four callers, a captured value is taken at the wrong time, the closure is applied to the wrong element ..)",
]
blocks = []
for i, pid in enumerate(pids):
    p = props[pid]
    blocks.append(f"""--- change {i + 1}: property {p['id']} - {p['title']}
  statement: {p['statement']}
  quantified over: {p['quantifier']['text']}
  kind of change wanted: {KINDS[i % len(KINDS)]}
""")
print(f"""You are working on a scratch git worktree of the open-source Rust project wgsl_to_wgpu (a build-time code generator that parses WGSL shaders with naga and emits Rust wgpu bindings). The worktree is at {wt} (library crate in {wt}/wgsl_to_wgpu, an example crate in {wt}/example). Work ONLY inside {wt}. Never read or write /repo or /verif. The sandbox has no network: always pass --offline to cargo and set CARGO_TARGET_DIR={wt}/target for every cargo command. The existing test suite is `cd {wt} && CARGO_TARGET_DIR={wt}/target cargo test --workspace --no-fail-fast --offline` (53 tests + 3 doctests, they pass now; rustfmt is on PATH and some tests use it).

This is robustness research on the project's verification: I need realistic faulty changes ("seeded defects") that a reviewer and the existing tests would not catch, each together with its CORRECT counterpart, so I can find out whether independent checks tell them apart.

Below are {len(pids)} behavioural guarantees ("properties") of the library that should hold for all inputs. For EACH of them produce ONE change to the library's non-test source code (files under {wt}/wgsl_to_wgpu/src, outside #[cfg(test)] modules; do not edit tests, snapshots or test data), of the kind named for it, in two versions:

  * the DEFECTIVE version (patch.diff): it
    (a) still compiles, and the whole existing test suite still passes unchanged, and
    (b) breaks the named property for some input/configuration, and
    (c) needs something specific to manifest - an unusual input, a particular combination of options, a multi-step situation, a fault at a particular point, or the cooperation of two sites - NOT something ordinary use would expose at once, and
    (d) looks like a change a competent maintainer could realistically make and a reviewer could approve (20 to 150 changed lines is typical; write it in the code base's style), not an obvious sabotage;
  * the CORRECT TWIN (twin.diff): the same change (same feature / optimisation / clean-up, same structure, same helper names) done right, so that the property holds for all inputs; it differs from the defective version only where the defect requires. The existing suite passes with it and so does your demonstration.

{''.join(blocks)}
For each change also write a demonstration: a small Rust integration test file (wgsl_to_wgpu/tests/demo.rs using the crate's public API create_shader_module / create_shader_module_embedded, plus string assertions on the generated text or on the Result; or a timing assertion, or a stub `rustfmt` earlier on PATH, whatever the property needs) that FAILS with the defective version applied and PASSES both on the unchanged tree and with the twin applied. Verify all three directions yourself, and verify that the full existing suite passes with the defective version and with the twin. If the feature you add makes the unchanged tree fail the demonstration for an unrelated reason (e.g. the unchanged tree panics on the new kind of input), restrict the demonstration to inputs the unchanged tree handles, or make the assertion "if the call succeeds then ...".

Deliver, for change i = 1..{len(pids)}, a directory {wt}/out/<i>/ containing:
  - patch.diff   : `git diff` of the DEFECTIVE library source change only (must apply with `git apply` to a clean checkout of this worktree's HEAD; must not contain the demonstration)
  - twin.diff    : `git diff` of the CORRECT twin, likewise against clean HEAD
  - demo.rs      : the demonstration test file (placed as wgsl_to_wgpu/tests/demo.rs) - if it needs helper files, put them next to it and say so
  - notes.md     : first line `property: <id>`; then which clause of the property the defect breaks, what exactly is needed for it to manifest, what the twin does differently, the exact commands you ran, and their observed outcome (unchanged / defective / twin)
When finished, restore the worktree source to a clean state (git checkout -- . ; remove the demo test from the tree; keep only {wt}/out/). Finally reply with a short summary: per change one paragraph (what it alters, why tests miss it, how the demo exposes it, how the twin differs). Keep going until all {len(pids)} are verified in all directions; if one idea turns out to be caught by the existing tests, replace it with another.""")
