#!/usr/bin/env python3
"""./check selftest [ids...]  - replay the checker's own acceptance corpus (selftest/corpus.json) and the seeded changes
(seeded/*/patch.diff) against scratch copies of /repo: every mutant must be reported by the check of its property (or one of
the listed ones), every benign edit must leave all checks silent.  Never affects a verdict on /repo."""
import json, os, shutil, subprocess, sys, tempfile
HERE = os.path.dirname(os.path.dirname(os.path.abspath(__file__)))


def built():
    m = json.load(open(os.path.join(HERE, 'MANIFEST.json')))
    return [c['property_id'] for c in m['checks']]


def scratch():
    tmp = tempfile.mkdtemp(prefix='vselftest-')
    subprocess.check_call(['rsync', '-a', '--exclude', 'target', '--exclude', '.git', '/repo/', tmp + '/repo/'])
    return tmp


def run_checks(tmp, pids):
    env = dict(os.environ, VERIF_REPO=tmp + '/repo', VERIF_EVID=tmp + '/ev')
    res = {}
    for pid in pids:
        p = subprocess.run([os.path.join(HERE, 'check'), pid], env=env, stdout=subprocess.PIPE, stderr=subprocess.STDOUT, text=True)
        keys = [l.split('key=', 1)[1].strip() for l in p.stdout.splitlines() if 'key=' in l and l.startswith('[')]
        res[pid] = (p.returncode, keys)
    return res


def summary_for(pid):
    """thorough tier: replay the corpus mutants / benign edits and the seeded changes that concern property `pid` against scratch copies
    and summarise (never affects the verdict on /repo; VERIF_SELFTEST=0 skips it)"""
    if os.environ.get('VERIF_SELFTEST') == '0' or os.environ.get('VERIF_REPO'):
        return {'skipped': True}
    env = dict(os.environ)
    env.pop('VERIF_TIER', None)
    env.setdefault('SELFTEST_JOBS', str(max(1, min(8, (os.cpu_count() or 2) // 2))))
    p = subprocess.run([os.path.join(HERE, 'check'), 'selftest', pid], env=env, stdout=subprocess.PIPE, stderr=subprocess.STDOUT, text=True)
    rows = [l for l in p.stdout.splitlines() if ' mutant ' in l or ' benign ' in l or ' seeded ' in l]
    return {'entries': len(rows), 'detected': sum('DETECTED' in r for r in rows), 'missed': [r.split()[0] for r in rows if 'MISSED' in r],
            'false_alarms': [r.split()[0] for r in rows if 'FALSE ALARM' in r], 'silent_benign': sum(' silent' in r for r in rows), 'rows': rows[:60]}


def _corpus_entry(e, have):
    tmp = scratch()
    try:
        path = os.path.join(tmp, 'repo', 'wgsl_to_wgpu', 'src', e['file'])
        src = open(path).read()
        for ed in e['edits']:
            if ed['find'] not in src:
                return (e['id'], e['kind'], 'SKIP (edit does not apply to the current tree)'), True
            src = src.replace(ed['find'], ed['replace'])
        open(path, 'w').write(src)
        if e['kind'] == 'mutant':
            pids = [p for p in [e['property']] + e.get('also', []) if p in have]
            if not pids:
                return (e['id'], e['kind'], f"SKIP (check {e['property']} not built)"), True
            res = run_checks(tmp, have if os.environ.get('SELFTEST_ALL') else pids)
            hit = {p: r for p, r in res.items() if r[0] != 0}
            good = any(p in hit for p in pids)
            return (e['id'], e['kind'], ('DETECTED by ' + ', '.join(f'{p}:{r[1][:2]}' for p, r in hit.items())) if good else 'MISSED'), good
        res = run_checks(tmp, have)
        hit = {p: r for p, r in res.items() if r[0] != 0}
        return (e['id'], e['kind'], 'silent' if not hit else 'FALSE ALARM ' + ', '.join(f'{p}:{r[1][:2]}' for p, r in hit.items())), not hit
    finally:
        shutil.rmtree(tmp, ignore_errors=True)


def _seeded_entry(d, have):
    sdir = os.path.join(HERE, 'seeded')
    meta = json.load(open(os.path.join(sdir, d, 'meta.json')))
    tmp = scratch()
    try:
        # strict application (no fuzz): a seed written before a later fix: commit must not be half-applied onto the fixed code
        r = subprocess.run(['git', 'apply', '--whitespace=nowarn', os.path.join(sdir, d, 'patch.diff')], cwd=tmp + '/repo', stdout=subprocess.DEVNULL, stderr=subprocess.DEVNULL)
        baseline = {}
        if r.returncode != 0:
            # the seed predates a later fix: commit in /repo: replay it on the commit it was written for and report only what the
            # patch adds over that base
            base = meta.get('confirmed', {}).get('base_commit')
            shutil.rmtree(tmp + '/repo', ignore_errors=True)
            os.makedirs(tmp + '/repo')
            a = subprocess.run(f'git -C /repo archive {base} | tar -x -C {tmp}/repo', shell=True)
            if not base or a.returncode != 0:
                return (d, 'seeded', 'SKIP (patch does not apply)'), True
            baseline = {p: set(r_[1]) for p, r_ in run_checks(tmp, have).items()}
            r = subprocess.run(['patch', '-p1', '-s', '-i', os.path.join(sdir, d, 'patch.diff')], cwd=tmp + '/repo')
            if r.returncode != 0:
                return (d, 'seeded', 'SKIP (patch does not apply to its own base)'), True
        res = run_checks(tmp, have)
        hit = {p: (r_[0], [k for k in r_[1] if k not in baseline.get(p, set())]) for p, r_ in res.items() if r_[0] != 0}
        hit = {p: r_ for p, r_ in hit.items() if r_[1] or not baseline}
        if os.environ.get('SELFTEST_RECORD'):
            meta['detected_by'] = {p: r[1][:4] for p, r in hit.items()}
            json.dump(meta, open(os.path.join(sdir, d, 'meta.json'), 'w'), indent=1)
        return (d, 'seeded', ('DETECTED by ' + ', '.join(f'{p}:{r[1][:2]}' for p, r in hit.items())) if hit else 'MISSED'), bool(hit)
    finally:
        shutil.rmtree(tmp, ignore_errors=True)


def _benign_entry(bdir, fn, name, have):
    tmp = scratch()
    try:
        r = subprocess.run(['patch', '-p1', '-s', '-i', os.path.join(bdir, fn)], cwd=tmp + '/repo', stdout=subprocess.DEVNULL, stderr=subprocess.DEVNULL)
        if r.returncode != 0:
            return (name, 'benign', 'SKIP (patch does not apply)'), True
        res = run_checks(tmp, have)
        hit = {p: r_ for p, r_ in res.items() if r_[0] != 0}
        return (name, 'benign', 'silent' if not hit else 'FALSE ALARM ' + ', '.join(f'{p}:{r_[1][:2]}' for p, r_ in hit.items())), not hit
    finally:
        shutil.rmtree(tmp, ignore_errors=True)


def _probe_entry(pdir, fn, have):
    """hand-made defective variant kept as a complete diff against /repo (selftest/probes/<PID>-<name>.diff): the check of <PID> must report it"""
    name = 'probe-' + fn[:-5]
    pid = fn.split('-')[0]
    tmp = scratch()
    try:
        r = subprocess.run(['patch', '-p1', '-s', '-i', os.path.join(pdir, fn)], cwd=tmp + '/repo', stdout=subprocess.DEVNULL, stderr=subprocess.DEVNULL)
        if r.returncode != 0:
            return (name, 'mutant', 'SKIP (patch does not apply)'), True
        res = run_checks(tmp, have if os.environ.get('SELFTEST_ALL') else [pid])
        hit = {p: r_ for p, r_ in res.items() if r_[0] != 0}
        good = pid in hit
        return (name, 'mutant', ('DETECTED by ' + ', '.join(f'{p}:{r_[1][:2]}' for p, r_ in hit.items())) if good else 'MISSED'), good
    finally:
        shutil.rmtree(tmp, ignore_errors=True)


def main(args):
    """SELFTEST_JOBS=<n> replays n entries concurrently (each on its own scratch copy; the engines' caches are keyed by tree hash)."""
    from concurrent.futures import ThreadPoolExecutor
    have = built()
    only = set(a for a in args if not a.startswith('-'))
    corpus = json.load(open(os.path.join(HERE, 'selftest', 'corpus.json')))['entries']
    tasks = []
    for e in corpus:
        if only and e['id'] not in only and e['property'] not in only:
            continue
        tasks.append((_corpus_entry, (e, have)))
    sdir = os.path.join(HERE, 'seeded')
    for d in sorted(os.listdir(sdir)) if os.path.isdir(sdir) else []:
        pid = d.split('-')[0]
        if only and d not in only and pid not in only:
            continue
        if not os.path.exists(os.path.join(sdir, d, 'meta.json')):
            continue
        tasks.append((_seeded_entry, (d, have)))
    pdir = os.path.join(HERE, 'selftest', 'probes')
    for fn in sorted(os.listdir(pdir)) if os.path.isdir(pdir) else []:
        if fn.endswith('.diff') and (not only or fn[:-5] in only or fn.split('-')[0] in only or 'probes' in only):
            tasks.append((_probe_entry, (pdir, fn, have)))
    bdir = os.path.join(HERE, 'selftest', 'benign')
    tdir = os.path.join(HERE, 'selftest', 'twins')
    # twins: the refactoring part of a refactoring-plus-defect seed with the defect repaired by hand (behaviour-preserving); the ones listed in
    # twins/LIMITS.json are algorithm redesigns that the structural rules report as undecided (documented limit, DESIGN.md 7.6)
    limits = json.load(open(os.path.join(tdir, 'LIMITS.json'))) if os.path.exists(os.path.join(tdir, 'LIMITS.json')) else {}
    blimits = json.load(open(os.path.join(bdir, 'LIMITS.json'))) if os.path.exists(os.path.join(bdir, 'LIMITS.json')) else {}
    entries = [(bdir, fn, 'benign-' + fn[:-5]) for fn in (sorted(os.listdir(bdir)) if os.path.isdir(bdir) else []) if fn.endswith('.diff')]
    entries += [(tdir, fn, 'twin-' + fn[:-5]) for fn in (sorted(os.listdir(tdir)) if os.path.isdir(tdir) else []) if fn.endswith('.diff')]
    for bd, fn, name in entries:
        if only and name not in only and 'benign' not in only and name.split('-')[1] not in only:
            continue
        lim = limits.get(fn[:-5]) if name.startswith('twin-') else blimits.get(fn[:-5])
        if lim and not os.environ.get('SELFTEST_LIMITS'):
            tasks.append((lambda n, l: ((n, 'benign', 'LIMIT (undecided by design: ' + l + ')'), True), (name, lim)))
            continue
        tasks.append((_benign_entry, (bd, fn, name, have)))
    jobs = max(1, int(os.environ.get('SELFTEST_JOBS', '1') or 1))
    with ThreadPoolExecutor(max_workers=jobs) as ex:
        outs = list(ex.map(lambda t: t[0](*t[1]), tasks))
    results = [o[0] for o in outs]
    ok_all = all(o[1] for o in outs)
    for r in results:
        print('%-40s %-8s %s' % r)
    # last_run.json accumulates: a partial replay updates its own rows and keeps the others
    lr = os.path.join(HERE, 'selftest', 'last_run.json')
    try:
        old = {x['id']: x for x in json.load(open(lr))}
    except Exception:
        old = {}
    for a, b, c in results:
        old[a] = {'id': a, 'kind': b, 'result': c}
    json.dump(sorted(old.values(), key=lambda x: (x['kind'], x['id'])), open(lr, 'w'), indent=1)
    return 0 if ok_all else 1


if __name__ == '__main__':
    sys.exit(main(sys.argv[1:]))
