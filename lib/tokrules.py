"""order- and name-insensitive comparison of fixed output fragments (struct expressions, forwarding bodies) so that a behaviour-
preserving edit of a template (reordered struct fields, renamed local variable / parameter) does not trip a rule"""
import re
from conc import parse_expr_text


def balanced(tokens, start, open_='{', close='}'):
    depth = 0
    for i in range(start, len(tokens)):
        if tokens[i] == open_:
            depth += 1
        elif tokens[i] == close:
            depth -= 1
            if depth == 0:
                return i
    return None


def find_struct_expr(text, head):
    """first occurrence of `<head> { ... }` in token text, parsed to (name, {field: value}) with nested values; None if absent/unparsable"""
    toks = text.split()
    h = head.split()
    for i in range(len(toks) - len(h)):
        if toks[i:i + len(h)] == h and toks[i + len(h)] == '{':
            end = balanced(toks, i + len(h))
            if end is None:
                return None
            frag = ' '.join(toks[i:end + 1])
            try:
                return parse_expr_text(frag)
            except Exception:
                return None
    return None


def flat(e):
    """canonical nested representation without ordering: (name, frozenset of (field, flat(value)))"""
    n, f = e
    if f is None:
        return n
    return (n, frozenset((k, flat(v)) for k, v in f.items()))


def same_struct(text, head, expected):
    got = find_struct_expr(text, head)
    return got is not None and flat(got) == flat(expected), got


def E_(name, **fields):
    return (name, {k: (v if isinstance(v, tuple) else (v, None)) for k, v in fields.items()} if fields else None)
