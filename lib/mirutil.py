"""helpers over Engine B bodies shared by the path rules (C11, C17, C19, C09-taint)"""
from engine_mir import op_local, op_place
from rules.c20 import canon, pstr  # noqa: F401


def cname(t):
    return t['callee'] or t['raw']


def method(c):
    return c.rsplit('::', 1)[-1]


TRANSPARENT = ('branch', 'ok', 'err', 'map_err', 'map', 'as_ref', 'as_mut', 'as_deref', 'is_ok', 'is_err', 'is_some',
               'is_none', 'not', 'copied', 'cloned', 'clone', 'deref', 'unwrap_or_default', 'and_then', 'into', 'from',
               'eq', 'ne', 'success', 'is_empty', 'len', 'code', 'borrow', 'contains', 'ok_or', 'ok_or_else')


def chain_of(body, local, limit=24):
    """follow the definition chain of a (boolean / discriminant) local backwards through negations, copies,
    discriminant reads and 'transparent' single-input calls.  Returns (neg, calls[list of terminators, nearest first],
    places[list of canon roots read])"""
    neg = False
    calls, places = [], []
    cur = local
    seen = set()
    while cur is not None and limit > 0 and cur not in seen:
        seen.add(cur)
        limit -= 1
        ds = body.defs().get(cur, [])
        ds = [d for d in ds if d[1] == 'call' or not d[2]['lhs']['p']]
        if 2 <= len(ds) <= 4 and limit > 4:
            # a value assigned on several paths (`let r = match .. { A => call(..), B => Err(..) }`): the chain is the union of the chains of
            # the alternatives (a branch on it is a branch on the outcome of whichever call produced it)
            for b_, kind_, x_ in ds:
                if kind_ == 'call':
                    calls.append(x_)
                    for a in x_['args']:
                        if op_local(a) is not None:
                            places.append(canon(body, op_place(a)))
                            if method(cname(x_)) in TRANSPARENT or cname(x_).endswith('::branch'):
                                n2, c2, p2 = chain_of(body, op_local(a), limit // 2)
                                calls.extend(c for c in c2 if not any(c is y for y in calls))
                                places.extend(p2)
                            break
                else:
                    for p_ in body.rvalue_places(x_['rv']):
                        places.append(canon(body, p_))
                        if (x_['rv']['rk'] in ('use', 'ref', 'discriminant', 'cast') or
                                (x_['rv']['rk'] == 'aggregate' and x_['rv']['agg'].endswith(('Option::Some', 'Result::Ok')) and
                                 body.locals[p_['l']].startswith(('std::result::Result<', 'std::option::Option<')))) and p_['l'] not in seen:
                            n2, c2, p2 = chain_of(body, p_['l'], limit // 2)
                            calls.extend(c for c in c2 if not any(c is y for y in calls))
                            places.extend(p2)
            break
        if len(ds) != 1:
            break
        b, kind, x = ds[0]
        if kind == 'call':
            calls.append(x)
            nxt = None
            for a in x['args']:
                if op_local(a) is not None:
                    nxt = op_local(a)
                    places.append(canon(body, op_place(a)))
                    break
            if method(cname(x)) in TRANSPARENT or cname(x).endswith('::branch'):
                cur = nxt
                continue
            break
        rv = x['rv']
        if rv['rk'] == 'unop' and rv.get('op') == 'Not':
            neg = not neg
            cur = op_local(rv['ops'][0])
        elif rv['rk'] == 'use' and op_place(rv['ops'][0]):
            places.append(canon(body, op_place(rv['ops'][0])))
            cur = op_local(rv['ops'][0])
        elif rv['rk'] == 'discriminant':
            places.append(canon(body, rv['place']))
            cur = rv['place']['l']
        elif rv['rk'] == 'ref':
            places.append(canon(body, rv['place']))
            cur = rv['place']['l']
        elif rv['rk'] == 'binop':
            places.extend(canon(body, op_place(o)) for o in rv['ops'] if op_place(o))
            nxt = [op_local(o) for o in rv['ops'] if op_local(o) is not None]
            cur = nxt[0] if nxt else None
        elif rv['rk'] == 'cast' and op_place(rv['ops'][0]):
            cur = op_local(rv['ops'][0])
        elif rv['rk'] == 'aggregate' and rv['agg'].endswith(('Option::Some', 'Result::Ok')) and len(rv.get('ops', [])) == 1 and op_place(rv['ops'][0]) and \
                body.locals[op_local(rv['ops'][0])].startswith(('std::result::Result<', 'std::option::Option<')):
            # an outcome wrapped by a helper (`Some(stdin.write_all(..))`: Option<io::Result<()>>) and unwrapped again by the caller's `?`: the same
            # outcome (a payload that is not itself an outcome - `Ok(module)` - ends the chain)
            places.append(canon(body, op_place(rv['ops'][0])))
            cur = op_local(rv['ops'][0])
        else:
            break
    return neg, calls, places


def variant_defs(body, local):
    """if `local` is assigned only Result / Option variants (aggregates, or the residual of a `?`: None / Err), return
    {variant name: block} for the variants that are constructed in exactly one block; None when some definition is of another kind"""
    blocks = {}
    for b, kind, x in body.defs().get(local, []):
        if kind == 'call':
            c = cname(x)
            if 'FromResidual' in c and c.endswith('::from_residual'):
                v = 'None' if 'Option' in c else 'Err'
                blocks.setdefault(v, []).append(b)
                continue
            # the result of some other call (variant not known statically): allowed next to known constructions, never mapped
            blocks.setdefault('?', []).append(b)
            continue
        if kind != 'assign' or x['lhs']['p'] or x['rv']['rk'] != 'aggregate':
            return None
        agg = x['rv']['agg']
        for v in ('Result::Ok', 'Result::Err', 'Option::Some', 'Option::None'):
            if agg.endswith(v):
                blocks.setdefault(v.split('::')[1], []).append(b)
                break
        else:
            return None
    if len(blocks) < 2 or not (set(blocks) - {'?'}):
        return None
    return {v: bs[0] for v, bs in blocks.items() if len(bs) == 1 and v != '?'}


def variant_def_blocks(body, local):
    """like variant_defs, but every variant maps to the set of blocks that construct it (None when some definition is of another kind and no
    variant is known)"""
    blocks = {}
    for b, kind, x in body.defs().get(local, []):
        if kind == 'call':
            c = cname(x)
            if 'FromResidual' in c and c.endswith('::from_residual'):
                blocks.setdefault('None' if 'Option' in c else 'Err', set()).add(b)
            else:
                blocks.setdefault('?', set()).add(b)
            continue
        if kind != 'assign' or x['lhs']['p'] or x['rv']['rk'] != 'aggregate':
            return None
        agg = x['rv']['agg']
        for v in ('Result::Ok', 'Result::Err', 'Option::Some', 'Option::None'):
            if agg.endswith(v):
                blocks.setdefault(v.split('::')[1], set()).add(b)
                break
        else:
            return None
    if len(blocks) < 2 or not (set(blocks) - {'?'}):
        return None
    return blocks


def correlated_origins_multi(body, g):
    """{switch value: set of blocks constructing the variant that takes that edge, '?': blocks whose variant is unknown}"""
    t = body.blocks[g]['term']
    cur = op_local(t['discr'])
    via_branch = None
    for _ in range(10):
        if cur is None:
            return None
        vd = variant_def_blocks(body, cur)
        if vd:
            if via_branch == 'result' or via_branch is None and ('Ok' in vd or 'Err' in vd):
                m = {0: vd.get('Ok'), 1: vd.get('Err')}
            elif via_branch == 'option':
                m = {0: vd.get('Some'), 1: vd.get('None')}
            else:
                m = {0: vd.get('None'), 1: vd.get('Some')}
            m = {k: v for k, v in m.items() if v}
            if vd.get('?'):
                m['?'] = vd['?']
            return m
        ds = [d for d in body.defs().get(cur, []) if d[1] == 'call' or not d[2]['lhs']['p']]
        if len(ds) != 1:
            return None
        b, kind, x = ds[0]
        if kind == 'call':
            c = cname(x)
            if c.endswith('::branch'):
                via_branch = 'result' if 'Result' in c else 'option'
                cur = op_local(x['args'][0])
                continue
            if c == 'std::result::Result::<T, E>::ok' and via_branch == 'option':
                via_branch = 'result'
                cur = op_local(x['args'][0])
                continue
            return None
        rv = x['rv']
        ps = body.rvalue_places(rv)
        if rv['rk'] in ('use', 'discriminant', 'ref') and ps:
            cur = ps[0]['l']
        else:
            return None
    return None


def correlated_origin(body, g):
    """for a switch block g whose discriminant is (the Try::branch / discriminant of) a local assigned constant Result/Option variants in
    several blocks: {switch value: defining block}; None otherwise"""
    t = body.blocks[g]['term']
    cur = op_local(t['discr'])
    via_branch = None
    for _ in range(10):
        if cur is None:
            return None
        vd = variant_defs(body, cur)
        if vd:
            m = {}
            if via_branch == 'result' or via_branch is None and ('Ok' in vd or 'Err' in vd):
                m = {0: vd.get('Ok'), 1: vd.get('Err')}
            elif via_branch == 'option':
                m = {0: vd.get('Some'), 1: vd.get('None')}
            else:
                m = {0: vd.get('None'), 1: vd.get('Some')}
            return {k: v for k, v in m.items() if v is not None}
        ds = [d for d in body.defs().get(cur, []) if d[1] == 'call' or not d[2]['lhs']['p']]
        if len(ds) != 1:
            return None
        b, kind, x = ds[0]
        if kind == 'call':
            c = cname(x)
            if c.endswith('::branch'):
                via_branch = 'result' if 'Result' in c else 'option'
                cur = op_local(x['args'][0])
                continue
            if c == 'std::result::Result::<T, E>::ok' and via_branch == 'option':
                # `res.ok()?`: Some <-> Ok, None <-> Err
                via_branch = 'result'
                cur = op_local(x['args'][0])
                continue
            return None
        rv = x['rv']
        ps = body.rvalue_places(rv)
        if rv['rk'] in ('use', 'discriminant', 'ref') and ps:
            cur = ps[0]['l']
        else:
            return None
    return None


def feasible_reach(body, starts, avoid=()):
    """blocks reachable from `starts` without entering `avoid`, discarding paths that are infeasible because of correlated branches: after a
    helper was inlined, `helper(..)?` is a switch on a value whose variant was fixed by the block that built it (Ok(..) here, a `?`
    residual there) - a path whose latest construction of that value was an Err cannot leave the switch on the Ok edge"""
    origins = {}
    for g in range(body.n):
        if body.blocks[g]['term']['k'] == 'switch':
            o = correlated_origins_multi(body, g)
            if o:
                origins[g] = o
    # for every switch: block -> variant value constructed there ('?' = unknown variant)
    built = {g: {b: v for v, bs in o.items() for b in bs} for g, o in origins.items()}
    succ = body.succ()
    avoid = set(avoid)
    seen = set()
    out = set()

    def note(state, n):
        st = dict(state)
        for g, bm in built.items():
            if n in bm:
                st[g] = bm[n]
        return frozenset(st.items())
    st = [(b, note(frozenset(), b)) for b in starts]
    while st:
        b, state = st.pop()
        if (b, state) in seen or b in avoid:
            continue
        seen.add((b, state))
        out.add(b)
        nxt = list(succ[b])
        if b in origins:
            known = dict(state).get(b)
            if known is not None and known != '?':
                t = body.blocks[b]['term']
                explicit = {val: tgt for val, tgt in t['targets']}
                nxt = [explicit[known]] if known in explicit else [t['otherwise']]
        for n in nxt:
            st.append((n, note(state, n)))
    return out


def guards(body, bb, _depth=0):
    out = _guards(body, bb)
    if _depth < 2:
        # correlated branches: a `?` / match on a Result or Option value that was built as a constant variant in different blocks
        for g in sorted(body.dominators()[bb]):
            if g == bb or body.blocks[g]['term']['k'] != 'switch':
                continue
            origin = correlated_origin(body, g)
            if not origin:
                continue
            t = body.blocks[g]['term']
            edges = [(v, tgt) for v, tgt in t['targets']] + [(None, t['otherwise'])]
            live = [(v, tgt) for v, tgt in edges if body.blocks[tgt]['term']['k'] != 'unreachable']
            reaching = [v for v, tgt in live if bb in body.reachable_from([tgt], avoid={g})]
            if reaching == [None]:
                # reached through `otherwise`: on a two-variant discriminant that is the one value without an explicit target
                explicit = {v for v, _ in t['targets']}
                cand = [k for k in origin if k not in explicit]
                if len(cand) == 1 and len(explicit) == 1:
                    reaching = cand
            if len(reaching) == 1 and reaching[0] in origin:
                for x in guards(body, origin[reaching[0]], _depth + 1):
                    if not any(x['block'] == y['block'] for y in out):
                        out.append(x)
    return out


def _guards(body, bb):
    """switches that dominate bb and decide whether it runs: list of dict(block, neg, calls, places, values) where values
    is the list of switch values (None = otherwise) whose edge can reach bb without re-passing the switch"""
    out = []
    for g in sorted(body.dominators()[bb]):
        if g == bb:
            continue
        t = body.blocks[g]['term']
        if t['k'] != 'switch':
            continue
        edges = [(v, tgt) for v, tgt in t['targets']] + [(None, t['otherwise'])]
        vals = [v for v, tgt in edges if bb in body.reachable_from([tgt], avoid={g})]
        if len(vals) == len(edges):
            # 'otherwise' leading to unreachable does not count as an edge
            live = [(v, tgt) for v, tgt in edges if body.blocks[tgt]['term']['k'] != 'unreachable']
            if len([v for v, tgt in live if bb in body.reachable_from([tgt], avoid={g})]) == len(live):
                continue
        dl = op_local(t['discr'])
        dplace = op_place(t['discr'])
        neg, calls, places = chain_of(body, dl) if dl is not None else (False, [], [])
        if dplace:
            places = [canon(body, dplace)] + places
        out.append({'block': g, 'neg': neg, 'calls': calls, 'places': places, 'values': vals})
    return out


def truthy_only(g):
    """the guarded block is reached only when the (boolean) source of the guard is true"""
    vals = [(v is None or v != 0) for v in g['values']]
    if g['neg']:
        vals = [not v for v in vals]
    return bool(vals) and all(vals)


def falsy_only(g):
    vals = [(v is None or v != 0) for v in g['values']]
    if g['neg']:
        vals = [not v for v in vals]
    return bool(vals) and not any(vals)


# ---- panic-capable callees (resolved paths) -------------------------------------------------------------------------
PANIC_EXACT_METHODS = {
    'std::option::Option::<T>::unwrap', 'std::option::Option::<T>::expect',
    'std::result::Result::<T, E>::unwrap', 'std::result::Result::<T, E>::expect',
    'std::result::Result::<T, E>::unwrap_err', 'std::result::Result::<T, E>::expect_err',
}
PANIC_PREFIX = ('core::panicking::', 'std::rt::begin_panic', 'std::rt::panic', 'core::option::unwrap_failed',
                'core::option::expect_failed', 'core::result::unwrap_failed', 'std::process::exit', 'std::process::abort',
                'core::slice::index::', 'core::str::slice_error_fail', 'std::cell::RefCell::<T>::borrow',
                'core::cell::RefCell::<T>::borrow', 'std::panic::', 'core::panic::')
PANIC_METHODS_ON = {
    'std::vec::Vec::<T, A>::': ('remove', 'swap_remove', 'insert', 'split_off', 'drain', 'truncate_front'),
    'std::string::String::': ('remove', 'insert', 'insert_str', 'split_off', 'truncate', 'drain', 'replace_range'),
    'core::slice::<impl [T]>::': ('split_at', 'split_at_mut', 'copy_from_slice', 'clone_from_slice', 'swap', 'chunks',
                                  'chunks_exact', 'windows', 'rotate_left', 'rotate_right', 'copy_within'),
    'core::str::<impl str>::': ('split_at', 'split_at_mut'),
}


def panic_capable(t):
    """classification of a call terminator; returns a short reason or None"""
    c = cname(t)
    if c in PANIC_EXACT_METHODS:
        return f'{method(c)}() panics on the failure value'
    if c.startswith(PANIC_PREFIX):
        return 'explicit panic'
    if ('std::ops::Index<' in c or 'std::ops::IndexMut<' in c) and method(c) in ('index', 'index_mut'):
        return 'indexing/slicing panics when out of range (or off a char boundary)'
    for pre, ms in PANIC_METHODS_ON.items():
        if c.startswith(pre) and method(c) in ms:
            return f'{method(c)}() panics on an out-of-range argument'
    return None


ARENA_INDEX_OK = ('<naga::Arena<T> as std::ops::Index<naga::Handle<T>>>::index',
                  '<naga::UniqueArena<T> as std::ops::Index<naga::Handle<T>>>::index',
                  '<naga::proc::Layouter as std::ops::Index<naga::Handle<naga::Type>>>::index')


def panic_sites(body, allow_arena=True):
    """(bb, reason, text) for every panic-capable construct in a body"""
    out = []
    for bb, t in body.calls():
        r = panic_capable(t)
        if r is None:
            continue
        if allow_arena and cname(t) in ARENA_INDEX_OK:
            continue
        out.append((bb, r, cname(t)))
    for bb, blk in enumerate(body.blocks):
        t = blk['term']
        if t['k'] == 'assert':
            out.append((bb, 'checked operation panics in builds with overflow/bounds checks', 'assert ' + t['msg'][:60]))
    return out


# ---- forward flow ----------------------------------------------------------------------------------------------------
def forward_taint(body, start_locals, through=lambda t: True):
    """locals that (transitively) receive data from start_locals via assignments and via calls accepted by `through`;
    returns (tainted locals, list of (bb, terminator) calls that consume a tainted local)"""
    tainted = set(start_locals)
    consumers = []
    changed = True
    while changed:
        changed = False
        for b, blk in enumerate(body.blocks):
            for st in blk['stmts']:
                ps = body.rvalue_places(st['rv'])
                if any(p['l'] in tainted for p in ps) and st['lhs']['l'] not in tainted:
                    tainted.add(st['lhs']['l'])
                    changed = True
            t = blk['term']
            if t['k'] == 'call' and any(op_local(a) in tainted for a in t['args']):
                if (b, id(t)) not in {(x, id(y)) for x, y in consumers}:
                    consumers.append((b, t))
                if through(t) and t['dest']['l'] not in tainted:
                    tainted.add(t['dest']['l'])
                    changed = True
    return tainted, consumers


def reads_field(body, adt_sub, field):
    """(bb, span) of every place in the body that projects field `field` of an ADT whose path contains adt_sub"""
    out = []

    def scan(p, b, sp):
        for e in p['p']:
            if isinstance(e, dict) and e.get('f') == field and adt_sub in e.get('adt', ''):
                out.append((b, sp))
    for b, blk in enumerate(body.blocks):
        for st in blk['stmts']:
            for p in body.rvalue_places(st['rv']):
                scan(p, b, st['span'])
            scan(st['lhs'], b, st['span'])
        t = blk['term']
        if t['k'] == 'call':
            for a in t['args']:
                if op_place(a):
                    scan(op_place(a), b, t['span'])
        elif t['k'] == 'switch' and op_place(t['discr']):
            scan(op_place(t['discr']), b, t.get('span'))
    return out


# ---- interprocedural origin of option values ------------------------------------------------------------------------------------
def place_reads_field(place, adt_sub, field):
    return any(isinstance(e, dict) and e.get('f') == field and adt_sub in e.get('adt', '') for e in place['p'])


def local_from_field(mir, body, local, adt_sub, field, depth=0, seen=None):
    """does the value in `local` derive (through copies, refs, as_ref-like calls and parameter passing from crate callers) from a read of
    field `field` of an ADT whose path contains `adt_sub` (e.g. WriteOptions.rustfmt)?"""
    if seen is None:
        seen = set()
    key = (body.name, local)
    if key in seen or depth > 4:
        return False
    seen.add(key)
    sl, calls, stmts = body.backward_slice([local], through_calls=True)
    for _, st in stmts:
        for p in body.rvalue_places(st['rv']):
            if place_reads_field(p, adt_sub, field):
                return True
    for _, c in calls:
        for a in c['args']:
            if op_place(a) and place_reads_field(op_place(a), adt_sub, field):
                return True
    # parameters: look at the call sites in the crate
    params = [l for l in sl if 1 <= l <= body.arg_count]
    for pl in params:
        sites = [(cb, t) for cb in mir.bodies.values() for _, t in cb.calls() if cname(t) == body.name]
        if not sites:
            continue
        ok_all = True
        for cb, t in sites:
            a = t['args'][pl - 1] if pl - 1 < len(t['args']) else None
            if a is None:
                ok_all = False
                break
            if op_place(a) and place_reads_field(op_place(a), adt_sub, field):
                continue
            al = op_local(a)
            if al is None or not local_from_field(mir, cb, al, adt_sub, field, depth + 1, seen):
                ok_all = False
                break
        if ok_all:
            return True
    return False


def local_is_field_value(mir, body, local, adt_sub, field, depth=0, seen=None):
    """the value in `local` IS (a copy / reference / discriminant / as_ref-style view of) field `field` of the ADT - not merely something
    computed from it; parameters are resolved through all crate call sites"""
    if seen is None:
        seen = set()
    key = (body.name, local)
    if key in seen or depth > 4:
        return False
    seen.add(key)
    neg, calls, places = chain_of(body, local)
    # places are canon roots (local, projection string)
    for r in places:
        if r and ('.' + field) in r[1] and any(adt_sub in ty for ty in [body.locals[r[0]]]):
            return True
    # direct place reads along the chain
    cur = local
    hops = 0
    while cur is not None and hops < 12:
        hops += 1
        ds = [d for d in body.defs().get(cur, []) if d[1] == 'call' or not d[2]['lhs']['p']]
        if len(ds) != 1:
            break
        b, kind, x = ds[0]
        if kind == 'call':
            cal = mir.bodies.get(cname(x)) if mir is not None else None
            if cal is not None and cal.kind != 'Closure':
                # a crate helper whose return value is that field's value (an accessor): `fn requested(options) -> Option<..> { options.validate.map(..) }`
                return local_is_field_value(mir, cal, 0, adt_sub, field, depth + 1, seen)
            if not (method(cname(x)) in TRANSPARENT or cname(x).endswith('::branch')):
                break
            nxt = None
            for a in x['args']:
                if op_place(a):
                    if place_reads_field(op_place(a), adt_sub, field):
                        return True
                    nxt = op_local(a)
                    break
            cur = nxt
        else:
            rv = x['rv']
            ps = body.rvalue_places(rv)
            if any(place_reads_field(p_, adt_sub, field) for p_ in ps):
                return True
            if rv['rk'] in ('use', 'ref', 'discriminant', 'cast') and ps:
                cur = ps[0]['l']
            elif rv['rk'] == 'unop' and ps:
                cur = ps[0]['l']
            else:
                break
    if cur is not None and 1 <= cur <= body.arg_count:
        sites = [(cb, t) for cb in mir.bodies.values() for _, t in cb.calls() if cname(t) == body.name]
        if sites:
            ok_all = True
            for cb, t in sites:
                a = t['args'][cur - 1] if cur - 1 < len(t['args']) else None
                if a is None:
                    ok_all = False
                    break
                if op_place(a) and place_reads_field(op_place(a), adt_sub, field):
                    continue
                al = op_local(a)
                if al is None or not local_is_field_value(mir, cb, al, adt_sub, field, depth + 1, seen):
                    ok_all = False
                    break
            return ok_all
    return False
