"""Roles of the fields of the crate-private record that describes one collected binding (today `GroupBinding { name, binding_index,
binding_type, address_space }`), derived from where the record is constructed - never from the field names, which a refactoring may change:
  index: filled from `<the variable's ResourceBinding>.binding`     type : filled from `module.types[<the variable>.ty]`
  space: filled from `<the variable>.space`                           name : filled from `<the variable>.name`"""
import engine_ogp as E

DEFAULT = {'index': 'binding_index', 'type': 'binding_type', 'space': 'address_space', 'name': 'name'}
_cache = {}


def classify(v):
    while v[0] in ('cast',):
        v = v[1]
    if v[0] == 'f' and v[2] == 'binding' and v[1][0] in ('unwrap', 'vf', 'f', 'elem', 'tf'):
        return 'index'
    if v[0] == 'f' and v[2] == 'space':
        return 'space'
    if v[0] == 'f' and v[2] == 'name':
        return 'name'
    if v[0] == 'idx' and v[1][0] == 'f' and v[1][2] == 'types':
        return 'type'
    return None


def is_variable(v):
    """the term denotes one module-scope variable itself: the element of an iteration over module.global_variables (its second component
    when the arena yields (handle, variable) pairs), or module.global_variables[handle]"""
    while v[0] in ('unwrap',):
        v = v[1]
    if v[0] == 'tf' and v[2] == 1 and v[1][0] == 'elem' and v[1][2][0] == 'f' and v[1][2][2] == 'global_variables':
        return True
    if v[0] == 'idx' and v[1][0] == 'f' and v[1][2] == 'global_variables':
        return True
    return False


def rt(base, spec):
    """the term of a role on a record value: a field, or a path of fields (`record.global.name` when the record keeps a reference to the
    variable instead of copies of its fields)"""
    if isinstance(spec, str):
        return ('f', base, spec)
    for seg in spec:
        base = ('f', base, seg)
    return base


def binding_roles(ogp):
    """({'index'|'type'|'space'|'name' -> field name}, struct path) from the struct literal pushed onto a group's binding list (Engine A)"""
    key = id(ogp)
    if key in _cache:
        return _cache[key]
    found = []
    for q, effs in ogp.effects.items():
        for e in effs:
            if e['kind'] == 'mutate' and e.get('method') == 'push' and e.get('args') and e['args'][0][0] == 'struct':
                st = e['args'][0]
                roles = {}
                for fname, val in st[2].items():
                    r = classify(val)
                    if r and r not in roles:
                        roles[r] = fname
                for fname, val in st[2].items():
                    if is_variable(val):
                        # the record keeps (a reference to) the variable itself: its name and address space are read through it
                        roles.setdefault('name', (fname, 'name'))
                        roles.setdefault('space', (fname, 'space'))
                if {'index', 'type', 'space', 'name'} <= set(roles):
                    found.append((roles, st[1]))
    res = found[0] if found else (None, None)
    _cache[key] = res
    return res


def mir_binding_roles(mir):
    """{'index': field, 'space': field} from the aggregate that builds the collected-binding record (resolved MIR): the field whose operand
    is rooted at `<...>.binding` / `<...>.space`"""
    from engine_mir import op_place
    from mirutil import canon
    for n, B in sorted(mir.bodies.items()):
        for blk in B.blocks:
            for st in blk['stmts']:
                rv = st['rv']
                if rv['rk'] == 'aggregate' and 'fields' in rv and not rv['agg'].startswith('closure:') and '::' in rv['agg']:
                    roles = {}
                    for fname, o in zip(rv['fields'], rv['ops']):
                        r = canon(B, op_place(o)) if op_place(o) else None
                        if r is None:
                            continue
                        tail = r[1].replace('&', '').replace('*', '')
                        if tail.endswith('.binding') and 'index' not in roles:
                            roles['index'] = fname
                        elif tail.endswith('.space') and 'space' not in roles:
                            roles['space'] = fname
                    if 'index' in roles and 'space' not in roles:
                        # the record keeps a reference to the variable itself (`global: &GlobalVariable`): its address space is read through it
                        from engine_mir import op_local
                        for fname, o in zip(rv['fields'], rv['ops']):
                            l_ = op_local(o)
                            if l_ is not None and B.locals[l_].replace(' ', '') in ('&naga::GlobalVariable', "&'_naga::GlobalVariable"):
                                roles['space'] = (fname, 'space')
                    if {'index', 'space'} <= set(roles) and len(rv['fields']) >= 3:
                        return roles, rv['agg']
    return None, None
