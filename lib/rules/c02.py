"""C02 - bind group layouts pass wgpu's shader-interface validation: decision-table equivalence over a finite domain.

The layout-entry template (anchor: the quote! that contains `wgpu :: BindGroupLayoutEntry {`) and the decision tables that
fill its `ty:` hole are extracted from the generator source by the abstract interpreter (Engine A).  For every point of
the finite domain of resource types that WGSL can spell (enumerated from the pinned naga source: buffers x address spaces,
6 view dimensions x sampled kinds, multisampled, depth, every StorageFormat x 4 accesses x 4 dimensions, samplers) the
extracted table is *looked up* (first matching row) and the resulting `wgpu::BindingType` tokens are compared with an
oracle transliterated from wgpu-core 24 (validation.rs: Resource::check_binding_use / map_storage_format_to_naga;
device/resource.rs: create_bind_group_layout entry rules).  Rows on which the generator panics are outside "accepted
shaders" and are listed, not judged.  Existence at (@group,@binding), visibility and layout order belong to C03/C04/C11."""
import re, os
import engine_ogp as E
import schema as S
from conc import Eval, V, Flags, Diverge, Unbound, parse_expr_text, tail2
from common import SRC


def hole_after(tmpl, anchor):
    """term of the hole that directly follows the token text `anchor` in a template (None if absent)"""
    items = tmpl[2]
    for i, it in enumerate(items):
        if it[0] == 'tok' and (' ' + it[1]).endswith(' ' + anchor) and i + 1 < len(items):
            nx = items[i + 1]
            return ('hole', nx[1], E.plain_idents(nx[2])) + tuple(nx[3:]) if nx[0] == 'hole' else nx
    return None


def collect_scrutinees(term):
    out = {}

    def f(x):
        if x[0] == 'is':
            enum = x[2].split('::')[-2] if '::' in x[2] else ''
            out.setdefault(enum, [])
            if not any(x[1] == y for y in out[enum]):
                out[enum].append(x[1])
    E.walk(term, f)
    return out


def find_entry_template(ogp):
    hits = []
    for q, v in ogp.summaries.items():
        for t in E.find_templates(v, lambda t: 'wgpu :: BindGroupLayoutEntry {' in E.tmpl_text(t)):
            if t[3] == q:
                hits.append((q, t))
    return hits


def expected_binding(point, sch):
    """oracle: wgpu-core 24 check_binding_use + create_bind_group_layout entry rules"""
    kind = point['kind']
    if kind == 'buffer':
        sp = point['space']
        if sp.name == 'Uniform':
            ty = ('wgpu::BufferBindingType::Uniform', None)
        else:
            ro = sp.fields['access'].bits == frozenset(['LOAD'])
            ty = ('wgpu::BufferBindingType::Storage', {'read_only': ('true' if ro else 'false', None)})
        return ('wgpu::BindingType::Buffer', {'ty': ty, 'has_dynamic_offset': ('false', None), 'min_binding_size': ('None', None)})
    if kind == 'sampler':
        cmp_ = point['inner'].fields['comparison']
        return ('wgpu::BindingType::Sampler', {'0': ('wgpu::SamplerBindingType::Comparison', None) if cmp_ else ('wgpu::SamplerBindingType::Filtering|NonFiltering', None)})
    img = point['inner']
    dim, arrayed, cls = img.fields['dim'].name, img.fields['arrayed'], img.fields['class']
    vd = {('D1', False): 'D1', ('D2', False): 'D2', ('D2', True): 'D2Array', ('D3', False): 'D3', ('Cube', False): 'Cube', ('Cube', True): 'CubeArray'}[(dim, arrayed)]
    vdt = ('wgpu::TextureViewDimension::' + vd, None)
    if cls.name == 'Sampled':
        k = cls.fields['kind'].name
        st = {'Sint': ('wgpu::TextureSampleType::Sint', None), 'Uint': ('wgpu::TextureSampleType::Uint', None),
              'Float': ('wgpu::TextureSampleType::Float', {'filterable': ('true|false', None)})}[k]
        return ('wgpu::BindingType::Texture', {'sample_type': st, 'view_dimension': vdt, 'multisampled': ('true' if cls.fields['multi'] else 'false', None)})
    if cls.name == 'Depth':
        return ('wgpu::BindingType::Texture', {'sample_type': ('wgpu::TextureSampleType::Depth', None), 'view_dimension': vdt,
                                               'multisampled': ('true' if cls.fields['multi'] else 'false', None)})
    acc = cls.fields['access'].bits
    a = {frozenset(['LOAD']): 'ReadOnly', frozenset(['STORE']): 'WriteOnly', frozenset(['LOAD', 'STORE']): 'ReadWrite',
         frozenset(['LOAD', 'STORE', 'ATOMIC']): 'Atomic'}[acc]
    return ('wgpu::BindingType::StorageTexture', {'access': ('wgpu::StorageTextureAccess::' + a, None),
                                                  'format': ('wgpu::TextureFormat::' + cls.fields['format'].name, None), 'view_dimension': vdt})


def matches(actual, expected):
    """structural comparison; expected leaf names may list alternatives with |"""
    an, af = actual
    en, ef = expected
    alts = en.split('|')
    base = en.rsplit('::', 1)[0] + '::' if '::' in en else ''
    names = [alts[0]] + [base + x for x in alts[1:]]
    if an not in names:
        return False, f'{an} != {en}'
    if (af is None) != (ef is None):
        return False, f'shape of {an}'
    if af is None:
        return True, ''
    if set(af) != set(ef):
        return False, f'fields of {an}: {sorted(af)} != {sorted(ef)}'
    for k in ef:
        ok, why = matches(af[k], ef[k])
        if not ok:
            return False, f'{k}: {why}'
    return True, ''


def creation_rule(actual):
    """create_bind_group_layout entry rules; returns reason when the entry is rejected"""
    an, af = actual
    if an == 'wgpu::BindingType::Texture':
        ms = af['multisampled'][0] == 'true'
        st = af['sample_type']
        if ms and st[0] == 'wgpu::TextureSampleType::Float' and st[1] and st[1].get('filterable', ('', None))[0] == 'true':
            return 'multisampled texture with sample type Float{filterable:true} is rejected by create_bind_group_layout'
        if ms and af['view_dimension'][0] != 'wgpu::TextureViewDimension::D2':
            return 'multisampled texture must have view dimension D2'
    if an == 'wgpu::BindingType::StorageTexture':
        if af['view_dimension'][0].endswith(('::Cube', '::CubeArray')):
            return 'storage textures cannot be cube views'
    return None


def domain(sch):
    TI = 'naga::TypeInner::'
    pts = []
    H = V('naga::AddressSpace::Handle')
    uni = V('naga::AddressSpace::Uniform')
    sto = lambda bits: V('naga::AddressSpace::Storage', access=Flags('naga::StorageAccess', bits))
    scalar = V('naga::Scalar', kind=V('naga::ScalarKind::Float'), width=4)
    inners = {
        'Struct': V(TI + 'Struct', members=(), span=16),
        'Array(const)': V(TI + 'Array', base='h', size=V('naga::ArraySize::Constant', **{'0': 4}), stride=16),
        'Array(dynamic)': V(TI + 'Array', base='h', size=V('naga::ArraySize::Dynamic'), stride=16),
        'Scalar': V(TI + 'Scalar', **{'0': scalar}),
        'Vector': V(TI + 'Vector', size=V('naga::VectorSize::Quad'), scalar=scalar),
        'Matrix': V(TI + 'Matrix', columns=V('naga::VectorSize::Quad'), rows=V('naga::VectorSize::Quad'), scalar=scalar),
        'Atomic': V(TI + 'Atomic', **{'0': V('naga::Scalar', kind=V('naga::ScalarKind::Uint'), width=4)}),
    }
    for name, inner in inners.items():
        spaces = [('Storage{LOAD}', sto(['LOAD'])), ('Storage{LOAD|STORE}', sto(['LOAD', 'STORE']))]
        if name not in ('Array(dynamic)', 'Atomic'):
            spaces.insert(0, ('Uniform', uni))
        for sn, sp in spaces:
            pts.append({'kind': 'buffer', 'label': f'buffer/{name}/{sn}', 'inner': inner, 'space': sp})
    for cmp_ in (False, True):
        pts.append({'kind': 'sampler', 'label': f'sampler/comparison={cmp_}', 'inner': V(TI + 'Sampler', comparison=cmp_), 'space': H})
    dims = {'1d': ('D1', False), '2d': ('D2', False), '2d_array': ('D2', True), '3d': ('D3', False), 'cube': ('Cube', False), 'cube_array': ('Cube', True)}

    def image(d, cls):
        return V(TI + 'Image', dim=V('naga::ImageDimension::' + dims[d][0]), arrayed=dims[d][1], **{'class': cls})
    for d in dims:
        for k in ('Float', 'Sint', 'Uint'):
            pts.append({'kind': 'image', 'label': f'Image/Sampled/{k}/multi=false/{d}', 'inner': image(d, V('naga::ImageClass::Sampled', kind=V('naga::ScalarKind::' + k), multi=False)), 'space': H})
    for k in ('Float', 'Sint', 'Uint'):
        pts.append({'kind': 'image', 'label': f'Image/Sampled/{k}/multi=true', 'inner': image('2d', V('naga::ImageClass::Sampled', kind=V('naga::ScalarKind::' + k), multi=True)), 'space': H})
    for d in ('2d', '2d_array', 'cube', 'cube_array'):
        pts.append({'kind': 'image', 'label': f'Image/Depth/multi=false/{d}', 'inner': image(d, V('naga::ImageClass::Depth', multi=False)), 'space': H})
    pts.append({'kind': 'image', 'label': 'Image/Depth/multi=true', 'inner': image('2d', V('naga::ImageClass::Depth', multi=True)), 'space': H})
    accesses = [['LOAD'], ['STORE'], ['LOAD', 'STORE'], ['LOAD', 'STORE', 'ATOMIC']]
    for fmt in sch.variants('naga::StorageFormat'):
        for acc in accesses:
            for d in ('1d', '2d', '2d_array', '3d'):
                pts.append({'kind': 'image', 'label': f'Image/Storage/{fmt}/{"|".join(acc)}/{d}', 'group': f'storage-access:{"|".join(acc)}',
                            'inner': image(d, V('naga::ImageClass::Storage', format=V('naga::StorageFormat::' + fmt), access=Flags('naga::StorageAccess', acc))), 'space': H})
    return pts


def wgpu_core_format_map(sch):
    try:
        d = S.registry_dir('wgpu-core', sch.versions['wgpu-core'])
        txt = open(os.path.join(d, 'src', 'validation.rs')).read()
        body = txt.split('fn map_storage_format_to_naga', 1)[1].split('\n}\n', 1)[0]
        return dict((sf, tf) for tf, sf in re.findall(r'Tf::(\w+)\s*=>\s*Sf::(\w+)', body))
    except Exception:
        return None


def run(rep):
    ogp = E.load()
    sch = S.load()
    rep.explanation = __doc__
    rep.exhaustive = True
    rep.trusted = ['syn parser; the abstract semantics of the Rust idioms used by the generator (Engine A)',
                   f"oracle tables transliterated from wgpu-core {sch.versions.get('wgpu-core')} (frozen for 24.0.5)",
                   'naga reports the resource types exactly as enumerated from its source']
    hits = find_entry_template(ogp)
    rep.floor('layout-entry template (wgpu::BindGroupLayoutEntry)', len(hits), 1)
    if not hits:
        return
    if sch.versions.get('wgpu-core') != '24.0.5':
        rep.assumptions.append(f"oracle not confirmed for wgpu-core {sch.versions.get('wgpu-core')} (frozen for 24.0.5)")
    fmap = wgpu_core_format_map(sch)
    tfs = set(sch.variants('wgpu::TextureFormat'))
    q, tmpl = hits[0]
    f = ogp.crate.fns[q]
    where = f"{ogp.crate.relfile(f['file'])} fn {f['name']} (template at {tmpl[1]})"
    ty_item = hole_after(tmpl, 'ty :')
    rep.check(ty_item is not None and ty_item[0] == 'hole', 'C02.anchor', 'ty-hole', where, 'the `ty:` field of the layout entry is not an interpolated hole')
    cnt = [it for it in tmpl[2] if it[0] == 'tok' and 'count : None' in it[1]]
    rep.check(bool(cnt), 'C02.count-none', 'count', where, 'the layout entry does not say `count: None` (binding arrays are not generated, so any count is wrong)',
              ok_detail='count: None')
    if ty_item is None or ty_item[0] != 'hole':
        return
    term = ty_item[2]
    scr = collect_scrutinees(term)
    ti = scr.get('TypeInner', [])
    asp = scr.get('AddressSpace', [])
    rep.check(len(ti) == 1, 'C02.anchor', 'type-scrutinee', where, f'expected one scrutinee of type naga::TypeInner in the table, found {len(ti)}',
              ok_detail=E.show(ti[0]) if ti else '')
    rep.check(len(asp) == 1, 'C02.anchor', 'space-scrutinee', where, f'expected one scrutinee of type naga::AddressSpace in the table, found {len(asp)}',
              ok_detail=E.show(asp[0]) if asp else '')
    if len(ti) != 1 or len(asp) != 1:
        return
    ti, asp = ti[0], asp[0]
    pts = domain(sch)
    n_eval = n_div = 0
    diverged = []
    bad_groups = {}
    flag_types = {k: v for k, v in sch.flags.items()}
    distinct_rows = set()
    for p in pts:
        def leaf(t, p=p):
            if t == ti:
                return (p['inner'],)
            if t == asp:
                return (p['space'],)
            return None
        ev = Eval(leaf, flag_types)
        try:
            text = ev.ev(term)
        except Diverge as d:
            n_div += 1
            diverged.append(p['label'])
            continue
        except Unbound as u:
            rep.bad('C02.table', 'C02.table:undecided:' + p['label'], where, f'cannot evaluate the extracted table at {p["label"]}: {u}', undecided=True)
            continue
        n_eval += 1
        distinct_rows.add(text)
        try:
            actual = parse_expr_text(text)
        except Exception as ex:
            rep.bad('C02.table', 'C02.table:tokens:' + p['label'], where, f'emitted tokens do not form a struct expression ({ex}): {text[:160]}')
            continue
        exp = expected_binding(p, sch)
        ok, why = matches(actual, exp)
        key = 'C02.table:' + p.get('group', p['label'])
        if p.get('group'):
            # storage textures: one key per access class / per format / per dimension that is wrong
            if not ok:
                if 'access' in why:
                    key = 'C02.table:' + p['group']
                elif 'format' in why:
                    key = 'C02.table:storage-format:' + p['inner'].fields['class'].fields['format'].name
                else:
                    key = 'C02.table:storage-dim:' + p['label'].rsplit('/', 1)[-1]
        if not ok:
            if key not in bad_groups:
                bad_groups[key] = 0
                rep.bad('C02.table', key, where, f'{p["label"]}: emitted `{text[:200]}` but wgpu-core expects {fmt_exp(exp)} ({why})')
            bad_groups[key] += 1
            continue
        why2 = creation_rule(actual)
        if why2:
            key = 'C02.table:' + p['label']
            rep.bad('C02.creation-rule', key, where, f'{p["label"]}: emitted `{text[:200]}`: {why2}')
            continue
        if p['kind'] == 'image' and p['inner'].fields['class'].name == 'Storage':
            fmt = p['inner'].fields['class'].fields['format'].name
            okf = fmt in tfs and (fmap is None or fmap.get(fmt) == fmt)
            if not okf:
                rep.bad('C02.table', 'C02.table:storage-format:' + fmt, where, f'wgpu::TextureFormat::{fmt} does not exist / does not map back to naga::StorageFormat::{fmt}')
                continue
        rep.ok('C02.table', 'C02.table:' + p['label'], where, text[:160])
    rep.info['domain_points'] = len(pts)
    rep.info['points_evaluated'] = n_eval
    rep.info['points_on_which_the_generator_panics'] = diverged[:40]
    rep.info['distinct_emitted_binding_types'] = len(distinct_rows)
    rep.analysed = {'function': q, 'template': tmpl[1], 'scrutinees': [E.show(ti), E.show(asp)], 'domain_points': len(pts), 'diverging_points': n_div,
                    'storage_formats': len(sch.variants('naga::StorageFormat')), 'wgpu_core_format_map_rows': len(fmap) if fmap else None}
    rep.floor('domain points on which the table yields a binding type', n_eval, 690)
    # "is visible to that stage" and "in pipeline-layout order" are clauses of this property decided by C03's / C04's rules
    from common import include
    include(rep, 'c03', ('C03.',), 'visibility')
    include(rep, 'c04', ('C04.R7', 'C04.R3', 'C04.groups-ordered-map'), 'layout-order')
    # "each resource the entry point uses exists at its @group/@binding": the collected group map holds every variable under its own group and index
    include(rep, 'c11', ('C11.R2',), 'exists-at-group-binding')
    # the section reaches the assembled output unconditionally (shared rule, lib/sections.py)
    from sections import check_wiring
    check_wiring(rep, 'C02.section-wiring', ['pub mod bind_groups', 'get_bind_group_layout ( device )'], 'bind-groups-section')


def fmt_exp(e):
    n, f = e
    if f is None:
        return n
    return n + '{' + ', '.join(f'{k}: {fmt_exp(v)}' for k, v in f.items()) + '}'
