"""C13 - push constant range covers the variable, from offset 0, once.

Decided on the output grammar with provenance (Engine A), anchored on the `wgpu::PushConstantRange {` template:
  * the range is `wgpu::PushConstantRange { stages: PUSH_CONSTANT_STAGES, range: 0..<n> }`: literal start 0, the stages refer to
    the exported constant by name;
  * <n> is the size of the type of the selected global, unmodified (TypeInner::size(module.to_ctx()), or the layouter's size of
    that type handle) - no rounding to an alignment or stride;
  * the selected global is found among module.global_variables by `space == PushConstant` only;
  * the stage set is quote_shader_stages(map.get(name of that same global), falling back to the entry-stage set) - exactly the map
    entry when the variable is used (no union with anything), else the stages that have an entry point;
  * iff: range and `pub const PUSH_CONSTANT_STAGES` are the two halves of one Option (same presence condition), the descriptor has a
    single optional range hole (at most one range), the stage map is the one computed by the stage walk (C03) and the fallback is
    the union of naga stage -> wgpu stage over all entry points.
Not decided: that the size is a multiple of 4 (a fact about WGSL types and naga's layout, trusted)."""
import engine_ogp as E
from conc import Eval, V, Diverge, Unbound
from rules.c02 import hole_after
from rules.c03 import stages_argument
from rules.c04 import hole_after_seq

TRUE = ('true',)


def run(rep):
    ogp = E.load()
    rep.explanation = __doc__
    rep.trusted = ['syn parser and the abstract semantics of Engine A', 'naga TypeInner::size / Layouter give the WGSL byte size (multiple of 4 for push-constant types)',
                   'C03 rules: the stage map holds exactly the using stages']
    crate = ogp.crate
    hits = []
    for q, v in ogp.summaries.items():
        for t in E.find_templates(v, lambda t: 'wgpu :: PushConstantRange {' in E.tmpl_text(t)):
            if t[3] == q:
                hits.append((q, t))
    rep.floor('push constant range template', len(hits), 1)
    if not hits:
        return
    q, rt = hits[0]
    f = crate.fns[q]
    where = f"{crate.relfile(f['file'])} fn {f['name']} (template at {rt[1]})"
    summ = ogp.summaries[q]
    params = {('module' if p['ty'].replace(' ', '').endswith('Module') else 'map' if 'Map<' in p['ty'].replace(' ', '') else 'stages' if 'ShaderStages' in p['ty'] else p['pat']['name']):
              ('param', q, p['pat']['name']) for p in f['params']}
    modP, mapP, fbP = params.get('module'), params.get('map'), params.get('stages')
    txt = E.tmpl_text(rt)
    hs = list(E.holes(rt).items())
    from tokrules import find_struct_expr
    pr = find_struct_expr(txt, 'wgpu :: PushConstantRange')
    shape_ok = len(hs) == 1 and pr is not None and pr[1] is not None and set(pr[1]) == {'stages', 'range'} and pr[1]['stages'] == ('PUSH_CONSTANT_STAGES', None) and \
        pr[1]['range'] == ('0..#' + hs[0][0], None)
    rep.check(shape_ok, 'C13.range-shape', 'range-shape', where,
              f'the range is `{txt}`; expected `wgpu::PushConstantRange {{ stages: PUSH_CONSTANT_STAGES, range: 0..#size }}` (start literal 0, stages by the exported constant)',
              ok_detail=txt)
    if len(hs) != 1 or modP is None:
        return
    size = hs[0][1]
    # the selected global
    founds = []
    E.walk(summ, lambda x: founds.append(x) if x[0] == 'found' else None)
    sel_ok = False
    G = None
    if founds:
        fs = founds[0][1]
        el = ('elem', fs[2], fs[1])
        want_c = ('eq', ('f', ('tf', el, 1), 'space'), ('path', 'naga::AddressSpace::PushConstant'))
        sel_ok = fs[1] == ('f', modP, 'global_variables') and fs[4] == [want_c] and all(x[1] == fs for x in founds)
        G = ('tf', founds[0], 1)
    rep.check(sel_ok, 'C13.selection', 'selected-global', where,
              f'the push-constant variable is not selected from module.global_variables by `space == PushConstant` alone ({E.show(founds[0], maxdepth=6) if founds else None})',
              ok_detail='module.global_variables.find(space == PushConstant)')
    if G is None:
        return
    tyh = ('f', G, 'ty')
    want1 = ('call', 'Literal::usize_unsuffixed', [('cast', ('mcall', ('f', ('idx', ('f', modP, 'types'), tyh), 'inner'), 'size', [('mcall', modP, 'to_ctx', [])]), 'usize')])
    ok1 = size == want1 or (size[0] == 'call' and size[1].startswith('Literal::') and strip_cast(size[2][0]) == want1[2][0][1])
    ok2 = size[0] == 'call' and size[1].startswith('Literal::') and strip_cast(size[2][0])[0] == 'f' and strip_cast(size[2][0])[2] == 'size' and \
        strip_cast(size[2][0])[1][0] == 'idx' and strip_cast(size[2][0])[1][2] == tyh and 'Layouter' in E.show(strip_cast(size[2][0])[1][1], maxdepth=4)
    rep.check(ok1 or ok2, 'C13.size', 'range-size', where,
              f'the range length is {E.show(size, maxdepth=8)}; expected the byte size of the type of the selected variable, unmodified (TypeInner::size(ctx) or Layouter[ty].size)',
              ok_detail='0..size_of(type of the push-constant variable)')
    # ---- stage set -------------------------------------------------------------------------------------------------------------------
    # the second component returned by the function
    # the Some(..) returned by the function: a pair / two-field struct holding the range and the stage expression (or the constant built from it)
    ret = None
    if summ[0] == 'alt':
        for c, v in summ[1]:
            if v[0] == 'opt' and components(v[2]) is not None:
                ret = v
    if ret is None:
        rep.bad('C13.iff', 'two-halves', where, 'the range and the stage expression are not produced together as one Option<(range, stages)>', undecided=True)
        return
    comps = components(ret[2])
    rng_c = [x for x in comps if E.find_templates(x, lambda t: t is rt)]
    oth_c = [x for x in comps if not E.find_templates(x, lambda t: t is rt)]
    rep.check(ret[1] == TRUE and len(rng_c) == 1 and len(oth_c) == 1, 'C13.iff', 'two-halves', where, 'range and stages are not the two halves of one Some((range, stages))',
              ok_detail='Some((range, stages))')
    none_arms = [(c, v) for c, v in summ[1] if v[0] == 'propagate']
    rep.check(len(none_arms) == 1 and len(summ[1]) == 2, 'C13.iff', 'none-iff-absent', where, 'None is not returned exactly when no push-constant variable exists', ok_detail='None iff no push-constant variable')
    if len(oth_c) != 1:
        return
    stages = oth_c[0]
    if stages[0] == 'tmpl' and 'pub const PUSH_CONSTANT_STAGES : wgpu :: ShaderStages = #' in E.tmpl_text(stages) and len(E.holes(stages)) == 1:
        stages = list(E.holes(stages).values())[0]      # the constant is built next to the range
    arg = stages_argument(stages)
    nameT = ('f', G, 'name')
    getT = ('mcall', mapP, 'get', [('unwrap', nameT)])
    want_arg = ('alt', [(('and', [('t', ('is_some', nameT)), ('t', ('is_some', getT))]), ('unwrap', getT)), (TRUE, fbP)])
    rep.check(arg is not None and E.decision_list(arg) == E.decision_list(want_arg), 'C13.stages', 'stage-lookup', where,
              f'the stage set is {E.show(arg, maxdepth=8) if arg else None}; expected exactly `global_stages.get(name of the push-constant variable)` with fallback `entry_stages` '
              f'(when the variable is used the set must be the map entry itself, no stage may be added)', ok_detail='stages = map.get(variable name) else entry stages')
    # ---- top-level wiring ------------------------------------------------------------------------------------------------------------
    tops = [tq for tq in ogp.summaries if any(c[0] == tq and c[1] == q for c in ogp.it.inline_calls)]
    rep.floor('top-level function using the push constant range', len(tops), 1)
    for tq in tops:
        tf_ = crate.fns[tq]
        tw = f"{crate.relfile(tf_['file'])} fn {tf_['name']}"
        top = ogp.summaries[tq]
        pl = E.find_templates(top, lambda t: 'push_constant_ranges : & [' in E.tmpl_text(t))
        cs = E.find_templates(top, lambda t: 'pub const PUSH_CONSTANT_STAGES : wgpu :: ShaderStages = #' in E.tmpl_text(t))
        rep.check(len(pl) == 1 and len(cs) == 1, 'C13.wiring', f'templates:{tq}', tw, f'{len(pl)} pipeline-layout / {len(cs)} PUSH_CONSTANT_STAGES templates', ok_detail='one each')
        if len(pl) != 1 or len(cs) != 1:
            continue
        ptxt = E.tmpl_text(pl[0])
        rng = hole_after_seq(pl[0], 'push_constant_ranges : & [')
        rep.check(rng is not None and 'push_constant_ranges : & [ #' in ptxt and '] , } )' in ptxt.split('push_constant_ranges : & [ #')[1][:40], 'C13.at-most-one', f'single-range:{tq}', tw,
                  'push_constant_ranges is not a single optional range', ok_detail='&[<optional range>]')
        # where is the const?  an Option-valued hole of the output
        const_holder = []
        E.walk(top, lambda x: const_holder.append(x) if x[0] == 'opt' and E.find_templates(x[2], lambda t: t is cs[0]) else None)
        # the innermost Option holding the constant
        const_holder = [x for x in const_holder if not any(y is not x and E.find_templates(x[2], lambda t: t is cs[0]) and contains(x[2], y) for y in const_holder)]
        okw = rng is not None and rng[0] == 'opt' and E.find_templates(rng[2], lambda t: 'wgpu :: PushConstantRange {' in E.tmpl_text(t)) and len(const_holder) == 1 and const_holder[0][1] == rng[1]
        rep.check(bool(okw), 'C13.iff', f'const-iff-range:{tq}', tw,
                  'the PUSH_CONSTANT_STAGES constant and the range are not present under the same condition', ok_detail='both present iff a push-constant variable exists')
        cst = list(E.holes(cs[0]).values())[0]
        arg2 = stages_argument(cst)
        gets = []
        if arg2 is not None:
            E.walk(arg2, lambda x: gets.append(x) if x[0] == 'mcall' and x[2] == 'get' else None)
        ok_map = bool(gets) and all(g[1][0] == 'new' and g[1][1] in ('BTreeMap', 'HashMap') and g[1][3] == () for g in gets)
        rep.check(ok_map, 'C13.wiring', f'stage-map:{tq}', tw, 'the stage map consulted for the push constant is not the map computed by the stage walk', ok_detail='consults the walker\'s map')
        # fallback = union over all entry points of the stage table
        fb = arg2[1][-1][1] if arg2 is not None and arg2[0] == 'alt' else None
        # evaluated on model entry-point lists: the fallback must be the union of naga stage -> wgpu stage over all entry points
        import engine_skel as K
        from conc import Flags
        modT = None
        eps_terms = []
        if fb is not None:
            E.walk(fb, lambda x: eps_terms.append(x) if x[0] == 'f' and x[2] == 'entry_points' else None)
        rows_ok = bool(eps_terms)
        detail = ''
        for stages_list in ([], ['Vertex'], ['Vertex', 'Fragment'], ['Compute', 'Compute', 'Fragment'], ['Fragment', 'Vertex', 'Compute']):
            eps = [V('naga::EntryPoint', name=f'e{i}', stage=V('naga::ShaderStage::' + s_), function=V('naga::Function', name=None, result=None, arguments=[])) for i, s_ in enumerate(stages_list)]

            def leaf(t, eps=eps):
                if eps_terms and t == eps_terms[0]:
                    return (eps,)
                return None
            ev = K.SkelEval(ogp, None, {}, '', None, extra_leaf=leaf)
            try:
                got = ev.norm_flags(ev.ev(fb)) if fb is not None else None
            except (Diverge, Unbound) as ex:
                got = f'<{ex}>'
            want = {s_.upper() for s_ in stages_list}
            if not (isinstance(got, Flags) and set(got.bits) == want):
                rows_ok = False
                detail = f'entry stages {stages_list} -> {got}'
        rep.check(rows_ok, 'C13.fallback', f'entry-stages:{tq}', tw,
                  f'the fallback stage set is not the union of the stages of all entry points ({detail or E.show(fb, maxdepth=5)})', ok_detail='all entry points, stage table Vertex/Fragment/Compute (evaluated on model entry lists)')
    rep.analysed = {'function': q, 'template': rt[1], 'top_level': tops}


def contains(t, sub):
    hit = []
    E.walk(t, lambda x: hit.append(1) if x is sub else None)
    return bool(hit)


def components(v):
    """the two components of a pair / two-field struct value, or None"""
    if v[0] == 'tuple' and len(v[1]) == 2:
        return list(v[1])
    if v[0] == 'struct' and len(v[2]) == 2:
        return list(v[2].values())
    return None


def strip_cast(t):
    while t[0] == 'cast':
        t = t[1]
    return t
