"""C13 - push constant range covers the variable, from offset 0, once.

Decided on the output grammar with provenance (Engine A), on the summary of the top-level function (the function that holds the
`push_constant_ranges: &[..]` hole), where every helper - free function, closure or method of a helper struct - is inlined, so the rule
does not depend on how the work is split:
  * the range is `wgpu::PushConstantRange { stages: PUSH_CONSTANT_STAGES, range: 0..<n> }`: literal start 0, the stages refer to
    the exported constant by name;
  * <n> is the size of the type of the selected global, unmodified (TypeInner::size(module.to_ctx()), or the layouter's `.size` of
    that type handle) - no rounding to an alignment or stride;
  * the selected global is found among module.global_variables by `space == PushConstant` only;
  * the stage set is quote_shader_stages(map.get(name of that same global), falling back to the entry-stage set) - exactly the map
    entry when the variable is used (no union with anything), else the stages that have an entry point;
  * iff: the range hole and the `pub const PUSH_CONSTANT_STAGES` item are present under one and the same condition, and that condition is
    (truth table over its single atom) "some global variable has space PushConstant"; the descriptor has a single optional range hole
    (at most one range); the stage map is the one computed by the stage walk (C03) and the fallback is the union of naga stage ->
    wgpu stage over all entry points.
Not decided: that the size is a multiple of 4 (a fact about WGSL types and naga's layout, trusted)."""
import engine_ogp as E
from conc import Eval, V, Diverge, Unbound
from rules.c03 import stages_argument
from rules.c04 import hole_after_seq

TRUE = ('true',)


def run(rep):
    ogp = E.load()
    rep.explanation = __doc__
    rep.trusted = ['syn parser and the abstract semantics of Engine A', 'naga TypeInner::size / Layouter give the WGSL byte size (multiple of 4 for push-constant types)',
                   'C03 rules: the stage map holds exactly the using stages']
    crate = ogp.crate
    # the top-level function: holds the pipeline-layout template; the smallest such function (the public wrappers inline it)
    # the innermost function in whose summary the pipeline-layout template and the range meet (the template may live in a helper that takes
    # the range as a parameter; the public wrappers inline everything and come last)
    cg = crate.call_graph()

    def closure_size(q0):
        seen, st_ = set(), [q0]
        while st_:
            x = st_.pop()
            if x in seen:
                continue
            seen.add(x)
            st_.extend(cg.get(x, ()))
        return len(seen)
    cands = []
    for q, v in ogp.summaries.items():
        if v is None:
            continue
        for plt in E.find_templates(v, lambda t: 'push_constant_ranges : & [' in E.tmpl_text(t)):
            rng_ = hole_after_seq(plt, 'push_constant_ranges : & [')
            if rng_ is not None and E.find_templates(rng_, lambda t: 'wgpu :: PushConstantRange {' in E.tmpl_text(t)):
                # a function that is handed the stage map / the entry stages (a staged top level: computed in one helper, consumed in another)
                # does not see where they come from: the join is its caller
                if q in crate.fns and not crate.receives(q, 'ShaderStages'):
                    cands.append((closure_size(q), q, plt))
                break
    cands.sort(key=lambda c: c[:2])
    tops = [(cands[0][1], cands[0][2])] if cands else []
    if not tops:
        # no function joins the two: report on the function holding the pipeline-layout template
        for q, v in ogp.summaries.items():
            pl = E.find_templates(v, lambda t: t[3] == q and 'push_constant_ranges : & [' in E.tmpl_text(t)) if v is not None else []
            if pl:
                tops.append((q, pl[0]))
    rep.floor('top-level function using the push constant range', len(tops), 1)
    if not tops:
        return
    import engine_skel as K
    from conc import Flags
    from tokrules import find_struct_expr
    for tq, plt in tops:
        tf_ = crate.fns[tq]
        tw = f"{crate.relfile(tf_['file'])} fn {tf_['name']}"
        top = ogp.summaries[tq]
        plt = E.flatten(plt)
        ptxt = E.tmpl_text(plt)
        rng = hole_after_seq(plt, 'push_constant_ranges : & [')
        import re as _re
        rep.check(rng is not None and _re.search(r'push_constant_ranges : & \[ #\w+ \]', ptxt) is not None, 'C13.at-most-one', f'single-range:{tq}', tw,
                  'push_constant_ranges is not a single optional range', ok_detail='&[<optional range>]')
        rts = E.find_templates(rng, lambda t: 'wgpu :: PushConstantRange {' in E.tmpl_text(t)) if rng is not None else []
        rep.check(rng is not None and rng[0] == 'opt' and len(rts) == 1, 'C13.wiring', f'templates:{tq}', tw,
                  f'the range hole is {E.show(rng, maxdepth=4) if rng else None}; expected an Option holding one `wgpu::PushConstantRange {{..}}` template', ok_detail='one optional range template')
        if rng is None or rng[0] != 'opt' or len(rts) != 1:
            continue
        rt = E.flatten(rts[0])
        rf = crate.fns.get(rt[3])
        where = f"{crate.relfile(rf['file'])} fn {rf['name']} (template at {rt[1]})" if rf else tw
        # ---- range shape ---------------------------------------------------------------------------------------------------------
        txt = E.tmpl_text(rt)
        hs = list(E.holes(rt).items())
        pr = find_struct_expr(txt, 'wgpu :: PushConstantRange')
        shape_ok = len(hs) == 1 and pr is not None and pr[1] is not None and set(pr[1]) == {'stages', 'range'} and pr[1]['stages'] == ('PUSH_CONSTANT_STAGES', None) and \
            pr[1]['range'] == ('0..#' + hs[0][0], None)
        rep.check(shape_ok, 'C13.range-shape', 'range-shape', where,
                  f'the range is `{txt}`; expected `wgpu::PushConstantRange {{ stages: PUSH_CONSTANT_STAGES, range: 0..#size }}` (start literal 0, stages by the exported constant)',
                  ok_detail=txt)
        if len(hs) != 1:
            rep.bad('C13.size', 'range-size', where, 'cannot identify the length of the range', undecided=True)
            continue
        size = hs[0][1]
        # ---- the selected global -------------------------------------------------------------------------------------------------
        founds = []
        E.walk(size, lambda x: founds.append(x) if x[0] == 'found' and not any(x == y for y in founds) else None)
        sel_ok, G, modT = False, None, None
        if len(founds) == 1:
            fs = founds[0][1]
            el = ('elem', fs[2], fs[1])
            want_c = ('eq', ('f', ('tf', el, 1), 'space'), ('path', 'naga::AddressSpace::PushConstant'))
            if fs[1][0] == 'f' and fs[1][2] == 'global_variables':
                modT = fs[1][1]
                sel_ok = fs[4] == [want_c] and fs[3] == el and not fs[5]
                G = ('tf', founds[0], 1)
                if not sel_ok and fs[4] == [want_c] and fs[3] == ('tf', el, 1) and not fs[5]:
                    # `.iter().map(|(_, g)| g).find(|g| g.space == PushConstant)`: the elements are the variables themselves
                    sel_ok = True
                    G = founds[0]
        rep.check(sel_ok, 'C13.selection', 'selected-global', where,
                  f'the push-constant variable is not selected from module.global_variables by `space == PushConstant` alone ({E.show(founds[0], maxdepth=6) if founds else E.show(size, maxdepth=6)})',
                  ok_detail='module.global_variables.find(space == PushConstant)')
        if G is None:
            for r_ in ('C13.size', 'C13.stages', 'C13.iff', 'C13.fallback'):
                rep.bad(r_, 'selected-global', where, 'cannot identify the selected push-constant variable, so this clause is not established', undecided=True)
            continue
        tyh = ('f', G, 'ty')
        inner = strip_cast(size[2][0]) if size[0] == 'call' and size[1].startswith('Literal::') and size[1].endswith('unsuffixed') and size[2] else None
        ok1 = inner == ('mcall', ('f', ('idx', ('f', modT, 'types'), tyh), 'inner'), 'size', [('mcall', modT, 'to_ctx', [])])
        ok2 = inner is not None and inner[0] == 'f' and inner[2] == 'size' and inner[1][0] == 'idx' and inner[1][2] == tyh and 'Layouter' in E.show(inner[1][1], maxdepth=4)
        rep.check(ok1 or ok2, 'C13.size', 'range-size', where,
                  f'the range length is {E.show(size, maxdepth=8)}; expected the byte size of the type of the selected variable, unmodified (TypeInner::size(ctx) or Layouter[ty].size), '
                  f'printed as an unsuffixed literal', ok_detail='0..size_of(type of the push-constant variable)')
        # ---- iff -----------------------------------------------------------------------------------------------------------------
        cs = E.find_templates(top, lambda t: 'pub const PUSH_CONSTANT_STAGES : wgpu :: ShaderStages = #' in E.tmpl_text(t))
        rep.check(len(cs) == 1, 'C13.wiring', f'stages-constant:{tq}', tw, f'{len(cs)} PUSH_CONSTANT_STAGES templates', ok_detail='one')
        if len(cs) != 1:
            rep.bad('C13.iff', f'const-iff-range:{tq}', tw, 'cannot find the PUSH_CONSTANT_STAGES item', undecided=True)
            rep.bad('C13.stages', 'stage-lookup', tw, 'cannot find the PUSH_CONSTANT_STAGES item', undecided=True)
            continue
        const_holder = []
        E.walk(top, lambda x: const_holder.append(x) if x[0] == 'opt' and E.find_templates(x[2], lambda t: t is cs[0]) else None)
        const_holder = [x for x in const_holder if not any(y is not x and contains(x[2], y) for y in const_holder)]     # the innermost Option holding the constant
        okw = len(const_holder) == 1 and const_holder[0][1] == rng[1]
        rep.check(bool(okw), 'C13.iff', f'const-iff-range:{tq}', tw,
                  'the PUSH_CONSTANT_STAGES constant and the range are not present under the same condition', ok_detail='both present iff a push-constant variable exists')
        # the presence condition is "some global has space PushConstant": truth table over that atom
        fs = founds[0][1]
        anys = []
        E.walk(rng[1], lambda x: anys.append(x) if x[0] == 'any' and x[1][0] == 'star' and x[1][1] == fs[1] and not any(x == y for y in anys) else None)
        ok_atom = False
        if len(anys) == 1:
            a = anys[0]
            el0 = ('elem', a[1][2], a[1][1])
            want_a = ('eq', ('f', ('tf', el0, 1), 'space'), ('path', 'naga::AddressSpace::PushConstant'))
            ok_atom = (a[2] == want_a and not a[1][4]) or (a[2] == TRUE and a[1][4] == [want_a])
        rows_ok = ok_atom
        if ok_atom:
            for val in (False, True):
                def leaf(t, val=val):
                    if t == ('t', anys[0]) or t == anys[0]:
                        return (val,)
                    return None
                try:
                    got = Eval(leaf, lenient=False).truth(rng[1])
                except (Unbound, Diverge):
                    got = None
                rows_ok = rows_ok and got == val
        rep.check(rows_ok, 'C13.iff', 'none-iff-absent', tw,
                  f'the range is not present exactly when some module-scope variable has address space PushConstant (condition {E.show(rng[1], maxdepth=6)})', ok_detail='present iff a push-constant variable exists')
        # ---- stage set -------------------------------------------------------------------------------------------------------------
        cst = list(E.holes(cs[0]).values())[0]
        arg = stages_argument(cst)
        nameT = ('f', G, 'name')
        gets = []
        if arg is not None:
            E.walk(arg, lambda x: gets.append(x) if x[0] == 'mcall' and x[2] == 'get' and not any(x == g for g in gets) else None)
        ok_map = len(gets) == 1 and gets[0][1][0] == 'new' and gets[0][1][1] in ('BTreeMap', 'HashMap') and gets[0][1][3] == () and gets[0][3] == [('unwrap', nameT)]
        rep.check(ok_map, 'C13.wiring', f'stage-map:{tq}', tw, 'the stage map consulted for the push constant is not the map computed by the stage walk, looked up under the name of the selected variable',
                  ok_detail='consults the walker\'s map under the variable\'s name')
        # the fallback: the value selected when the variable has no name
        fb = None
        if arg is not None:
            leafs = []

            def leaves(x):
                if x[0] == 'alt':
                    for _, v_ in x[1]:
                        leaves(v_)
                elif not any(x == y for y in leafs):
                    leafs.append(x)
            leaves(arg)
            others = [x for x in leafs if not (gets and x == ('unwrap', gets[0]))]
            fb = others[0] if len(others) == 1 else None
        ok_lookup = False
        if ok_map and fb is not None:
            getT = gets[0]
            want_arg = ('alt', [(('and', [('t', ('is_some', nameT)), ('t', ('is_some', getT))]), ('unwrap', getT)), (TRUE, fb)])
            ok_lookup = E.same_decision(arg, want_arg)
        rep.check(ok_lookup, 'C13.stages', 'stage-lookup', tw,
                  f'the stage set is {E.show(arg, maxdepth=8) if arg else None}; expected exactly `global_stages.get(name of the push-constant variable)` with fallback `entry_stages` '
                  f'(when the variable is used the set must be the map entry itself, no stage may be added)', ok_detail='stages = map.get(variable name) else entry stages')
        # fallback = union over all entry points of the stage table: evaluated on model entry-point lists
        eps_terms = []
        if fb is not None:
            E.walk(fb, lambda x: eps_terms.append(x) if x[0] == 'f' and x[2] == 'entry_points' else None)
        rows_ok = bool(eps_terms)
        detail = ''
        for stages_list in ([], ['Vertex'], ['Vertex', 'Fragment'], ['Compute', 'Compute', 'Fragment'], ['Fragment', 'Vertex', 'Compute']):
            eps = [V('naga::EntryPoint', name=f'e{i}', stage=V('naga::ShaderStage::' + s_), function=V('naga::Function', name=None, result=None, arguments=[])) for i, s_ in enumerate(stages_list)]

            def leaf(t, eps=eps):
                if eps_terms and t == eps_terms[0]:
                    return (eps,)
                return None
            ev = K.SkelEval(ogp, None, {}, '', None, extra_leaf=leaf)
            try:
                got = ev.norm_flags(ev.ev(fb)) if fb is not None else None
            except (Diverge, Unbound) as ex:
                got = f'<{ex}>'
            want = {s_.upper() for s_ in stages_list}
            if not (isinstance(got, Flags) and set(got.bits) == want):
                rows_ok = False
                detail = f'entry stages {stages_list} -> {got}'
        rep.check(rows_ok, 'C13.fallback', f'entry-stages:{tq}', tw,
                  f'the fallback stage set is not the union of the stages of all entry points ({detail or (E.show(fb, maxdepth=5) if fb else None)})',
                  ok_detail='all entry points, stage table Vertex/Fragment/Compute (evaluated on model entry lists)')
    rep.analysed = {'top_level': [t[0] for t in tops]}
    # "that set is the stages using the variable": the map consulted above is exact only if the stage walk is (C03's traversal, propagation and
    # seeding rules, evaluated in the same run)
    from common import include
    include(rep, 'c03', ('C03.1', 'C03.2', 'C03.3'), 'stage-walk')
    # the section reaches the assembled output unconditionally (shared rule, lib/sections.py)
    from sections import check_wiring
    check_wiring(rep, 'C13.section-wiring', ['PushConstantRange', 'PUSH_CONSTANT_STAGES', 'create_pipeline_layout'], 'push-constant-sections')


def contains(t, sub):
    hit = []
    E.walk(t, lambda x: hit.append(1) if x is sub else None)
    return bool(hit)


def strip_cast(t):
    """remove value-preserving casts of a u32 / usize quantity (to usize, u64, u32, u128, i64, i128); a narrowing cast (`as u8`, `as u16`, `as i32`,
    `as f32`) stays in place, so the comparison with the expected term fails and the truncation is reported"""
    while t[0] == 'cast' and t[2].replace(' ', '') in ('usize', 'u64', 'u32', 'u128', 'i64', 'i128'):
        t = t[1]
    return t
