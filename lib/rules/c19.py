"""C19 - formatter choice and formatter failure never change the program.

Decided clauses (resolved MIR, all paths):
  a  in the top-level function both printers are called in the two arms of the branch on the `rustfmt` option with the
     same TokenStream local, and nothing else is called in those arms;
  b  no panic-capable callee (unwrap/expect, indexing/slicing, explicit panic, checked arithmetic) anywhere in the formatter
     functions (everything reachable from the rustfmt-gated call); Option::unwrap on the child's piped stdin is accepted;
  c  every use of the captured formatter stdout as the result is dominated by the test of ExitStatus::success() (true
     edge), by a non-emptiness test of that stdout, and by a branch on the outcome of the write to the child's stdin;
  e  the text returned by the formatter functions is produced only by identity-like operations from the token string of
     the TokenStream parameter or from the captured stdout (no replace/trim/format/slicing/constant text), so every
     fallback is the same program.
Not decided: timing, slow formatter, pipe-buffer deadlock (OS scheduling); rustfmt preserving the token sequence."""
from engine_mir import Mir, op_local, op_place
from mirutil import feasible_reach, cname, method, guards, truthy_only, falsy_only, panic_sites, canon
from rules.c18 import rustfmt_gated

IDENTITY_OK = (
    '<T as std::string::ToString>::to_string', 'std::string::String::from_utf8', 'std::result::Result::<T, E>::ok',
    'std::option::Option::<T>::unwrap_or', 'std::option::Option::<T>::unwrap_or_else', 'std::option::Option::<T>::or',
    'std::option::Option::<T>::or_else', 'std::option::Option::<T>::take', 'std::option::Option::<T>::as_mut',
    'std::option::Option::<T>::as_ref', 'std::option::Option::<T>::ok_or', 'std::option::Option::<T>::filter',
    '<std::string::String as std::clone::Clone>::clone', '<std::string::String as std::ops::Deref>::deref',
    'core::str::<impl str>::as_bytes', 'std::string::String::as_bytes', 'std::string::String::as_str',
    'std::string::String::into_bytes', '<str as std::borrow::ToOwned>::to_owned', 'std::vec::Vec::<T, A>::is_empty',
    'std::vec::Vec::<T, A>::len', '<std::vec::Vec<T, A> as std::ops::Deref>::deref', 'std::hint::must_use',
    '<std::string::String as std::convert::From<&str>>::from', 'std::string::String::is_empty',
    '<proc_macro2::TokenStream as std::clone::Clone>::clone', 'std::mem::drop', 'std::mem::take',
    'std::result::Result::<T, E>::is_ok', 'std::result::Result::<T, E>::is_err', 'std::option::Option::<T>::is_some',
    'std::option::Option::<T>::is_none', 'std::result::Result::<T, E>::and_then', 'std::option::Option::<T>::and_then',
    'std::result::Result::<T, E>::map_err', 'std::option::Option::<T>::map', 'std::result::Result::<T, E>::map',
    'std::result::Result::<T, E>::unwrap_or', 'std::result::Result::<T, E>::unwrap_or_else',
)
IDENTITY_PREFIX = ('std::process::', 'std::io::Write::', '<std::option::Option<T> as std::ops::Try>',
                   '<std::result::Result<T, E> as std::ops::Try>', '<std::option::Option<T> as std::ops::FromResidual',
                   '<std::result::Result<T, F> as std::ops::FromResidual', '<std::process::', 'std::io::Read::',
                   '<std::process::ChildStdin as std::io::Write>', '<&std::process::ChildStdin as std::io::Write>')


def run(rep):
    mir = Mir()
    rep.explanation = __doc__
    rep.trusted = ['rustc nightly MIR + Instance resolution', 'std::process / OS pipe semantics',
                   'rustfmt and prettyplease print the token sequence they are given']
    import rules.c18 as c18
    c18._MIR[0] = mir
    from mirutil import local_is_field_value as local_from_field, place_reads_field
    spawners = {n for n, b in mir.bodies.items() if any(cname(t).startswith('std::process::') for _, t in b.calls())}
    pr = mir.callers_closure(spawners)
    unparsers = mir.callers_closure({n for n, b in mir.bodies.items() if any(cname(t) == 'prettyplease::unparse' for _, t in b.calls())})
    gated = []  # (body, bb, terminator): call of a formatter function on the true edge of a branch on the rustfmt option
    tops = []
    for tn in sorted(mir.bodies):
        T = mir.bodies[tn]
        for bb, t in T.calls():
            if cname(t) in pr and cname(t) in mir.bodies and cname(t) != tn and rustfmt_gated(T, bb, mir):
                gated.append((T, bb, t))
                if tn not in tops:
                    tops.append(tn)
    rep.floor('rustfmt-gated printer call', len(gated), 1)
    F = set()
    for T, bb, t in gated:
        F |= mir.reachable_fns([cname(t)])
    rep.analysed = {'top_level': tops, 'formatter_functions': sorted(F), 'bodies': len(mir.bodies)}
    # the options reach the generating function and its sections exactly as the caller gave them (shared MIR rule, lib/wrappers.py)
    from wrappers import check_option_passthrough
    check_option_passthrough(rep, 'C19.options-passthrough')
    # ---- a: same token stream to both printers ----------------------------------------------------------------
    for T, bb, t in gated:
        g = [x for x in guards(T, bb)]
        sw = None
        for x in g:
            blk = x['block']
            # the rustfmt switch is the nearest guard for which rustfmt_gated holds
            sw = blk
        # find the switch on the rustfmt option (read here, or handed in by every caller from WriteOptions.rustfmt)
        sw = None
        for cand in sorted(T.dominators()[bb], reverse=True):
            tt = T.blocks[cand]['term']
            if tt['k'] == 'switch':
                dp = op_place(tt['discr'])
                dl = op_local(tt['discr'])
                if (dp and place_reads_field(dp, 'WriteOptions', 'rustfmt')) or (dl is not None and local_from_field(mir, T, dl, 'WriteOptions', 'rustfmt')):
                    sw = cand
                    break
        if sw is None:
            rep.bad('C19.a.same-tokens', 'rustfmt-switch', T.where(bb), 'cannot find the branch on the rustfmt option', undecided=True)
            continue
        tt = T.blocks[sw]['term']
        false_t = [tgt for v, tgt in tt['targets'] if v == 0]
        true_t = tt['otherwise']
        r_true = T.reachable_from([true_t], avoid={sw})
        r_false = T.reachable_from(false_t, avoid={sw})
        only_true = r_true - r_false
        only_false = r_false - r_true
        calls_true = [(b, T.blocks[b]['term']) for b in sorted(only_true) if T.blocks[b]['term']['k'] == 'call']
        calls_false = [(b, T.blocks[b]['term']) for b in sorted(only_false) if T.blocks[b]['term']['k'] == 'call']
        pt = [(b, c) for b, c in calls_true if cname(c) in pr]
        pf = [(b, c) for b, c in calls_false if cname(c) in unparsers]
        ok = len(pt) == 1 and len(pf) == 1
        rep.check(ok, 'C19.a.two-printers', 'printers', T.where(sw),
                  f'expected exactly one formatter call on the rustfmt arm and one prettyplease printer call on the other arm; '
                  f'found {[cname(c) for _, c in calls_true]} / {[cname(c) for _, c in calls_false]}',
                  ok_detail=f'rustfmt arm: {[cname(c) for _, c in pt]}, other arm: {[cname(c) for _, c in pf]}')
        if ok:
            ra = canon(T, op_place(pt[0][1]['args'][0])) if op_place(pt[0][1]['args'][0]) else None
            rb = canon(T, op_place(pf[0][1]['args'][0])) if op_place(pf[0][1]['args'][0]) else None
            same = ra is not None and ra == rb and 'TokenStream' in T.locals[ra[0]]
            rep.check(same, 'C19.a.same-tokens', 'same-token-stream', T.where(pt[0][0]),
                      f'the two printers do not receive the same TokenStream local: {ra} vs {rb}: formatted and unformatted '
                      f'output could be different programs',
                      ok_detail=f'both printers receive local _{ra[0] if ra else "?"} ({T.locals[ra[0]] if ra else ""})')
            extra = [cname(c) for b, c in calls_true + calls_false if (b, c) not in pt + pf and
                     not cname(c).startswith(('<std::result::Result', 'std::mem::drop'))]
            rep.check(not extra, 'C19.a.nothing-else-in-arms', 'arms-only-print', T.where(sw),
                      f'additional calls inside the arms of the rustfmt branch: {extra}: the two variants of the output are no '
                      f'longer produced by the printers alone', ok_detail='arms contain only the printer calls')
    # ---- b: no panic-capable callee in the formatter functions ----------------------------------------------------
    n_b = 0
    for fn in sorted(F):
        body = mir.bodies[fn]
        sites = panic_sites(body, allow_arena=False)
        counter = {}
        for bb, why, what in sites:
            if what.endswith('Option::<T>::unwrap') or what.endswith('Option::<T>::expect'):
                if stdin_unwrap_ok(body, bb):
                    rep.ok('C19.b.no-panic', f'stdin-unwrap:{fn}', body.where(bb), 'unwrap of Child.stdin that was configured with Stdio::piped()')
                    continue
            counter[what] = counter.get(what, 0) + 1
            rep.bad('C19.b.no-panic', f'panic:{fn}:{what}' + (f'#{counter[what]}' if counter[what] > 1 else ''), body.where(bb),
                    f'{what} in formatter function {fn}: {why}; a missing, failing, killed or silent formatter must fall back '
                    f'to the unformatted program, never panic')
        n_b += 1
        if not sites:
            rep.ok('C19.b.no-panic', f'panic-free:{fn}', body.where(), f'{sum(1 for _ in body.calls())} call sites, no panic-capable callee')
    # ---- c: formatted output used only under success && non-empty && written --------------------------------------
    n_uses = 0
    # the guards may sit in a helper (run the formatter, return Some(output) only when the write succeeded) and the use in its caller, or
    # the other way round: each formatter function that no other formatter function calls is examined with its formatter callees
    # inlined (MIR level, branches on a helper's Option/Result correlated with the paths that construct each variant)
    from engine_mir import inlined
    cg = mir.call_graph()
    roots = [fn for fn in sorted(F) if not any(fn in cg.get(o, ()) for o in F if o != fn)] or sorted(F)
    covered = set()
    views = []
    for fn in roots:
        nb = inlined(mir, fn, depth=4, skip=[n for n in mir.bodies if n not in F])
        views.append((fn, nb))
        covered |= {fn} | {t.get('inlined') for blk in nb.blocks for t in [blk['term']] if t.get('inlined')}
    for fn in sorted(F - covered):
        views.append((fn, mir.bodies[fn]))
    for fn, body in views:
        for bb, what in stdout_uses(body):
            n_uses += 1
            gs = guards(body, bb)
            has_success = any(any(cname(c) == 'std::process::ExitStatus::success' for c in g['calls']) and truthy_only(g) for g in gs)
            has_nonempty = any(any(cname(c) in ('std::vec::Vec::<T, A>::is_empty', 'core::slice::<impl [T]>::is_empty', 'std::string::String::is_empty', 'core::str::<impl str>::is_empty')
                                   for c in g['calls']) and falsy_only(g) and any('.stdout' in p[1] for p in g['places']) for g in gs) or \
                any(any(method(cname(c)) == 'len' for c in g['calls']) and any('.stdout' in p[1] for p in g['places']) for g in gs)
            has_write = any(any(method(cname(c)) in ('write_all', 'write', 'write_fmt', 'copy') for c in deep_calls(mir, body, g['calls'])) for g in gs)
            key = f'stdout-use:{fn}'
            rep.check(has_success, 'C19.c.exit-status', key, body.where(bb),
                      f'captured formatter stdout is used ({what}) without being dominated by ExitStatus::success() == true: a '
                      f'formatter that fails or is killed after printing part of its output would yield truncated text',
                      ok_detail='dominated by ExitStatus::success() true edge')
            rep.check(has_nonempty, 'C19.c.non-empty', key, body.where(bb),
                      f'captured formatter stdout is used ({what}) without a dominating non-emptiness test: a formatter that '
                      f'exits 0 printing nothing would make the call return an empty program',
                      ok_detail='dominated by !stdout.is_empty()')
            rep.check(has_write, 'C19.c.write-outcome', key, body.where(bb),
                      f'captured formatter stdout is used ({what}) without a dominating branch on the outcome of writing the '
                      f'tokens to the child: if the child stopped reading early its output is not the whole program',
                      ok_detail='dominated by a branch on the write_all outcome')
    rep.floor('uses of captured formatter stdout', n_uses, 1)
    # ---- d: the child's stdin is closed before it is waited for ----------------------------------------------------------------
    # a formatter reads its input to end-of-file: if the handle taken out of `child.stdin` is still alive when wait() / wait_with_output()
    # is called, the child never sees EOF and the call hangs.  (A handle left inside `child.stdin` is closed by wait_with_output itself.)
    n_d = 0
    for fn, body in views:
        waits = [b for b, t in body.calls() if cname(t) in ('std::process::Child::wait_with_output', 'std::process::Child::wait')]
        holders = [i for i, ty in enumerate(body.locals) if 'ChildStdin' in ty and not ty.startswith(('&', '*')) and 'process::Child' not in ty.replace('ChildStdin', '')]
        for L in holders:
            gens, kills = set(), set()
            for b, blk in enumerate(body.blocks):
                for st in blk['stmts']:
                    if st['lhs']['l'] == L and not st['lhs']['p']:
                        gens.add(b)
                    if any(o.get('move', {}).get('l') == L for o in st['rv'].get('ops', []) if isinstance(o, dict)):
                        kills.add(b)
                t = blk['term']
                if t['k'] == 'call':
                    if t['dest']['l'] == L and not t['dest']['p']:
                        gens.add(t['target'] if t.get('target') is not None else b)
                    if any(isinstance(a, dict) and a.get('move', {}).get('l') == L for a in t['args']):
                        kills.add(b)
                if t['k'] == 'drop' and t['place']['l'] == L:
                    kills.add(b)
                # `match opt { None => .. }`: on the None edge of a switch on the holder's own discriminant nothing is held
                if t['k'] == 'switch' and 'Option<' in body.locals[L] and op_local(t['discr']) is not None:
                    dl = op_local(t['discr'])
                    if any(st['lhs']['l'] == dl and st['rv']['rk'] == 'discriminant' and st['rv']['place']['l'] == L and not st['rv']['place']['p'] for st in blk['stmts']):
                        for v, tgt in t['targets']:
                            if v == 0:
                                kills.add(tgt)
            for g in sorted(gens):
                n_d += 1
                if g in kills:
                    rep.ok('C19.d.stdin-closed', f'stdin-handed-on:{fn}', body.where(g), f'_{L} is moved on (or dropped) in the block that defines it')
                    continue
                succ = [x for x in body.succ(g)] if hasattr(body, 'succ') else None
                r = feasible_reach(body, [g], avoid=kills)       # a helper's `?` residual correlates with the caller's `?` on its result
                open_at = [w for w in waits if w in r]
                rep.check(not open_at, 'C19.d.stdin-closed', f'stdin-open-at-wait:{fn}', body.where(open_at[0] if open_at else g),
                          f'a handle to the child\'s stdin (local _{L}: {body.locals[L]}) taken in {fn} can still be alive when the child is waited for: the formatter never sees '
                          f'end-of-file on its input, so the call hangs', ok_detail=f'_{L} is dropped / moved before every wait')
    rep.floor('holders of the child stdin handle', n_d, 1)
    # .. and its stdout is drained while it is waited for: with stdout piped, a bare `wait()` (or a `try_wait` loop) before the output has been read
    # blocks for ever once the formatter has written more than the pipe buffer holds (64 KiB) - `wait_with_output()` reads while it waits
    for fn, body in views:
        piped_out = any(cname(t) == 'std::process::Command::stdout' for _, t in body.calls()) and any(cname(t) == 'std::process::Stdio::piped' for _, t in body.calls())
        bare = [(b, t) for b, t in body.calls() if cname(t) in ('std::process::Child::wait', 'std::process::Child::try_wait')]
        for b, t in bare:
            dom_ = body.dominators()[b]
            drained = any(method(cname(t2)) in ('read_to_end', 'read_to_string', 'copy', 'read_exact') and
                          any('ChildStdout' in body.locals[l_] for l_ in [op_local(a_) for a_ in t2['args']] if l_ is not None)
                          for b2, t2 in body.calls() if b2 in dom_ and b2 != b)
            rep.check(not piped_out or drained, 'C19.d.stdout-drained', f'wait-before-read:{fn}', body.where(b),
                      f'{cname(t).split("::")[-1]}() on the formatter child while its piped stdout has not been read: once the formatted text exceeds the pipe buffer the child blocks '
                      f'writing and this call blocks waiting - generation hangs', ok_detail='stdout read before the wait')
    if not any(cname(t) in ('std::process::Child::wait', 'std::process::Child::try_wait') for _, body in views for _, t in body.calls()):
        rep.ok('C19.d.stdout-drained', 'no-bare-wait', '', 'the child is only waited for by wait_with_output(), which drains stdout while waiting')
    # ---- e: returned text is an identity image of the tokens or of the captured stdout -----------------------------
    n_e = 0
    for fn, body in views:
        # a root of the formatter functions is judged with its helpers (a `Formatter` builder, staged checks) inlined; the helpers are judged there
        if 'String' not in body.locals[0]:
            continue
        n_e += 1
        # what configures the child (`Command::new(program).arg(..)`) is not text of the result: the slice stops at the command builder
        sl, calls, stmts = body.backward_slice([0], through_calls=True, cut=lambda t_: cname(t_).startswith('std::process::Command::'))
        bad = []
        for b, c in calls:
            cn = cname(c)
            if cn in F or cn in IDENTITY_OK or cn.startswith(IDENTITY_PREFIX):
                continue
            dty = body.locals[c['dest']['l']] if c.get('dest') else ''
            if not any(k_ in dty for k_ in ('String', 'str', 'u8', 'Output', 'Child', 'TokenStream', 'Cow', 'char', 'OsStr', 'Path', 'Vec', 'Box', 'dyn ', 'closure')):
                continue        # the value it yields cannot carry text (an error value built on a failure path: `ErrorKind::BrokenPipe.into()`)
            bad.append((b, cn))
        consts = []
        for b, st in stmts:
            for o in st['rv'].get('ops', []):
                if 'const' in o and o.get('ty', '').startswith('&') and 'str' in o.get('ty', '') and o['const'] not in ('const ""',):
                    consts.append((b, o['const']))
        seen = set()
        for b, cn in bad:
            if cn in seen:
                continue
            seen.add(cn)
            rep.bad('C19.e.identity-text', f'transform:{fn}:{cn}', body.where(b),
                    f'the text returned by formatter function {fn} depends on {cn}, which is not an identity-like operation on the '
                    f'token string / captured stdout: the fallback (or the formatted result) may then be a different program')
        for b, cs in consts:
            rep.bad('C19.e.identity-text', f'const-text:{fn}:{cs[:40]}', body.where(b),
                    f'constant text {cs[:60]} flows into the text returned by formatter function {fn}')
        if not bad and not consts:
            rep.ok('C19.e.identity-text', f'identity:{fn}', body.where(),
                   f'{len(calls)} calls in the backward slice of the return value, all identity-like or process plumbing')
    rep.floor('formatter functions returning text', n_e, 1)


def deep_calls(mir, body, calls):
    """the calls of a guard's definition chain, plus the calls made inside closures handed to them (`stdin.take().map(|mut s| s.write_all(..))`)"""
    out = list(calls)
    for c in calls:
        for a in c.get('args', []):
            l = op_local(a)
            if l is None or l >= len(body.locals) or 'closure' not in body.locals[l]:
                continue
            for _, kind, x in body.defs().get(l, []):
                if kind == 'assign' and x['rv']['rk'] == 'aggregate' and x['rv']['agg'].startswith('closure:'):
                    cb = mir.bodies.get(x['rv']['agg'][len('closure:'):])
                    if cb is not None:
                        out.extend(t for _, t in cb.calls())
    return out


def stdout_uses(body):
    """blocks where field `stdout` of std::process::Output is moved/copied somewhere other than an emptiness test.  A plain move of the bytes into
    a local (the parameter of an inlined helper: `formatted_output(output.stdout)`) is not yet a use: the local is followed"""
    out = []
    holders, seen = [], set()

    def is_stdout(p):
        return any(isinstance(e, dict) and e.get('f') == 'stdout' and 'process::Output' in e.get('adt', '') for e in p['p'])

    def holds(p):
        return is_stdout(p) or (p['l'] in seen and not p['p'])
    changed = True
    while changed:
        changed = False
        for b, blk in enumerate(body.blocks):
            for st in blk['stmts']:
                rv = st['rv']
                if rv['rk'] == 'use' and not st['lhs']['p'] and st['lhs']['l'] not in seen and st['lhs']['l'] != 0 and \
                        any(holds(p) for p in body.rvalue_places(rv)) and 'Vec<u8>' in body.locals[st['lhs']['l']] and len(body.defs().get(st['lhs']['l'], [])) == 1:
                    seen.add(st['lhs']['l'])
                    changed = True
    for b, blk in enumerate(body.blocks):
        for st in blk['stmts']:
            rv = st['rv']
            for p in body.rvalue_places(rv):
                if holds(p):
                    if rv['rk'] == 'ref':
                        # a borrow: look at what the reference is handed to
                        l = st['lhs']['l']
                        for b2, t2 in body.calls():
                            if any(op_local(a) == l for a in t2['args']) and method(cname(t2)) not in ('is_empty', 'len'):
                                out.append((b2, cname(t2)))
                    elif rv['rk'] == 'use' and not st['lhs']['p'] and st['lhs']['l'] in seen:
                        pass        # handed on to a local that is followed
                    else:
                        out.append((b, 'moved'))
        t = blk['term']
        if t['k'] == 'call':
            for a in t['args']:
                pl = op_place(a)
                if pl is not None and pl['l'] in seen and not pl['p']:
                    out.append((b, cname(t)))
    return out


def stdin_unwrap_ok(body, bb):
    t = body.blocks[bb]['term']
    sl, calls, stmts = body.backward_slice([op_local(a) for a in t['args'] if op_local(a) is not None])
    reads_stdin = any(any(isinstance(e, dict) and e.get('f') == 'stdin' and 'process::Child' in e.get('adt', '') for e in p['p'])
                      for _, st in stmts for p in body.rvalue_places(st['rv']))
    piped = False
    for b, c in body.calls():
        if cname(c) == 'std::process::Command::stdin':
            s2, c2, _ = body.backward_slice([op_local(a) for a in c['args'][1:] if op_local(a) is not None])
            if any(cname(x) == 'std::process::Stdio::piped' for _, x in c2):
                piped = True
    return reads_stdin and piped
