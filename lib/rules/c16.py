"""C16 - embedded shader source is byte-identical to the input.

Decided clause (structural, necessary): on the output grammar with provenance (Engine A) and the resolved MIR (Engine B):
  * `pub const SOURCE: &str = <h>;` where <h> is, selected solely by the presence of the include path, either the public
    function's `wgsl_source` parameter itself interpolated as a string (quote -> Literal::string) with an *empty conversion chain*
    (no trim / replace / lines / chunking / re-encoding anywhere between the public parameter and the hole), or
    `include_str!(<p>)` with <p> the public function's `wgsl_include_path` parameter unmodified;
  * the public functions hand their own parameters through unchanged (MIR: argument roots are the callers' parameters);
  * `create_shader_module` passes `Cow::Borrowed(SOURCE)` to `ShaderSource::Wgsl` in the descriptor given to the device;
  * the text parsed by the front end is the same parameter (C17 rule shared), and both printers receive the same tokens (C19).
Not decided: that proc-macro2's string literal escaping, syn's parsing and prettyplease/rustfmt's printing round-trip every string
(library law over all strings)."""
import engine_ogp as E
from engine_mir import Mir, op_place
from mirutil import cname, canon
from rules.c04 import hole_after_seq

TRUE = ('true',)


def run(rep):
    ogp = E.load()
    rep.explanation = __doc__
    rep.trusted = ['syn parser and the abstract semantics of Engine A; rustc MIR', 'proc-macro2 Literal::string escaping, syn parsing and prettyplease/rustfmt printing round-trip every string']
    crate = ogp.crate
    hits = []
    for q, v in ogp.summaries.items():
        for t in E.find_templates(v, lambda t: t[3] == q and 'pub const SOURCE : & str = #' in E.tmpl_text(t)):
            hits.append((q, t))
    rep.floor('SOURCE template', len(hits), 1)
    if not hits:
        return
    q, st = hits[0]
    st = E.flatten(st)
    f = crate.fns[q]
    where = f"{crate.relfile(f['file'])} fn {f['name']} (template at {st[1]})"
    txt = E.tmpl_text(st)
    src = hole_after_seq(st, 'pub const SOURCE : & str =')
    strs = [p for p in f['params'] if p['ty'].replace(' ', '') in ('&str', "&'astr")]
    opts = [p for p in f['params'] if p['ty'].replace(' ', '').startswith('Option<&')]
    rep.check(len(strs) == 1 and len(opts) == 1, 'C16.anchor', 'parameters', where, f'expected one &str source parameter and one Option<&str> include path, found {len(strs)}/{len(opts)}', ok_detail='(wgsl_source: &str, wgsl_include_path: Option<&str>)')
    if len(strs) != 1 or len(opts) != 1 or src is None:
        return
    S = ('param', q, strs[0]['pat']['name'])
    P = ('param', q, opts[0]['pat']['name'])
    want = ('alt', [(('t', ('is_some', P)), None), (TRUE, None)])
    dl = E.decision_list(src)       # if / match / early-return formulations of the same two-way choice normalise to one decision list
    ok_shape = len(dl) == 2 and dl[0][0] == [('t', ('is_some', P))] and dl[1][0] == []
    rep.check(ok_shape, 'C16.selection', 'source-selection', where,
              f'SOURCE is {E.show(src, maxdepth=6)}; expected a choice made solely by the presence of the include path', ok_detail='include path present ? include_str! : literal')
    if ok_shape:
        inc, emb = dl[0][1], dl[1][1]
        ok_inc = inc[0] == 'tmpl' and E.tmpl_text(inc).replace(' ', '') == 'include_str!(#' + list(E.holes(inc))[0] + ')' and list(E.holes(inc).values())[0] == ('unwrap', P)
        if not ok_inc and inc[0] == 'tmpl':
            # the macro call assembled from pieces (`quote!(#name!(#argument))` with name = format_ident!("include_str"), argument =
            # Literal::string(path)): the fixed parts are expanded statically, a string hole and Literal::string of the same text print alike
            import engine_skel as _K
            import re as _re
            xt = _K.static_expand(ogp, inc).replace(' ', '')
            dyn = [v_ for v_ in E.holes(E.flatten(inc)).values() if v_[0] != 'call' or v_[1] != 'Ident::new']
            dyn = [v_[2][0] if v_[0] == 'call' and v_[1] == 'Literal::string' else v_ for v_ in dyn]
            ok_inc = bool(_re.fullmatch(r'include_str!\(#\w+\)', xt)) and dyn == [('unwrap', P)]
        rep.check(ok_inc, 'C16.include-path', 'include-path', where,
                  f'the include variant is `{E.tmpl_text(inc) if inc[0] == "tmpl" else E.show(inc, maxdepth=4)}` with {E.show(list(E.holes(inc).values())[0], maxdepth=6) if inc[0] == "tmpl" and E.holes(inc) else None}; '
                  f'expected include_str!(<the given path, unmodified>)', ok_detail='include_str!(wgsl_include_path)')
        ok_emb = emb[0] == 'tmpl' and E.tmpl_text(emb) == '#' + list(E.holes(emb))[0] and list(E.holes(emb).values())[0] == S
        if not ok_emb and emb == ('call', 'Literal::string', [S]):
            ok_emb = True       # Literal::string(wgsl_source) is what interpolating the &str prints
        rep.check(ok_emb, 'C16.embedded-source', 'embedded-source', where,
                  f'the embedded variant is `{E.tmpl_text(emb) if emb[0] == "tmpl" else E.show(emb, maxdepth=4)}` with '
                  f'{E.show(list(E.holes(emb).values())[0], maxdepth=6) if emb[0] == "tmpl" and E.holes(emb) else None}; expected the wgsl_source parameter itself interpolated as one string '
                  f'literal (any trim/replace/chunk/re-encode changes the bytes)', ok_detail='quote!(#wgsl_source) with the parameter unmodified')
    import re as _re
    from tokrules import find_struct_expr
    fn_m = _re.search(r'pub fn create_shader_module \( (\w+) : & wgpu :: Device \) -> wgpu :: ShaderModule \{(.*)\}\s*$', txt)
    okd = False
    if fn_m:
        body = fn_m.group(2)
        dev = fn_m.group(1)
        d = find_struct_expr(body, 'wgpu :: ShaderModuleDescriptor')
        srcv = d[1].get('source') if d and d[1] else None
        direct = srcv == ('wgpu::ShaderSource::Wgsl', {'0': ('std::borrow::Cow::Borrowed', {'0': ('SOURCE', None)})})
        via = None
        if srcv and srcv[0] == 'wgpu::ShaderSource::Wgsl' and srcv[1] and srcv[1].get('0') and srcv[1]['0'][1] is None:
            var = srcv[1]['0'][0]
            via = _re.search(r'let ' + _re.escape(var) + r' = std :: borrow :: Cow :: Borrowed \( SOURCE \) ;', body) is not None
        okd = d is not None and (direct or via) and f'{dev} . create_shader_module ( wgpu :: ShaderModuleDescriptor' in body
    rep.check(okd, 'C16.device-source', 'device-source', where, 'create_shader_module does not hand Cow::Borrowed(SOURCE) to ShaderSource::Wgsl in the descriptor given to the device', ok_detail='ShaderSource::Wgsl(Cow::Borrowed(SOURCE))')
    rep.check(txt.count('SOURCE') == 2, 'C16.device-source', 'source-defined-once', where, 'SOURCE is defined / used an unexpected number of times', ok_detail='defined once, used once')
    # ---- MIR: public wrappers pass their parameters through unchanged ------------------------------------------------------------------
    mir = Mir()
    short = q.replace('crate::', '')
    callers = 0
    # (function, index of its source parameter, index of its include-path parameter) - followed upwards to the public functions
    real = [p['pat']['name'] for p in f['params'] if not p.get('synthetic')]

    def pref(name):
        # a parameter of its own, or a field of a parameter that bundles the text arguments (`source: ShaderSource { wgsl_source, wgsl_include_path }`)
        return (real.index(name), None) if name in real else (real.index(name.split('.', 1)[0]), name.split('.', 1)[1])

    def arg_of(cb, t, ref):
        i, fld = ref
        a = t['args'][i] if i < len(t['args']) else None
        if fld is None or a is None or not op_place(a):
            return a
        root = canon(cb, op_place(a))
        for _, kind, x in cb.defs().get(root[0], []):
            if kind == 'assign' and x['rv']['rk'] == 'aggregate' and fld in (x['rv'].get('fields') or []) and not x['lhs']['p']:
                return x['rv']['ops'][x['rv']['fields'].index(fld)]
        return None
    work = [(short, pref(strs[0]['pat']['name']), pref(opts[0]['pat']['name']))]
    done = set()
    while work:
        fn, si, pi = work.pop()
        if fn in done:
            continue
        done.add(fn)
        for cn, cb in sorted(mir.bodies.items()):
            for bb, t in cb.calls():
                if cname(t) != fn:
                    continue
                callers += 1
                a = arg_of(cb, t, si)
                if a is None:
                    rep.bad('C16.wrapper-passthrough', f'source:{cn}', cb.where(bb), f'cannot find the source text among the arguments {cn} hands to {fn}', undecided=True)
                    continue
                r = canon(cb, op_place(a)) if op_place(a) else None
                ok = r is not None and 1 <= r[0] <= cb.arg_count and r[1] in ('', '&', '*') and 'str' in cb.locals[r[0]]
                rep.check(ok, 'C16.wrapper-passthrough', f'source:{cn}', cb.where(bb),
                          f'{cn} does not pass its own source parameter unchanged to {fn} (root {r}): the embedded text differs from the caller\'s input', ok_detail='source forwarded unchanged')
                a2 = arg_of(cb, t, pi)
                if a2 is None:
                    rep.bad('C16.wrapper-passthrough', f'include-path:{cn}', cb.where(bb), f'cannot find the include path among the arguments {cn} hands to {fn}', undecided=True)
                    continue
                okp = 'const' in a2
                nxt_pi = None
                if not okp and op_place(a2):
                    r2 = canon(cb, op_place(a2))
                    if r2 and 1 <= r2[0] <= cb.arg_count and r2[1] in ('', '&', '*'):
                        okp = True          # its own Option<&str> parameter, handed through
                        nxt_pi = r2[0] - 1
                    l = op_place(a2)['l']
                    for _, kind, x in cb.defs().get(l, []):
                        if kind == 'assign' and x['rv']['rk'] == 'aggregate' and x['rv']['agg'].endswith('Option::Some'):
                            r3 = canon(cb, op_place(x['rv']['ops'][0])) if op_place(x['rv']['ops'][0]) else None
                            okp = r3 is not None and 1 <= r3[0] <= cb.arg_count and r3[1] in ('', '&', '*')
                        if kind == 'assign' and x['rv']['rk'] == 'aggregate' and x['rv']['agg'].endswith('Option::None'):
                            okp = True
                rep.check(okp, 'C16.wrapper-passthrough', f'include-path:{cn}', cb.where(bb),
                          f'{cn} does not pass None / Some(its own path parameter) / its own Option parameter unchanged as the include path', ok_detail='include path forwarded unchanged')
                if ok and not cb.j['pub'] and nxt_pi is not None:
                    work.append((cn, (r[0] - 1, None), (nxt_pi, None)))
    rep.floor('public wrappers calling the generating function', callers, 2)
    from common import include
    include(rep, 'c17', ('C17.1.parse-input',), 'parsed-text-is-the-input')
    # the literal must survive printing: both printers get the same tokens and the text they return is handed back unmodified
    include(rep, 'c19', ('C19.a', 'C19.e'), 'printed-text-unmodified')
    rep.analysed = {'function': q, 'template': st[1], 'wrappers': callers}
    # the section reaches the assembled output unconditionally (shared rule, lib/sections.py)
    from sections import check_wiring
    check_wiring(rep, 'C16.section-wiring', ['include_str !', 'SOURCE'], 'source-section')
