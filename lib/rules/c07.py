"""C07 - vertex buffer layouts mirror the vertex input structs.

Decided on the output grammar with provenance (Engine A), anchored by role in the output language:
  A  attribute template (`wgpu::VertexAttribute {`): one attribute per member of the argument struct whose binding is
     Binding::Location (builtins contribute none; no other filter); `shader_location` = that member's location,
     `offset` = offset_of!(<this struct>, <that member's name>), `format` = the format table applied to that member's type;
     the array length is the length of the same list; `impl`, `size_of::<..>` (stride) and `&..::VERTEX_ATTRIBUTES` all name
     the struct itself; `step_mode` is the caller's parameter;
  B  format table, exhaustive over its reachable domain ({i32,u32,f32,f64} x {scalar,vec2,vec3,vec4}): the chosen
     wgpu::VertexFormat exists and denotes the same scalar kind, width and component count (NumericType::from_vertex_format /
     VertexFormat::size in wgpu-core are by-name for these formats);
  C  the impl blocks are generated once per struct: the list of vertex input structs of all vertex entries may be sorted and
     de-duplicated only as sort(key) followed by dedup(same key) (adjacent-only dedup is otherwise not enough), and is not
     filtered afterwards;
  D  per-entry helper (`-> VertexEntry<#n>`): one `S::vertex_buffer_layout(p)` per struct argument of that entry, in argument
     order (no sort/dedup), filtered only by "has no binding" and "is a struct"; each step-mode parameter is declared by the same
     iteration that produces its layout expression (same position); `n` is the length of the same list.
Not decided: wgpu's vertex-buffer validation of stride/alignment (follows from repr(C) + offset_of!/size_of on 4/8-byte scalars);
vertex inputs given as direct @location parameters are outside the property's domain (documented TODO, pinned by a snapshot)."""
import json
import engine_ogp as E
import schema as S
import leaf_tables as LT
from conc import Eval, V, Diverge, Unbound
from rules.c02 import hole_after, collect_scrutinees
from rules.c04 import hole_after_seq

TRUE = ('true',)


def strip_reorder(t):
    chain = []
    while t[0] == 'reorder':
        chain.append(t)
        t = t[1]
    return t, chain


def closure_key(c):
    """structural key of a closure literal (AST without line numbers)"""
    def scrub(x):
        if isinstance(x, dict):
            return {k: scrub(v) for k, v in x.items() if k != 'line'}
        if isinstance(x, list):
            return [scrub(v) for v in x]
        return x
    return json.dumps(scrub(c[1]), sort_keys=True) if c and c[0] == 'closure' else repr(c)


def mentions(t, sub):
    if t == sub:
        return True
    if isinstance(t, (tuple, list)):
        return any(mentions(x, sub) for x in t)
    return False


def order_key(ogp, entry):
    """the key by which a sort / dedup step of a `reorder` chain compares elements, as a term over the symbolic element A:
    sort_by_key(|s| K) / dedup_by_key(|s| K) -> K;  sort_by(|a, b| K(a).cmp(&K(b))) -> K;  dedup_by(|a, b| K(a) == K(b)) -> K;
    sort() / dedup() -> the element itself; None when the closure is of another shape"""
    A, B = ('param', '$key', 'a'), ('param', '$key', 'b')
    m, args = entry[2], entry[3]

    def swap(t):
        if isinstance(t, tuple):
            if t == B:
                return A
            return tuple(swap(x) for x in t)
        if isinstance(t, list):
            return [swap(x) for x in t]
        return t
    if not args:
        return A if m in ('sort', 'dedup', 'sort_unstable') else None
    clo = args[0]
    if not (isinstance(clo, tuple) and clo and clo[0] == 'closure'):
        return None
    try:
        if m == 'dedup_all_by_key':
            r = ogp.it.apply_detached(clo, [A])
            r = r[1] if r[0] == 't' else r
            return r[3][0] if r[0] == 'mcall' and r[2] == 'insert' and len(r[3]) == 1 else None
        if m in ('sort_by_key', 'dedup_by_key', 'sort_unstable_by_key'):
            return ogp.it.apply_detached(clo, [A])
        r = ogp.it.apply_detached(clo, [A, B])
    except Exception:
        return None
    if m in ('sort_by', 'sort_unstable_by') and r[0] == 'mcall' and r[2] in ('cmp',) and len(r[3]) == 1 and swap(r[3][0]) == r[1] and not mentions(r[1], B):
        return r[1]
    if m == 'dedup_by' and r[0] == 'eq' and swap(r[2]) == swap(r[1]):
        return swap(r[1])
    return None


def run(rep):
    ogp = E.load()
    sch = S.load()
    rep.explanation = __doc__
    rep.trusted = ['syn parser and the abstract semantics of Engine A', 'wgpu-core NumericType::from_vertex_format / VertexFormat::size are by-name for the 16 reachable formats',
                   'rustc: repr(C) + offset_of!/size_of']
    crate = ogp.crate
    # ---- A: attribute template ---------------------------------------------------------------------------------------------------
    hits = E.repetition_anchor(ogp, lambda t: 'pub const VERTEX_ATTRIBUTES' in E.tmpl_text(t))
    rep.floor('vertex impl template (VERTEX_ATTRIBUTES / vertex_buffer_layout)', len(hits), 1)
    if not hits:
        return
    q, it, _s = hits[0]
    it_flat = E.flatten(it)
    f = crate.fns[q]
    where = f"{crate.relfile(f['file'])} fn {f['name']} (template at {it[1]})"
    summ = ogp.summaries[q]
    outer = [_s]
    os_ = outer[0]
    base, chain = strip_reorder(os_[1])
    # C: sort + dedup discipline
    rep.check(not os_[4] and not os_[5], 'C07.C.impl-list', 'impl-list-unfiltered', where,
              f'the list of vertex input structs is filtered ({[E.show(c, maxdepth=4) for c in os_[4]]}) before the impl blocks are generated: a struct parameter may get no attribute table / layout function',
              ok_detail='every collected struct gets an impl block')
    names = [c[2] for c in chain]
    if names:
        # chain is outermost first: dedup(outer) wraps sort(inner)
        k_d, k_s = (order_key(ogp, chain[0]), order_key(ogp, chain[1])) if len(chain) == 2 else (None, None)
        ok = len(chain) == 2 and chain[0][2].startswith('dedup') and chain[1][2].startswith('sort') and \
            k_d is not None and k_d == k_s and chain[0][4] == TRUE and chain[1][4] == TRUE
        if len(chain) == 1 and chain[0][2] == 'dedup_all_by_key' and chain[0][4] == TRUE:
            # order-preserving: `retain(|s| seen.insert(key(s)))` with a set that nothing else fills removes every repeat, adjacent or not
            seen_set = chain[0][3][1]
            others = [e_ for q_, effs_ in ogp.effects.items() for e_ in effs_ if e_['kind'] == 'mutate' and e_.get('target') == seen_set]
            k_d = order_key(ogp, chain[0])
            ok = k_d is not None and not others
            k_s = k_d
        # the key identifies the struct: it is the field of the collected record that holds the WGSL type's own name (two different structs
        # must never compare equal, or one of them loses its impl block)
        if ok:
            recs = []
            E.walk(base, lambda x: recs.append(x) if x[0] == 'struct' and isinstance(x[2], dict) else None)
            A_ = ('param', '$key', 'a')
            kf = k_d[2] if k_d[0] == 'f' and k_d[1] == A_ else None
            named = []
            for r_ in recs:
                if kf in r_[2]:
                    E.walk(r_[2][kf], lambda x: named.append(x) if x[0] == 'f' and x[2] == 'name' and x[1][0] == 'idx' and x[1][1][0] == 'f' and x[1][1][2] == 'types' else None)
            rep.check(kf is not None and bool(named), 'C07.C.dedup-key', 'dedup-key', where,
                      f'vertex input structs are de-duplicated by {E.show(k_d, maxdepth=4)}, which is not the WGSL struct\'s own name: two different structs can compare equal and one of them '
                      f'loses its impl block (attribute table and layout function)', ok_detail='de-duplicated by the struct name')
        rep.check(ok, 'C07.C.sort-then-dedup', 'sort-then-dedup', where,
                  f'shared vertex input structs are de-duplicated by {list(reversed(names))}: only `sort_by_key(k)` followed by `dedup_by_key(k)` with the same key removes non-adjacent repeats '
                  f'(a struct used by several entries would get two impl blocks)', ok_detail='sort_by_key(name) then dedup_by_key(name)')
    else:
        rep.bad('C07.C.sort-then-dedup', 'sort-then-dedup', where, 'vertex input structs of several entries are not de-duplicated: a shared struct gets one impl block per use')
    # the collected list: vertex entries x struct arguments
    ok_base = base[0] == 'star' and base[1][0] == 'f' and base[1][2] == 'entry_points' and base[5]
    inner = None
    if ok_base:
        ee = ('elem', base[2], base[1])
        stage_ok = len(base[4]) == 1 and is_vertex_cond(base[4][0], ee)
        rep.check(stage_ok, 'C07.C.vertex-entries', 'vertex-entries', where, f'structs are collected from entries filtered by {[E.show(c, maxdepth=5) for c in base[4]]}; expected stage == Vertex only',
                  ok_detail='all vertex entry points')
        inner, ich = strip_reorder(base[3])
        if inner[0] != 'star':
            inner = None
    if inner is None:
        rep.bad('C07.anchor', 'collected-structs', where, f'cannot recognise the collection of vertex input structs ({E.show(os_[1], maxdepth=4)})', undecided=True)
        return
    arg = ('elem', inner[2], inner[1])
    argty = ('idx', ('f', base[1][1], 'types'), ('f', arg, 'ty'))
    check_arg_filter(rep, inner, arg, argty, 'C07.C.struct-arguments', where, ('f', ('f', ('elem', base[2], base[1]), 'function'), 'arguments'))
    SNAME = ('call', 'Ident::new', [('unwrap', ('f', argty, 'name'))])
    members = ('vf', ('f', argty, 'inner'), 'naga::TypeInner::Struct', 'members')
    # template holes
    txt = E.tmpl_text(it_flat)
    nm = hole_after_seq(it_flat, 'impl')
    rep.check(nm == SNAME, 'C07.A.struct-name', 'impl-name', where, f'impl block is for {E.show(nm, maxdepth=6)}; expected the argument struct\'s own name', ok_detail='impl <struct name>')
    sz = hole_after_seq(it_flat, 'array_stride : std :: mem :: size_of ::<')
    rep.check(sz == SNAME and 'array_stride : std :: mem :: size_of ::< #' in txt and '> ( ) as u64' in txt, 'C07.A.stride', 'stride', where,
              f'array_stride is not size_of::<this struct>() ({E.show(sz, maxdepth=5) if sz else None})', ok_detail='array_stride = size_of::<struct>() as u64')
    va = hole_after_seq(it_flat, 'attributes : &')
    rep.check(va == SNAME and ':: VERTEX_ATTRIBUTES' in txt, 'C07.A.struct-name', 'attributes-ref', where, 'attributes does not refer to this struct\'s VERTEX_ATTRIBUTES', ok_detail='&<struct>::VERTEX_ATTRIBUTES')
    rep.check('step_mode : wgpu :: VertexStepMode ) ->' in txt and ', step_mode ,' in txt.replace('step_mode , attributes', ', step_mode , attributes'), 'C07.A.step-mode', 'step-mode', where,
              'vertex_buffer_layout does not pass the caller\'s step_mode through', ok_detail='step_mode forwarded')
    # attribute repetition
    astars = []
    E.walk(it, lambda x: astars.append(x) if x[0] == 'star' and E.find_templates(x[3], lambda y: 'wgpu :: VertexAttribute {' in E.tmpl_text(y)) else None)
    if len(astars) != 1:
        rep.bad('C07.anchor', 'attribute-repetition', where, f'{len(astars)} repetitions produce vertex attributes', undecided=True)
        return
    a = astars[0]
    m = ('elem', a[2], a[1])
    rep.check(a[1] == members and not a[5], 'C07.A.one-per-member', 'attribute-source', where,
              f'attributes are generated from {E.show(a[1], maxdepth=6)}; expected the members of this argument\'s struct type', ok_detail='for member in struct.members')
    loc_only = len(a[4]) >= 1 and location_filter(a[4][0] if len(a[4]) == 1 else ('and', list(a[4])), m)
    rep.check(loc_only, 'C07.A.one-per-member', 'attribute-filter', where,
              f'attribute members are filtered by {[E.show(c, maxdepth=7) for c in a[4]]}; expected exactly "binding is Location" (builtins skipped, nothing else)',
              ok_detail='filter: Binding::Location only')
    at = E.find_templates(a[3], lambda y: 'wgpu :: VertexAttribute {' in E.tmpl_text(y))[0]
    loc = hole_after(at, 'shader_location :')
    want_loc = ('vf', ('unwrap', ('f', m, 'binding')), 'naga::Binding::Location', 'location')
    okl = loc is not None and loc[0] == 'hole' and loc[2][0] == 'call' and loc[2][1].startswith('Literal::') and strip_cast(loc[2][2][0]) == want_loc
    rep.check(okl, 'C07.A.location', 'shader-location', where, f'shader_location is {E.show(loc[2], maxdepth=7) if loc else None}; expected this member\'s @location', ok_detail='member.binding.location')
    attxt = E.tmpl_text(at)
    offs = E.find_templates(at, lambda y: False)
    o1 = hole_after_seq(at, 'offset : std :: mem :: offset_of ! (')
    items = at[2]
    o2 = None
    for i, x in enumerate(items):
        if x[0] == 'hole' and x[2] == o1 and i + 2 < len(items) and items[i + 1] == ('tok', ',') and items[i + 2][0] == 'hole':
            o2 = items[i + 2][2]
    want_field = ('unwrap', ('mcall', ('unwrap', ('f', m, 'name')), 'parse', []))
    okf = o2 == want_field or o2 == ('call', 'Ident::new', [('unwrap', ('f', m, 'name'))])
    rep.check(o1 == SNAME and okf and ') as u64' in attxt, 'C07.A.offset', 'offset', where,
              f'offset is offset_of!({E.show(o1, maxdepth=4) if o1 else None}, {E.show(o2, maxdepth=5) if o2 else None}); expected (this struct, this member\'s name)',
              ok_detail='offset_of!(struct, member.name) as u64')
    cnt = hole_after_seq(it_flat, '[ wgpu :: VertexAttribute ;')
    okc = cnt is not None and cnt[0] == 'call' and cnt[1].startswith('Literal::') and cnt[2][0][0] == 'mcall' and cnt[2][0][2] == 'len' and same_star(cnt[2][0][1], a)
    rep.check(okc, 'C07.A.count', 'attribute-count', where, f'the attribute array length is {E.show(cnt, maxdepth=5) if cnt else None}; expected the length of the same attribute list', ok_detail='len(same list)')
    # ---- B: format table ----------------------------------------------------------------------------------------------------------
    fm = hole_after(at, 'format : wgpu :: VertexFormat ::')
    scr = collect_scrutinees(fm[2]).get('TypeInner', []) if fm is not None and fm[0] == 'hole' else []
    want_scr = ('f', ('idx', ('f', base[1][1], 'types'), ('f', m, 'ty')), 'inner')
    rep.check(len(scr) >= 1 and scr[0] == want_scr, 'C07.B.format-of-member', 'format-scrutinee', where,
              f'the format is not computed from the type of the same member ({E.show(scr[0], maxdepth=6) if scr else None})', ok_detail='vertex_format(module.types[member.ty])')
    n = 0
    vfs = set(sch.variants('wgpu::VertexFormat'))
    if scr and scr[0] == want_scr:
        for label, inner_v, (cn, k, w) in LT.vertex_format_points():
            def leaf(t, inner_v=inner_v):
                return (inner_v,) if t == want_scr else None
            key = f'format:{label}'
            try:
                import engine_skel as _K
                got = _K.table_ev(ogp, leaf, fm[2])
            except Diverge:
                rep.bad('C07.B.format-table', key, where, f'a vertex attribute of type {label} makes the generator panic (the property lists it as supported)')
                continue
            except Unbound as u:
                rep.bad('C07.B.format-table', key, where, f'cannot look up the format table at {label}: {u}', undecided=True)
                continue
            n += 1
            exp = LT.expected_vertex_format(cn, k, w)
            rep.check(got == exp and got in vfs, 'C07.B.format-table', key, where,
                      f'{label} is given vertex format {got}; expected {exp} (same scalar kind, width and component count)', ok_detail=got)
    rep.floor('vertex format table rows', n, 16)
    # ---- D: per-entry helper ----------------------------------------------------------------------------------------------------------
    eh = E.repetition_anchor(ogp, lambda t: '-> VertexEntry < #' in E.tmpl_text(t))
    rep.floor('vertex entry helper template', len(eh), 1)
    for q2, ht, _s2 in eh[:1]:
        ht_flat = E.flatten(ht)
        f2 = crate.fns[q2]
        w2 = f"{crate.relfile(f2['file'])} fn {f2['name']} (template at {ht[1]})"
        s2 = ogp.summaries[q2]
        es = [_s2]
        e_s = es[0]
        ent = ('elem', e_s[2], e_s[1])
        ok = e_s[1][0] == 'f' and e_s[1][2] == 'entry_points' and len(e_s[4]) == 1 and is_vertex_cond(e_s[4][0], ent) and not e_s[5]
        rep.check(ok, 'C07.D.vertex-entries', 'helper-per-vertex-entry', w2, f'helpers are generated for entries filtered by {[E.show(c, maxdepth=5) for c in e_s[4]]}', ok_detail='one helper per vertex entry')
        ls = []
        E.walk(ht, lambda x: ls.append(x) if x[0] == 'star' and E.find_templates(x[3], lambda y: ':: vertex_buffer_layout (' in E.tmpl_text(y)) else None)
        if len(ls) != 1:
            rep.bad('C07.anchor', 'layout-repetition', w2, f'{len(ls)} repetitions produce buffer layouts', undecided=True)
            continue
        l = ls[0]
        args = ('f', ('f', ent, 'function'), 'arguments')
        rep.check(l[1] == args and not l[5], 'C07.D.argument-order', 'buffers-source', w2,
                  f'buffers are generated from {E.show(l[1], maxdepth=6)}; expected this entry\'s function.arguments in order (no sort / dedup / shared list): buffer slots and step modes would be permuted',
                  ok_detail='for argument in entry.function.arguments (in order)')
        a2 = ('elem', l[2], l[1])
        ty2 = ('idx', ('f', e_s[1][1], 'types'), ('f', a2, 'ty'))
        if l[1] == args:
            check_arg_filter(rep, l, a2, ty2, 'C07.D.struct-arguments', w2, args)
        lt = E.find_templates(l[3], lambda y: ':: vertex_buffer_layout (' in E.tmpl_text(y))[0]
        hv = list(E.holes(lt).values())
        S2 = ('call', 'Ident::new', [('unwrap', ('f', ty2, 'name'))])
        rep.check(len(hv) == 2 and hv[0] == S2 and E.tmpl_text(lt).split()[1:] == ['::', 'vertex_buffer_layout', '(', '#' + list(E.holes(lt))[1], ')'], 'C07.D.layout-expression', 'layout-expression', w2,
                  f'layout expression is `{E.tmpl_text(lt)}` with {[E.show(x, maxdepth=5) for x in hv]}', ok_detail='<struct>::vertex_buffer_layout(<step mode parameter>)')
        step = hv[1] if len(hv) == 2 else None
        # parameters: an accumulator pushed by the same iteration
        accs = []
        E.walk(ht, lambda x: accs.append(x) if x[0] == 'acc' else None)
        accs = list({a_[1] for a_ in accs})
        okp = False
        detail = 'no step-mode parameter list found'
        for aid in accs:
            ent_ = ogp.accs[aid]['entries']
            pushes = [en for en in ent_ if en['val'][0] == 'tmpl' and ': wgpu :: VertexStepMode' in E.tmpl_text(en['val'])]
            if len(pushes) == 1 and len(ent_) == 1:
                p = pushes[0]
                same_loop = any(lp[0] == l[2] for lp in p['loops'])
                pv = list(E.holes(p['val']).values())
                okp = same_loop and pv == [step]
                detail = f'pushed in loops {[lp[0] for lp in p["loops"]]} with {[E.show(x, maxdepth=5) for x in pv]}'
        if not okp:
            # iterator-chain form: a repetition over the same list whose body is the parameter template with the same identifier
            ps = []
            E.walk(ht, lambda x: ps.append(x) if x[0] == 'star' and x is not l and E.find_templates(x[3], lambda y: ': wgpu :: VertexStepMode' in E.tmpl_text(y)) else None)
            for p_ in ps:
                pts = E.find_templates(p_[3], lambda y: ': wgpu :: VertexStepMode' in E.tmpl_text(y))
                pv = list(E.holes(pts[0]).values())
                stepr = E.Interp.rename_elem(None, step, l[2], p_[2])
                if same_star(p_, l) and pv == [stepr]:
                    okp = True
                    detail = 'repetition over the same argument list'
        rep.check(okp, 'C07.D.step-mode-params', 'step-mode-params', w2,
                  f'step-mode parameters are not declared by the same iteration (same order, same identifier) as the layout expressions: {detail}',
                  ok_detail='one `p: wgpu::VertexStepMode` per layout expression, same iteration')
        nn = hole_after_seq(ht_flat, '-> VertexEntry <')
        okn = nn is not None and nn[0] == 'call' and nn[1].startswith('Literal::') and nn[2][0][0] == 'mcall' and nn[2][0][2] == 'len' and same_star(nn[2][0][1], l)
        rep.check(okn, 'C07.D.buffer-count', 'buffer-count', w2, f'VertexEntry<N>: N is {E.show(nn, maxdepth=5) if nn else None}; expected the length of the same argument list', ok_detail='N = number of struct arguments')
    rep.analysed = {'impl_function': q, 'helper_functions': [x[0] for x in eh]}
    # the section reaches the assembled output unconditionally (shared rule, lib/sections.py)
    from sections import check_wiring
    check_wiring(rep, 'C07.section-wiring', ['VERTEX_ATTRIBUTES', 'VertexEntry <'], 'vertex-sections')
    # the vertex entry helper is usable only if the entry-name constant it refers to is the one that is defined (C14's sibling-agreement rule)
    from common import include
    include(rep, 'c14', ('C14.entry-constants',), 'entry-constant-defined')


def strip_cast(t):
    """remove value-preserving casts of a u32 / usize quantity (to usize, u64, u32, u128, i64, i128); a narrowing cast (`as u8`, `as u16`, `as i32`,
    `as f32`) stays in place, so the comparison with the expected term fails and the truncation is reported"""
    while t[0] == 'cast' and t[2].replace(' ', '') in ('usize', 'u64', 'u32', 'u128', 'i64', 'i128'):
        t = t[1]
    return t


def is_vertex_cond(c, ent):
    if c == ('eq', ('f', ent, 'stage'), ('path', 'naga::ShaderStage::Vertex')):
        return True
    if c[0] == 'alt':
        live = [(a, b) for a, b in c[1] if b != ('false',)]
        return len(live) == 1 and live[0] == (('is', ('f', ent, 'stage'), 'naga::ShaderStage::Vertex'), TRUE)
    return c == ('is', ('f', ent, 'stage'), 'naga::ShaderStage::Vertex')


def location_filter(c, m):
    """the member filter keeps exactly Binding::Location"""
    pos, neg = E.cond_facts(c)
    b = ('unwrap', ('f', m, 'binding'))
    return ('is', b, 'naga::Binding::Location') in pos and all(x == ('is', b, 'naga::Binding::BuiltIn') for x in neg) and len(pos) == 1


def check_arg_filter(rep, star, arg, argty, rule, where, want_src):
    rep.check(star[1] == want_src, rule, 'arguments-source', where, f'struct arguments are taken from {E.show(star[1], maxdepth=6)}', ok_detail='entry.function.arguments')
    pos, neg = [], []
    for c in star[4]:
        E.cond_facts(c, pos, neg)
    want_pos = [('is', ('f', argty, 'inner'), 'naga::TypeInner::Struct')]
    want_neg = [('t', ('is_some', ('f', arg, 'binding')))]
    ok = all(any(p == w for p in pos) for w in want_pos) and all(any(n == w for n in neg) for w in want_neg) and len(pos) == 1 and len(neg) == 1
    rep.check(ok, rule, 'arguments-filter', where,
              f'arguments are filtered by {[E.show(c, maxdepth=6) for c in star[4]]}; expected exactly "has no binding" and "type is a struct"', ok_detail='filter: binding.is_none() && struct')


def same_star(t, s):
    """t is the same iteration (source + filters) as star s, up to the element id and the body"""
    if t[0] != 'star':
        return False
    return t[1] == s[1] and E.Interp.rename_elem(None, t[4], t[2], s[2]) == s[4] and t[5] == s[5]
