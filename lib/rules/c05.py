"""C05 - bytemuck layout checks make a compiling struct match the WGSL layout.

Decided on the output grammar (Engine A), anchored on the assertion templates (`offset_of!` / `size_of::<..>`) inside the struct
section, at the function that iterates module.types:
  * one offset assertion per emitted field: the assertion repetition ranges over the same (builtin-filtered) member list as
    the fields; the expected number is StructMember.offset of the *same* member whose name is the offset_of! field, unmodified;
    the struct identifier is the struct's own name;
  * the size assertion compares size_of::<that struct> with the layout size of the *same* type handle (accepted sources:
    Layouter[handle].size after layouter.update(module.to_ctx()), or TypeInner::size(module.to_ctx()) of that type), unmodified;
  * gating: assertions are present iff derive_bytemuck_host_shareable && host_shareable, where host_shareable is membership of
    the type handle in the closure set seeded from all module-scope variables (C08 rules evaluated in the same run).
Consequence by rustc's const evaluation (trusted): a module that compiles has exactly the asserted offsets and size.
Not decided: that naga's StructMember.offset / Layouter implement the WGSL layout rules (trusted: naga is the reference wgpu uses)."""
import itertools
import engine_ogp as E
from conc import Eval, V, Diverge, Unbound


WIDE = ('usize', 'u64', 'u32', 'u128', 'i64', 'i128')     # value-preserving cast targets for a u32 quantity


def run(rep):
    ogp = E.load()
    rep.explanation = __doc__
    rep.trusted = ['syn parser and the abstract semantics of Engine A', 'naga 24 computes WGSL offsets/sizes (StructMember.offset, Layouter)',
                   'rustc evaluates the const assertions and lays out #[repr(C)] structs as specified']
    crate = ogp.crate
    hits = []
    for q, v in ogp.summaries.items():
        stars = []
        E.walk(v, lambda x: stars.append(x) if x[0] == 'star' and x[1][0] == 'f' and x[1][2] == 'types' and x[1][1][0] == 'param' else None)
        for st in stars:
            ts = E.find_templates(st[3], lambda t: 'pub struct #' in E.tmpl_text(t) and 'derive ( #(' in E.tmpl_text(t))
            # several struct templates (e.g. an early return for structs that cannot carry assertions): the one that can produce assertions
            ts.sort(key=lambda t: 0 if any(E.find_templates(h_, lambda x: 'assert !' in E.tmpl_text(x)) for h_ in E.holes(t).values()) else 1)
            if ts:
                hits.append((q, st, ts[0]))
    rep.floor('function emitting struct items from module.types', len(hits), 1)
    if not hits:
        return
    hits.sort(key=lambda h: len(crate.call_graph()[h[0]]))
    q, st, tmpl = hits[0]
    f = crate.fns[q]
    where = f"{crate.relfile(f['file'])} fn {f['name']} -> struct template {tmpl[1]}"
    modP = st[1][1]
    elem = ('elem', st[2], st[1])
    handle, ty = ('tf', elem, 0), ('tf', elem, 1)
    optP = [('param', q, p['pat']['name']) for p in f['params'] if 'WriteOptions' in p['ty']]
    optP = optP[0] if optP else None
    hs = E.holes(tmpl)
    # struct name and field repetition of the struct item
    items = tmpl[2]
    name_hole = None
    fields = None
    for i, it in enumerate(items):
        if it[0] == 'hole' and i > 0 and items[i - 1][0] == 'tok' and items[i - 1][1].endswith('pub struct'):
            name_hole = it[2]
        if it[0] == 'rep' and i > 0 and items[i - 1] == ('tok', '{') and len(it[1]) == 1 and it[1][0][0] == 'hole':
            fields = it[1][0][2]
    want_name = ('call', 'Ident::new', [('unwrap', ('f', ty, 'name'))])
    rep.check(name_hole == want_name, 'C05.struct-name', 'struct-name', where, f'struct item name is {E.show(name_hole, maxdepth=5)}', ok_detail='Ident::new(type.name)')
    if fields is None or fields[0] != 'star':
        rep.bad('C05.anchor', 'fields', where, 'cannot find the field repetition of the struct item', undecided=True)
        return
    # assertion hole
    a_name, a_term = None, None
    for n, t in hs.items():
        if E.find_templates(t, lambda x: 'assert !' in E.tmpl_text(x)):
            a_name, a_term = n, t
    if a_term is None:
        rep.bad('C05.anchor', 'assert-hole', where, 'no hole producing layout assertions', undecided=True)
        return
    # ---- gating ------------------------------------------------------------------------------------------------------------------
    arms = a_term[1] if a_term[0] == 'alt' else []
    if a_term[0] == 'opt':
        # `cond.then(|| quote!{ asserts })` interpolated as an Option: present under cond, nothing otherwise
        arms = [(a_term[1], a_term[2]), (E.TRUE, ('tmpl', '', [], ''))]
    with_assert = [(c, v) for c, v in arms if E.find_templates(v, lambda x: 'assert !' in E.tmpl_text(x))]
    rep.check(len(with_assert) == 1, 'C05.gating', 'one-arm', where, f'{len(with_assert)} alternatives produce assertions', ok_detail='one alternative')
    set_term = None
    if with_assert and optP is not None:
        contains = []
        E.walk(a_term, lambda x: contains.append(x) if x[0] == 'mcall' and x[2] == 'contains' else None)
        for va, vb in itertools.product([False, True], repeat=2):
            def leaf(t, va=va, vb=vb):
                if t == ('f', optP, 'derive_bytemuck_host_shareable'):
                    return (va,)
                if t[0] == 'mcall' and t[2] == 'contains' and t[3] == [handle]:
                    return (vb,)
                return None
            try:
                got_ = Eval(leaf, lenient=True).ev(a_term)
                if isinstance(got_, tuple) and len(got_) == 2 and got_[0] == 'some':
                    got_ = got_[1]
                got = 'assert !' in str(got_ if got_ is not None else '')      # an Option hole that is None prints nothing
            except (Unbound, Diverge) as u:
                rep.bad('C05.gating', f'gate:{int(va)}{int(vb)}', where, f'cannot evaluate the gate of the assertions: {u}', undecided=True)
                continue
            rep.check(got == (va and vb), 'C05.gating', f'gate:bytemuck_host_shareable={int(va)},host_shareable={int(vb)}', where,
                      f'assertions are {"present" if got else "absent"} for derive_bytemuck_host_shareable={va}, host_shareable={vb}; expected {"present" if va and vb else "absent"}',
                      ok_detail=f'present={got}')
        if contains:
            set_term = contains[0][1]
            rep.check(all(c[1] == set_term and c[3] == [handle] for c in contains) and set_term[0] == 'new', 'C05.gating', 'host-shareable-set', where,
                      f'host-shareable is not membership of this type\'s handle in the closure set ({[E.show(c, maxdepth=4) for c in contains][:2]})',
                      ok_detail=f'{set_term[1]}.contains(type handle)')
    # the set is the transitive closure of all module-scope variable types (shared rule)
    if set_term is not None:
        from rules.c08 import closure_discipline
        closure_discipline(ogp, rep, 'C05.host-shareable-closure', q, set_term, modP, where)
    if not with_assert:
        return
    block = with_assert[0][1]
    ts = E.find_templates(block, lambda x: True)
    size_ts = [t for t in ts if 'size_of' in E.tmpl_text(t) and 'assert !' in E.tmpl_text(t)]
    off_ts = [t for t in ts if 'assert !' in E.tmpl_text(t) and 'size_of' not in E.tmpl_text(t)]
    rep.check(len(size_ts) == 1, 'C05.size-assert', 'one-size-assert', where, f'{len(size_ts)} size assertions', ok_detail='one size assertion')
    rep.check(len(off_ts) == 1, 'C05.offset-assert', 'one-offset-template', where, f'{len(off_ts)} offset assertion templates', ok_detail='one template, repeated per field')
    # ---- size ---------------------------------------------------------------------------------------------------------------------
    for t in size_ts[:1]:
        txt = E.tmpl_text(t)
        hh = E.holes(t)
        shape = txt.replace(' ', '').startswith('const_:()=assert!(std::mem::size_of::<#') and '>()==#' in txt.replace(' ', '')
        rep.check(shape, 'C05.size-assert', 'size-shape', where, f'size assertion is `{txt}`', ok_detail=txt[:100])
        vals = list(hh.values())
        if len(vals) >= 2:
            rep.check(vals[0] == want_name, 'C05.size-assert', 'size-struct', where, f'size_of is taken of {E.show(vals[0], maxdepth=5)}, not of this struct', ok_detail='size_of::<this struct>')
            num = vals[1]
            layouters = []
            E.walk(num, lambda x: layouters.append(x) if x[0] == 'idx' else None)
            ok1 = num[0] == 'call' and num[1] == 'Literal::usize_unsuffixed' and num[2][0][0] == 'cast' and num[2][0][2] in WIDE and num[2][0][1][0] == 'f' and num[2][0][1][2] == 'size' and \
                num[2][0][1][1][0] == 'idx' and num[2][0][1][1][2] == handle and 'Layouter' in E.show(num[2][0][1][1][1], maxdepth=4)
            ok2 = num[0] == 'call' and num[1] == 'Literal::usize_unsuffixed' and num[2][0][0] == 'cast' and num[2][0][2] in WIDE and \
                num[2][0][1] == ('mcall', ('f', ty, 'inner'), 'size', [('mcall', modP, 'to_ctx', [])])
            rep.check(ok1 or ok2, 'C05.size-assert', 'size-number', where,
                      f'the expected size is {E.show(num, maxdepth=8)}; accepted: Layouter[this type handle].size or this type\'s TypeInner::size(module.to_ctx()), unmodified',
                      ok_detail='Layouter[handle].size' if ok1 else 'type.inner.size(ctx)')
            if ok1:
                lay = num[2][0][1][1][1]
                upd = [e for e in ogp.effects.get(q, []) if e['kind'] == 'mutate' and e['method'] == 'update' and e['target'] == lay and e['args'] == [('mcall', modP, 'to_ctx', [])]
                       and e['cond'] == ('true',) and not e['loops']]
                rep.check(bool(upd), 'C05.size-assert', 'layouter-updated', where, 'the layouter is not updated with this module before use', ok_detail='layouter.update(module.to_ctx())')
    # ---- offsets ------------------------------------------------------------------------------------------------------------------
    # the repetition in which the offset template lives
    stars = []
    E.walk(block, lambda x: stars.append(x) if x[0] == 'star' and E.find_templates(x[3], lambda y: y in off_ts) else None)
    rep.check(len(stars) == 1, 'C05.offset-assert', 'offset-repetition', where, f'{len(stars)} repetitions produce offset assertions', ok_detail='one repetition')
    for s in stars[:1]:
        same = s[1] == fields[1] and s[4] == E.Interp.rename_elem(None, fields[4], fields[2], s[2]) and not s[5]
        rep.check(same, 'C05.offset-assert', 'same-members-as-fields', where,
                  f'offset assertions range over {E.show(s[1], maxdepth=4)} with filters {[E.show(c, maxdepth=4) for c in s[4]]}; the fields range over {E.show(fields[1], maxdepth=4)} '
                  f'with {[E.show(c, maxdepth=4) for c in fields[4]]}: fields and checks do not correspond one to one',
                  ok_detail='same member list and filter as the struct fields')
        m = ('elem', s[2], s[1])
        t = off_ts[0]
        hh = E.holes(t)
        ttxt = E.tmpl_text(t)
        import re as _re
        am = _re.search(r'const _ : \( \) = assert ! \( std :: mem :: offset_of ! \( #(\w+) , #(\w+) \) == #(\w+) , #?\S+ \) ;', ttxt)
        rep.check(am is not None, 'C05.offset-assert', 'offset-shape', where, f'`{ttxt}`', ok_detail='const _: () = assert!(offset_of!(<struct>, <field>) == <n>, ..)')
        if am:
            want_num = ('call', 'Literal::usize_unsuffixed', [('cast', ('f', m, 'offset'), 'usize')])
            num = hh.get(am.group(3))
            rep.check(num == want_num, 'C05.offset-assert', 'offset-number', where,
                      f'the expected offset is {E.show(num, maxdepth=7) if num else None}; expected StructMember.offset of the same member, unmodified', ok_detail='member.offset')
            ih = [hh.get(am.group(1)), hh.get(am.group(2))]
            ok = ih[0] == want_name and ih[1] == ('call', 'Ident::new', [('unwrap', ('f', m, 'name'))])
            rep.check(ok, 'C05.offset-assert', 'offset-of-field', where, f'offset_of! is applied to {[E.show(x, maxdepth=5) if x else None for x in ih]}; expected (this struct, this member\'s name)',
                      ok_detail='offset_of!(this struct, member.name)')
            rep.ok('C05.offset-assert', 'offset-of-shape', where, 'std::mem::offset_of!(#struct, #field)')
        else:
            rep.bad('C05.offset-assert', 'offset-of-field', where, 'no offset_of! comparison inside the offset assertion', undecided=True)
    rep.analysed = {'function': q, 'struct_template': tmpl[1], 'assertion_templates': [t[1] for t in size_ts + off_ts]}
    # the section reaches the assembled output unconditionally (shared rule, lib/sections.py)
    from sections import check_wiring
    check_wiring(rep, 'C05.section-wiring', ['derive ( #('], 'struct-section')
