"""C12 - override constants reach the pipeline under the right key and value.

Decided on the output grammar with provenance (Engine A), anchored on `pub struct OverrideConstants { .. } .. fn constants(&self)`.
The override section is shown to depend only on module.overrides[*].{name, id, ty, init} and module.types (dependence check on the
extracted term); the extracted grammar is then instantiated - the generator is never run - on model override lists that enumerate scalar kind
{bool, i32, u32, f32} x {@id present, absent} x {default present, absent} completely, in two worlds with different names, ids and order, and
every piece of the instantiation is compared with what the property prescribes:
  * one field per override, named after it, typed by the Rust scalar table; `Option<..>` exactly when the override has a default;
  * every override without a default appears exactly once in the list the map is initialised from, every override with a default exactly once as
    `if let Some(value) = self.<name> { entries.insert(..) }`;
  * key = the @id as decimal string when present, else the WGSL name unchanged; value = `if <x> { 1.0 } else { 0.0 }` for booleans, `<x> as f64`
    otherwise, <x> being the same override's field / the bound `value`;
  * `entries` is returned; nothing is emitted for a module without overrides;
  * entry helpers: the `overrides: &OverrideConstants` parameter exists, and `constants:` is `overrides.constants()`, exactly when
    the module has overrides (the same condition that gates emission of the struct); otherwise `Default::default()`;
    vertex_state / fragment_state forward `&entry.constants`.
Because the comparison is made on the instantiated text, it does not depend on how the source splits the work (closures, helper functions, a
helper struct with methods, partition vs two filters).
Not decided: naga's override resolution accepting the map (library); override types other than the four scalar kinds (WGSL admits no others)."""
import itertools, os
import engine_ogp as E
import leaf_tables as LT
from conc import Eval, V, Diverge, Unbound
from rules.c02 import hole_after, collect_scrutinees
from rules.c04 import hole_after_seq

TRUE = ('true',)


def split_top(text, sep):
    """split on `sep` outside any bracket nesting"""
    out, depth, cur, i = [], 0, [], 0
    toks = text.split(' ')
    septoks = sep.strip().split(' ')
    j = 0
    while j < len(toks):
        t = toks[j]
        if t in ('(', '[', '{'):
            depth += 1
        elif t in (')', ']', '}'):
            depth -= 1
        if depth == 0 and toks[j:j + len(septoks)] == septoks:
            out.append(' '.join(cur))
            cur = []
            j += len(septoks)
            continue
        cur.append(t)
        j += 1
    if cur:
        out.append(' '.join(cur))
    return [x for x in out if x.strip()]


def mentions_overrides(t, OV):
    hit = []
    E.walk(t, lambda x: hit.append(1) if x == OV else None)
    return bool(hit)


def run(rep):
    ogp = E.load()
    rep.explanation = __doc__
    rep.trusted = ['syn parser and the abstract semantics of Engine A', 'naga process_overrides: keys are the decimal @id or the name; values are f64']
    crate = ogp.crate
    hits = E.module_anchors(ogp, lambda t: 'pub struct OverrideConstants {' in E.tmpl_text(t))
    rep.floor('OverrideConstants template', len(hits), 1)
    if not hits:
        return
    q, ot = hits[0]
    f = crate.fns[q]
    where = f"{crate.relfile(f['file'])} fn {f['name']} (template at {ot[1]})"
    txt = E.tmpl_text(ot)
    summ = ogp.summaries[q]
    modP = [('param', q, p['pat']['name']) for p in f['params'] if p['ty'].replace(' ', '').endswith('Module')][0]
    OV = ('f', modP, 'overrides')
    rep.check('pub fn constants ( & self ) -> std :: collections :: HashMap < String , f64 > {' in txt and txt.rstrip().endswith('entries } }'), 'C12.shape', 'constants-fn', where,
              'constants() does not have the expected signature / does not return `entries`', ok_detail='fn constants(&self) -> HashMap<String, f64> { ..; entries }')

    # ---- the override section, judged on its instantiation for model override lists ------------------------------------------------------
    # The section is a function of module.overrides (name, id, ty, init presence) and of the scalar type behind `ty` only (dependence check
    # below); the model list enumerates scalar kind x (@id present?) x (default present?) completely, twice with different names / ids /
    # order, so that names and ids are seen to pass through unchanged.  The extracted grammar is instantiated (never the generator run) and
    # compared piecewise with the text the property prescribes.
    import engine_skel as K
    import re as _re
    KINDS = (('Bool', 1), ('Sint', 4), ('Uint', 4), ('Float', 4))

    def world(variant):
        m = K.Model('overrides')
        tys = {k: m.scalar(k, w) for k, w in KINDS}
        rows = []
        n = 0
        combos = [(k, hid, d) for k, _ in KINDS for hid in (False, True) for d in (False, True)]
        if variant == 1:
            combos = list(reversed(combos))
        if variant == -1:
            combos = [c for c in combos if c[2]]        # every override has a default: the map starts empty and is only filled by inserts
        if variant == -2:
            combos = [c for c in combos if not c[2]]    # no override has a default: the map is never mutated
        if variant >= 2:
            # thorough tier: seeded random sub-lists (length 0..10, repetitions allowed) - only-required, only-optional, single-element lists ..
            import random
            rnd = random.Random(1000 * int(os.environ.get('VERIF_SEED', '0') or 0) + variant)
            combos = [rnd.choice(combos) for _ in range(rnd.randint(1, 10))]
            if variant % 5 == 0:
                combos = [c for c in combos if not c[2]] or combos[:1]
            if variant % 5 == 1:
                combos = [c for c in combos if c[2]] or combos[:1]
        # names that are Rust keywords but not reserved in WGSL (naga accepts them): a generator that escapes them as raw identifiers must
        # still key the map by the WGSL name
        kw = {(0, 1): 'gen', (0, 6): 'dyn', (1, 3): 'box', (1, 12): 'gen'}
        for k, hid, d in combos:
            n += 1
            name = f'ov{n}' if variant == 0 else f'{k.lower()}_Const{n * 7}'
            if (variant, n) in kw and not hid:
                name = kw[(variant, n)]
            id_ = None if not hid else (100 + n if variant == 0 else (0 if n == 2 else 65535 - n))
            rows.append((name, k, id_, d))
            m.override(name, tys[k], id_=id_, init=d)
        return m.finish(), rows

    def render(model):
        ev = K.SkelEval(ogp, model, {}, '', None)
        ev.markers = False
        ev.params.append({(q, p['pat']['name']): model.module for p in f['params']})
        # a raw identifier `r#x` is the identifier `x` (string literals - the map keys - are left alone)
        return ' '.join(tk[2:] if tk.startswith('r#') else tk for tk in str(ev.ev(summ)).split())

    def value_text(kind, x):
        return f'if {x} {{ 1.0 }} else {{ 0.0 }}' if kind == 'Bool' else f'{x} as f64'
    n_rows = 0
    variants = (0, 1, -1, -2) if rep.tier != 'thorough' else (-1, -2) + tuple(range(0, 26))
    for variant in variants:
        model, rows = world(variant)
        try:
            text = render(model)
        except (Diverge, Unbound) as ex:
            for r_ in ('C12.fields', 'C12.optionality', 'C12.field-type', 'C12.partition', 'C12.key', 'C12.value', 'C12.shape'):
                rep.bad(r_, f'world{variant}', where, f'cannot instantiate the override section on the model override list: {ex}', undecided=True)
            continue
        sm = _re.search(r'pub struct OverrideConstants \{(.*?)\} impl OverrideConstants \{ pub fn constants \( & self \) -> std :: collections :: HashMap < String , f64 > \{ '
                        r'let (mut )?entries = std :: collections :: HashMap :: from \( \[(.*?)\] \) ;(.*?) ?entries \} \}$', text)
        rep.check(sm is not None, 'C12.shape', f'section-shape:world{variant}', where,
                  f'the override section is not `pub struct OverrideConstants {{ fields }} impl OverrideConstants {{ pub fn constants(&self) -> HashMap<String, f64> {{ let [mut] entries = '
                  f'HashMap::from([required]); optional inserts; entries }} }}`: {text[:300]}', ok_detail='struct + constants(): map from the required entries, optional inserts, `entries` returned')
        if sm is None:
            continue
        strip_c = lambda x: x.strip().rstrip(',').strip()
        fields_t, mut_t, req_t, opt_t = strip_c(sm.group(1)), sm.group(2), strip_c(sm.group(3)), sm.group(4).strip()
        got_fields = [x.strip() for x in fields_t.split(' , ')] if fields_t.strip() else []
        exp_fields = [f'pub {nm} : Option < {LT.rust_scalar(k, dict(KINDS)[k])} >' if d else f'pub {nm} : {LT.rust_scalar(k, dict(KINDS)[k])}' for nm, k, id_, d in rows]
        rep.check(len(got_fields) == len(rows), 'C12.fields', f'fields-all:world{variant}', where, f'{len(got_fields)} fields for {len(rows)} overrides', ok_detail='one field per override')
        for (nm, k, id_, d), g, e in zip(rows, got_fields, exp_fields):
            n_rows += 1
            gm = _re.match(r'pub (\S+) : (Option < )?(.*?)( >)?$', g)
            lab = f'{k}/{"id" if id_ is not None else "name"}/{"default" if d else "required"}:world{variant}'
            rep.check(gm is not None and gm.group(1) == nm, 'C12.fields', f'field-name:{lab}', where, f'the field of override `{nm}` is `{g}`; expected it to carry the override\'s own name', ok_detail=g)
            rep.check(gm is not None and bool(gm.group(2)) == d, 'C12.optionality', f'field-optional-iff-default:{lab}', where,
                      f'override `{nm}` ({"with" if d else "without"} a default) gets field `{g}`: a field must be `Option<..>` exactly when the override has a default', ok_detail=g)
            rep.check(g == e, 'C12.field-type', f'field-type:{lab}', where, f'override `{nm}` of type {k} gets field `{g}`; expected `{e}`', ok_detail=g)
        key = lambda nm, id_: f'"{id_}"' if id_ is not None else f'"{nm}"'
        exp_req = [f'( {key(nm, id_)} . to_owned ( ) , {value_text(k, "self . " + nm)} )' for nm, k, id_, d in rows if not d]
        exp_opt = [f'if let Some ( value ) = self . {nm} {{ entries . insert ( {key(nm, id_)} . to_owned ( ) , {value_text(k, "value")} ) ; }}' for nm, k, id_, d in rows if d]
        got_req = split_top(req_t, ' , ')
        got_opt = [x for x in (y.strip() for y in split_top(opt_t, ' ; ')) if x]
        rep.check(len(got_req) == len(exp_req) and len(got_opt) == len(exp_opt), 'C12.partition', f'partition:world{variant}', where,
                  f'{len(got_req)} required entries and {len(got_opt)} optional inserts for {len(exp_req)} overrides without and {len(exp_opt)} with a default: every override must appear in exactly '
                  f'one of the two lists, chosen by `init.is_some()`', ok_detail=f'{len(got_req)} required + {len(got_opt)} optional')
        for lst_g, lst_e, label in ((got_req, exp_req, 'required'), (got_opt, exp_opt, 'optional')):
            sel = [r for r in rows if r[3] == (label == 'optional')]
            for (nm, k, id_, d), g, e in zip(sel, lst_g, lst_e):
                lab = f'{label}:{k}/{"id" if id_ is not None else "name"}:world{variant}'
                km = _re.search(r'("[^"]*") \. to_owned \( \)', g)
                rep.check(km is not None and km.group(1) == key(nm, id_), 'C12.key', f'key:{lab}', where,
                          f'the {label} entry of override `{nm}` (@id {id_}) is keyed by {km.group(1) if km else None}; expected {key(nm, id_)} (the @id as decimal string when present, else the '
                          f'WGSL name unchanged)', ok_detail=f'key {key(nm, id_)}')
                nokey = lambda x: _re.sub(r'"[^"]*" \. to_owned', '"<key>" . to_owned', x, count=1)
                rep.check(nokey(g) == nokey(e), 'C12.value', f'value:{lab}', where, f'the {label} entry of override `{nm}` ({k}) is `{g}`; expected `{e}`', ok_detail=g)
        rep.check(bool(mut_t) or not exp_opt, 'C12.shape', f'init-entries:world{variant}', where, 'optional entries are inserted into a map that is not declared `mut`', ok_detail='let mut entries')
    rep.floor('override rows compared (scalar kind x id x default, two worlds)', n_rows, 32)
    # dependence: the section reads only module.overrides[*].{name,id,ty,init} and module.types
    mod_fields, ov_fields = set(), set()

    def dep(x):
        if x[0] == 'f' and x[1] == modP:
            mod_fields.add(x[2])
        if x[0] == 'f' and x[1][0] in ('tf', 'elem') and mentions_overrides(x[1], OV):
            ov_fields.add(x[2])
    E.walk(summ, dep)
    rep.check(mod_fields <= {'overrides', 'types'} and ov_fields <= {'name', 'id', 'ty', 'init'}, 'C12.shape', 'dependence', where,
              f'the override section also reads module.{sorted(mod_fields - {"overrides", "types"})} / override fields {sorted(ov_fields - {"name", "id", "ty", "init"})}: the model lists do not enumerate '
              f'those inputs', ok_detail=f'reads module.{sorted(mod_fields)}, override.{sorted(ov_fields)} only')
    # emission gate
    empty = K.Model('no-overrides').finish()
    try:
        gate0 = 'OverrideConstants' in render(empty)
    except (Diverge, Unbound) as ex:
        gate0 = f'<{ex}>'
    rep.check(gate0 is False, 'C12.emission-gate', 'struct-iff-overrides', where,
              f'OverrideConstants is emitted for a module without overrides: {gate0}; expected exactly when the module has overrides (entry helpers take the parameter under the same condition)',
              ok_detail='emitted iff module.overrides is non-empty')
    n_h = 0
    for q2, ht in E.module_anchors(ogp, lambda t: '-> VertexEntry <' in E.tmpl_text(t) or '-> FragmentEntry <' in E.tmpl_text(t)):
        if True:
            n_h += 1
            f2 = crate.fns[q2]
            w2 = f"{crate.relfile(f2['file'])} fn {f2['name']} (template at {ht[1]})"
            kind = 'vertex' if 'VertexEntry' in E.tmpl_text(ht) else 'fragment'
            m2 = [('param', q2, p['pat']['name']) for p in f2['params'] if p['ty'].replace(' ', '').endswith('Module')][0]
            ov2 = ('mcall', ('f', m2, 'overrides'), 'is_empty', [])
            accs = []
            E.walk(ht, lambda x: accs.append(x) if x[0] == 'acc' else None)
            for has, empty_params in itertools.product([False, True], [False, True]):
                if kind == 'fragment' and empty_params:
                    continue

                def leaf(t, has=has, empty_params=empty_params):
                    if t == ov2:
                        return (not has,)
                    if t[0] == 'mcall' and t[2] == 'is_empty' and (t[1][0] == 'acc' or (t[1][0] == 'star' and E.find_templates(t[1][3], lambda y: 'VertexStepMode' in E.tmpl_text(y)))):
                        return (empty_params,)
                    return None
                try:
                    text = Eval(leaf, lenient=True).ev(ht)
                except (Diverge, Unbound) as ex:
                    rep.bad('C12.helpers', f'{kind}-helper:overrides={int(has)}', w2, f'cannot evaluate the helper template: {ex}', undecided=True)
                    continue
                has_param = 'overrides : & OverrideConstants' in text
                uses = 'constants : overrides . constants ( )' in text
                dflt = 'constants : Default :: default ( )' in text
                lab = f'{kind}-helper:overrides={int(has)}' + (f',step_params_empty={int(empty_params)}' if kind == 'vertex' else '')
                rep.check(has_param == has and uses == has and dflt == (not has), 'C12.helpers', lab, w2,
                          f'module {"with" if has else "without"} overrides: helper {"takes" if has_param else "does not take"} `overrides: &OverrideConstants` and sets constants to '
                          f'{"overrides.constants()" if uses else "Default::default()" if dflt else "?"}; the map must be passed through exactly when the module has overrides',
                          ok_detail=f'param={has_param}, constants={"overrides.constants()" if uses else "Default::default()"}')
    rep.floor('entry helper templates (vertex + fragment)', n_h, 2)
    from common import include
    include(rep, 'c14', ('C14.state-forwarding',), 'state-forwarding')
    rep.analysed = {'function': q, 'template': ot[1], 'helpers': n_h}
    # the section reaches the assembled output unconditionally (shared rule, lib/sections.py)
    from sections import check_wiring
    check_wiring(rep, 'C12.section-wiring', ['OverrideConstants', 'VertexEntry <', 'FragmentEntry <'], 'override-sections')
