"""C12 - override constants reach the pipeline under the right key and value.

Decided on the output grammar with provenance (Engine A), anchored on `pub struct OverrideConstants { .. } .. fn constants(&self)`:
  * one field per element of module.overrides (no filter), name = the override's own name, type = the scalar table (Rust
    representation) of its type; the field is `Option<..>` exactly when `init.is_some()`;
  * the required-entry list and the optional-insert list partition the same overrides by the same atom `init.is_some()` with
    opposite polarity; both use key = `id.to_string()` when an @id is present, else the name (identity);
  * value tokens: booleans `if <x> { 1.0 } else { 0.0 }`, all other scalars `<x> as f64`, where <x> is the same override's field
    (`self.<name>` / the `if let Some(value) = self.<name>` binding);
  * the map starts from the required entries, optional ones are inserted, `entries` is returned;
  * entry helpers: the `overrides: &OverrideConstants` parameter exists, and `constants:` is `overrides.constants()`, exactly when
    the module has overrides (the same condition that gates emission of the struct); otherwise `Default::default()`;
    vertex_state / fragment_state forward `&entry.constants`.
Not decided: naga's override resolution accepting the map (library)."""
import itertools
import engine_ogp as E
import leaf_tables as LT
from conc import Eval, V, Diverge, Unbound
from rules.c02 import hole_after, collect_scrutinees
from rules.c04 import hole_after_seq

TRUE = ('true',)


def run(rep):
    ogp = E.load()
    rep.explanation = __doc__
    rep.trusted = ['syn parser and the abstract semantics of Engine A', 'naga process_overrides: keys are the decimal @id or the name; values are f64']
    crate = ogp.crate
    hits = []
    for q, v in ogp.summaries.items():
        for t in E.find_templates(v, lambda t: 'pub struct OverrideConstants {' in E.tmpl_text(t)):
            if t[3] == q:
                hits.append((q, t))
    rep.floor('OverrideConstants template', len(hits), 1)
    if not hits:
        return
    q, ot = hits[0]
    f = crate.fns[q]
    where = f"{crate.relfile(f['file'])} fn {f['name']} (template at {ot[1]})"
    txt = E.tmpl_text(ot)
    summ = ogp.summaries[q]
    modP = [('param', q, p['pat']['name']) for p in f['params'] if p['ty'].replace(' ', '').endswith('Module')][0]
    OV = ('f', modP, 'overrides')
    rep.check('pub fn constants ( & self ) -> std :: collections :: HashMap < String , f64 > {' in txt and txt.rstrip().endswith('entries } }'), 'C12.shape', 'constants-fn', where,
              'constants() does not have the expected signature / does not return `entries`', ok_detail='fn constants(&self) -> HashMap<String, f64> { ..; entries }')

    def ov_star(pred, label):
        ss = []
        E.walk(ot, lambda x: ss.append(x) if x[0] == 'star' and E.find_templates(x[3], pred) else None)
        if not ss:
            rep.bad('C12.anchor', f'{label}-repetition', where, f'no repetition produces the {label}', undecided=True)
            return None
        s = ss[0]
        rep.check(s[1] == OV and not s[5], f'C12.{label}', f'{label}-source', where, f'{label} are generated from {E.show(s[1], maxdepth=5)}; expected module.overrides', ok_detail='for override in module.overrides')
        return s

    def ov_elem(s):
        return ('tf', ('elem', s[2], s[1]), 1)

    def name_of(o):
        return ('call', 'Ident::new', [('unwrap', ('f', o, 'name'))])

    def key_of(o):
        return ('alt', [(('t', ('is_some', ('f', o, 'id'))), ('mcall', ('unwrap', ('f', o, 'id')), 'to_string', [])), (TRUE, ('unwrap', ('f', o, 'name')))])
    # ---- fields -------------------------------------------------------------------------------------------------------------------
    fs = ov_star(lambda t: E.tmpl_text(t).startswith('pub #') and 'to_owned' not in E.tmpl_text(t), 'fields')
    if fs is not None:
        o = ov_elem(fs)
        rep.check(fs[4] == [], 'C12.fields', 'fields-all', where, f'fields are filtered by {[E.show(c, maxdepth=4) for c in fs[4]]}: some overrides get no field', ok_detail='one field per override')
        arms = fs[3][1] if fs[3][0] == 'alt' else []
        opt = [(c, v) for c, v in arms if v[0] == 'tmpl' and ': Option <' in E.tmpl_text(v)]
        plain = [(c, v) for c, v in arms if v[0] == 'tmpl' and ': Option <' not in E.tmpl_text(v)]
        has_init = ('t', ('is_some', ('f', o, 'init')))
        ok = len(opt) == 1 and len(plain) == 1 and opt[0][0] == has_init and plain[0][0] == TRUE and arms.index(opt[0]) < arms.index(plain[0])
        rep.check(ok, 'C12.optionality', 'field-optional-iff-default', where,
                  f'a field is not `Option<..>` exactly when the override has a default (`init.is_some()`): arms {[E.show(c, maxdepth=4) for c, _ in arms]}', ok_detail='Option<T> iff init.is_some()')
        for c, v in opt + plain:
            hv = list(E.holes(v).values())
            t_ = E.tmpl_text(v).split()
            shape = (t_[:2] == ['pub', t_[1]] and t_[2] == ':' and (t_[3:5] == ['Option', '<'] and t_[-1] == '>' or len(t_) == 4))
            rep.check(shape and hv and hv[0] == name_of(o), 'C12.fields', f'field-name:{"optional" if (c, v) in opt else "required"}', where,
                      f'field `{" ".join(t_)}` is not named after the override ({E.show(hv[0], maxdepth=5) if hv else None})', ok_detail='pub <override name>: ..')
            if len(hv) == 2:
                scr = collect_scrutinees(hv[1]).get('TypeInner', [])
                want_scr = ('f', ('idx', ('f', modP, 'types'), ('f', o, 'ty')), 'inner')
                mvs = collect_scrutinees(hv[1]).get('MatrixVectorTypes', [])
                if scr and scr[0] == want_scr and all(m_[0] == 'path' and m_[1].endswith('MatrixVectorTypes::Rust') for m_ in mvs):
                    for k, w in (('Sint', 4), ('Uint', 4), ('Float', 4), ('Bool', 1)):
                        def leaf(t, k=k, w=w):
                            return (V('naga::TypeInner::Scalar', **{'0': LT.scalar_v(k, w)}),) if t == want_scr else None
                        try:
                            got = Eval(leaf, lenient=False).ev(hv[1])
                        except (Diverge, Unbound) as ex:
                            got = f'<{ex}>'
                        rep.check(got == LT.rust_scalar(k, w), 'C12.field-type', f'field-type:{k}{w * 8}:{"optional" if (c, v) in opt else "required"}', where,
                                  f'an override of type {k}{w * 8} gets field type `{got}`; expected `{LT.rust_scalar(k, w)}`', ok_detail=got)
                else:
                    rep.bad('C12.field-type', 'field-type-scrutinee', where, f'the field type is not the (Rust) scalar table of the override\'s own type ({[E.show(s_, maxdepth=5) for s_ in scr]})')
    # ---- required / optional lists ----------------------------------------------------------------------------------------------------
    rs = ov_star(lambda t: E.tmpl_text(t).startswith('( #') and '. to_owned ( ) ,' in E.tmpl_text(t), 'required-entries')
    os_ = ov_star(lambda t: E.tmpl_text(t).startswith('if let Some ( value ) = self . #'), 'optional-entries')
    for s, label, want_pos in ((rs, 'required', False), (os_, 'optional', True)):
        if s is None:
            continue
        o = ov_elem(s)
        has_init = ('t', ('is_some', ('f', o, 'init')))
        pos, neg = [], []
        for c in s[4]:
            E.cond_facts(c, pos, neg)
        ok = (pos == [has_init] and not neg) if want_pos else (neg == [has_init] and not pos)
        rep.check(ok, 'C12.partition', f'{label}-predicate', where,
                  f'the {label} list is selected by +{[E.show(c, maxdepth=4) for c in pos]} -{[E.show(c, maxdepth=4) for c in neg]}; expected {"" if want_pos else "not "}init.is_some() of the same override only',
                  ok_detail=f'{label} iff {"" if want_pos else "!"}init.is_some()')
        t = E.find_templates(s[3], lambda t: 'to_owned' in E.tmpl_text(t))[0]
        ttxt = E.tmpl_text(t)
        key = hole_after_seq(t, '(') if label == 'required' else hole_after_seq(t, 'entries . insert (')
        rep.check(key is not None and E.decision_list(key) == E.decision_list(key_of(o)), 'C12.key', f'{label}-key', where,
                  f'the {label} entry key is {E.show(key, maxdepth=7) if key else None}; expected `@id` as decimal string when present, else the WGSL name unchanged', ok_detail='key = id.to_string() else name')
        val = [it for it in t[2] if it[0] == 'hole'][-1][2] if label == 'required' else [it for it in t[2] if it[0] == 'hole'][-1][2]
        tyinner = ('f', ('idx', ('f', modP, 'types'), ('f', o, 'ty')), 'inner')
        for kind in ('Bool', 'Sint', 'Uint', 'Float'):
            def leaf(tt, kind=kind):
                if tt == tyinner:
                    return (V('naga::TypeInner::Scalar', **{'0': LT.scalar_v(kind, 1 if kind == 'Bool' else 4)}),)
                return None
            try:
                got = Eval(leaf, lenient=True).ev(val)
            except (Diverge, Unbound) as ex:
                got = f'<{ex}>'
            x = 'self . #name' if label == 'required' else 'value'
            exp = f'if {x} {{ 1.0 }} else {{ 0.0 }}' if kind == 'Bool' else f'{x} as f64'
            rep.check(got == exp, 'C12.value', f'{label}-value:{kind}', where, f'{label} {kind} override value is `{got}`; expected `{exp}`', ok_detail=got)
        vts = E.find_templates(val, lambda x: 'self . #' in E.tmpl_text(x))
        for vt in vts:
            hv = list(E.holes(vt).values())
            rep.check(hv == [name_of(o)], 'C12.value', f'{label}-value-field', where, 'the value is not read from the field of the same override', ok_detail='self.<same override>')
        if label == 'optional':
            nm = hole_after_seq(t, 'if let Some ( value ) = self .')
            rep.check(nm == name_of(o) and ttxt.startswith('if let Some ( value ) = self . #') and 'entries . insert ( #' in ttxt, 'C12.value', 'optional-binding', where,
                      'the optional insert does not bind `value` from the field of the same override', ok_detail='if let Some(value) = self.<same override>')
        else:
            rep.check(ttxt == '( #key . to_owned ( ) , #value )'.replace('#key', '#' + [it[1] for it in t[2] if it[0] == 'hole'][0]).replace('#value', '#' + [it[1] for it in t[2] if it[0] == 'hole'][-1]), 'C12.shape', 'required-entry-shape', where, ttxt, ok_detail=ttxt)
    inits = E.find_templates(ot, lambda t: 'std :: collections :: HashMap :: from ( [' in E.tmpl_text(t))
    rep.check(len(inits) >= 1 and all(E.tmpl_text(t).replace('let mut entries', 'let entries').startswith('let entries = std :: collections :: HashMap :: from ( [ #(') for t in inits), 'C12.shape', 'init-entries', where,
              'the map is not initialised from the required entries', ok_detail='let [mut] entries = HashMap::from([required..])')
    # ---- emission gate and entry helpers --------------------------------------------------------------------------------------------------
    import engine_skel as K
    gate = {}
    for n_over in (0, 2):
        def leaf(t, n_over=n_over):
            if t == OV:
                return ([('h', V('naga::Override', name=('some', f'o{i}'), id=None, ty='t', init=None)) for i in range(n_over)],)
            return None
        ev = K.SkelEval(ogp, None, {}, '', None, extra_leaf=leaf)
        ev.lenient = True
        try:
            gate[n_over] = 'pub struct OverrideConstants' in str(ev.ev(summ))
        except (Diverge, Unbound) as ex:
            gate[n_over] = f'<{ex}>'
    rep.check(gate.get(0) is False and gate.get(2) is True, 'C12.emission-gate', 'struct-iff-overrides', where,
              f'OverrideConstants is emitted for a module without overrides: {gate.get(0)}, with overrides: {gate.get(2)}; expected exactly when the module has overrides',
              ok_detail='emitted iff module.overrides is non-empty')
    n_h = 0
    for q2, v in ogp.summaries.items():
        for ht in E.find_templates(v, lambda t: t[3] == q2 and ('-> VertexEntry <' in E.tmpl_text(t) or '-> FragmentEntry <' in E.tmpl_text(t))):
            n_h += 1
            f2 = crate.fns[q2]
            w2 = f"{crate.relfile(f2['file'])} fn {f2['name']} (template at {ht[1]})"
            kind = 'vertex' if 'VertexEntry' in E.tmpl_text(ht) else 'fragment'
            m2 = [('param', q2, p['pat']['name']) for p in f2['params'] if p['ty'].replace(' ', '').endswith('Module')][0]
            ov2 = ('mcall', ('f', m2, 'overrides'), 'is_empty', [])
            accs = []
            E.walk(ht, lambda x: accs.append(x) if x[0] == 'acc' else None)
            for has, empty_params in itertools.product([False, True], [False, True]):
                if kind == 'fragment' and empty_params:
                    continue

                def leaf(t, has=has, empty_params=empty_params):
                    if t == ov2:
                        return (not has,)
                    if t[0] == 'mcall' and t[2] == 'is_empty' and (t[1][0] == 'acc' or (t[1][0] == 'star' and E.find_templates(t[1][3], lambda y: 'VertexStepMode' in E.tmpl_text(y)))):
                        return (empty_params,)
                    return None
                try:
                    text = Eval(leaf, lenient=True).ev(ht)
                except (Diverge, Unbound) as ex:
                    rep.bad('C12.helpers', f'{kind}-helper:overrides={int(has)}', w2, f'cannot evaluate the helper template: {ex}', undecided=True)
                    continue
                has_param = 'overrides : & OverrideConstants' in text
                uses = 'constants : overrides . constants ( )' in text
                dflt = 'constants : Default :: default ( )' in text
                lab = f'{kind}-helper:overrides={int(has)}' + (f',step_params_empty={int(empty_params)}' if kind == 'vertex' else '')
                rep.check(has_param == has and uses == has and dflt == (not has), 'C12.helpers', lab, w2,
                          f'module {"with" if has else "without"} overrides: helper {"takes" if has_param else "does not take"} `overrides: &OverrideConstants` and sets constants to '
                          f'{"overrides.constants()" if uses else "Default::default()" if dflt else "?"}; the map must be passed through exactly when the module has overrides',
                          ok_detail=f'param={has_param}, constants={"overrides.constants()" if uses else "Default::default()"}')
    rep.floor('entry helper templates (vertex + fragment)', n_h, 2)
    from common import include
    include(rep, 'c14', ('C14.state-forwarding',), 'state-forwarding')
    rep.analysed = {'function': q, 'template': ot[1], 'helpers': n_h}
