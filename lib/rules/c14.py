"""C14 - entry point metadata matches the shader's entry points.

Decided on the output grammar with provenance (Engine A), anchored by role in the output language:
  * `pub const ENTRY_<UPPER>: &str = "<name>";` for every entry point (no filter): value = Literal::string of the name (identity);
    every helper that refers to an entry constant builds the identifier with the same expression as the definition (sibling
    agreement of all `ENTRY_` identifier sites);
  * compute: one `pub mod compute` item pair per entry point of stage Compute; the pipeline constructor is named after the entry,
    targets `entry_point: Some(<name, identity>)`, uses the module's own create_shader_module / create_pipeline_layout; the
    workgroup-size constant lists components 0,1,2 of that entry's workgroup_size in order (u32 values, unsuffixed);
  * fragment helper: one per entry of stage Fragment; the target-count hole (array length and FragmentEntry<N>) is a function of
    the @location values the entry writes: location + 1 for a directly bound result, max(location + 1) over the members of a result
    struct, 0 for builtins / no result;
  * vertex helper: one per entry of stage Vertex (buffer count: C07 rule D evaluated in the same run);
  * vertex_state / fragment_state forward module, Some(entry.entry_point), &entry.buffers / &entry.targets and &entry.constants."""
import re as _re
import engine_ogp as E
from conc import Eval, V, Diverge, Unbound
from rules.c04 import hole_after_seq, ident_fmt
from rules.c07 import is_vertex_cond

TRUE = ('true',)


def stage_only(conds, ent, stage):
    if len(conds) != 1:
        return False
    c = conds[0]
    pos, neg = E.cond_facts(c)
    want = [('is', ('f', ent, 'stage'), 'naga::ShaderStage::' + stage), ('eq', ('f', ent, 'stage'), ('path', 'naga::ShaderStage::' + stage))]
    return len(pos) == 1 and pos[0] in want and not neg


def run(rep):
    ogp = E.load()
    rep.explanation = __doc__
    rep.trusted = ['syn parser and the abstract semantics of Engine A', 'wgpu addresses colour targets by @location index']
    crate = ogp.crate
    # ---- ENTRY_ constants -----------------------------------------------------------------------------------------------------------
    defs = E.repetition_anchor(ogp, lambda t: E.tmpl_text(t).startswith('pub const #') and ': & str = #' in E.tmpl_text(t))
    rep.floor('entry name constant template', len(defs), 1)
    def_expr = None
    for q, t, s in defs[:1]:
        f = crate.fns[q]
        where = f"{crate.relfile(f['file'])} fn {f['name']} (template at {t[1]})"
        ent = ('elem', s[2], s[1])
        rep.check(s[1][0] == 'f' and s[1][2] == 'entry_points' and not s[4] and not s[5], 'C14.entry-constants', 'all-entries', where,
                  f'ENTRY_ constants are generated from {E.show(s[1], maxdepth=4)} with {len(s[4])} filter(s): some entry point gets no constant with its exact name', ok_detail='one constant per entry point')
        hv = list(E.holes(t).values())
        rep.check(hv[1] == ('call', 'Literal::string', [('f', ent, 'name')]), 'C14.entry-constants', 'constant-value', where,
                  f'the constant\'s value is {E.show(hv[1], maxdepth=5)}; expected the entry point\'s exact name', ok_detail='Literal::string(entry.name)')
        idf = hv[0]
        okn = idf[0] == 'call' and idf[1] == 'Ident::new' and idf[2][0][0] == 'fmt' and idf[2][0][1] == 'ENTRY_{}' and idf[2][0][2] == [('mcall', ('f', ent, 'name'), 'to_uppercase', [])]
        rep.check(okn, 'C14.entry-constants', 'constant-name', where, f'the constant is named {E.show(idf, maxdepth=6)}', ok_detail='ENTRY_{NAME.to_uppercase()}')
        def_expr = (idf, ent)
    # every other ENTRY_ identifier site must use the same expression (modulo its own entry element)
    n_sites = 0
    if def_expr:
        idf, ent = def_expr
        for q2, t, s2 in E.repetition_anchor(ogp, lambda t: 'entry_point : #' in E.tmpl_text(t)):
            if True:
                f2 = crate.fns[q2]
                w2 = f"{crate.relfile(f2['file'])} fn {f2['name']} (template at {t[1]})"
                use = hole_after_seq(t, 'entry_point :')
                ss = [s2]
                if use is None:
                    continue
                n_sites += 1
                e2 = ('elem', ss[0][2], ss[0][1])
                same = subst(idf, ent, e2) == use and ss[0][1][0] == 'f' and ss[0][1][2] == 'entry_points'
                rep.check(same, 'C14.entry-constants', f'constant-use:{f2["name"]}', w2,
                          f'the helper refers to the entry constant as {E.show(use, maxdepth=6)} while the definition is {E.show(idf, maxdepth=6)}: for some names the two identifiers differ',
                          ok_detail='same identifier expression as the definition')
        rep.floor('uses of ENTRY_ constants in helpers', n_sites, 2)
    # ---- compute ------------------------------------------------------------------------------------------------------------------------
    import re as _re
    cm = []
    for q, v in ogp.summaries.items():
        for t in E.find_templates(v, lambda t: t[3] == q and E.tmpl_text(t).startswith('pub mod compute {')):
            cm.append((q, t))
    rep.floor('compute module template', len(cm), 1)
    for q, t in cm[:1]:
        f = crate.fns[q]
        where = f"{crate.relfile(f['file'])} fn {f['name']} (template at {t[1]})"
        ss = []
        E.walk(t, lambda x: ss.append(x) if x[0] == 'star' else None)
        s = ss[0] if ss else None
        if s is None:
            rep.bad('C14.compute', 'compute-repetition', where, 'no repetition in the compute module', undecided=True)
            continue
        ent = ('elem', s[2], s[1])
        rep.check(s[1][0] == 'f' and s[1][2] == 'entry_points' and stage_only(s[4], ent, 'Compute') and not s[5], 'C14.compute', 'compute-entries', where,
                  f'compute items are generated for entries filtered by {[E.show(c, maxdepth=5) for c in s[4]]}; expected stage == Compute only', ok_detail='one item pair per compute entry')
        # the items of one entry may be appended by several statements of one loop (`items.extend(workgroup_size(e)); items.extend(pipeline(e));`):
        # repetitions over the same entries with the same selection are read as one
        bodies = [s[3]]
        for o in ss[1:]:
            if o[1] == s[1] and not o[5] and E.alpha_key((s[1], [E.Interp.rename_elem(None, c_, o[2], s[2]) for c_ in o[4]])) == E.alpha_key((s[1], list(s[4]))):
                bodies.append(E.Interp.rename_elem(None, o[3], o[2], s[2]))
        pts = [y for b_ in bodies for y in E.find_templates(b_, lambda y: '-> wgpu :: ComputePipeline {' in E.tmpl_text(y))]
        wts = [y for b_ in bodies for y in E.find_templates(b_, lambda y: ': [ u32 ; 3 ] = [' in E.tmpl_text(y))]
        rep.check(len(pts) == 1 and len(wts) == 1, 'C14.compute', 'compute-items', where, f'{len(pts)} pipeline constructors / {len(wts)} workgroup constants per entry', ok_detail='one each')
        for pt in pts[:1]:
            pt = E.flatten(pt)
            ptxt = E.tmpl_text(pt)
            hv = E.holes(pt)
            nm = hole_after_seq(pt, 'pub fn')
            okn = nm is not None and nm[0] == 'call' and nm[1] == 'Ident::new' and nm[2][0][0] == 'fmt' and nm[2][0][1] == 'create_{}_pipeline' and nm[2][0][2] == [('f', ent, 'name')]
            rep.check(okn, 'C14.compute', 'pipeline-fn-name', where, f'the constructor is named {E.show(nm, maxdepth=6) if nm else None}', ok_detail='create_<entry name>_pipeline')
            ep = hole_after_seq(pt, 'entry_point : Some (')
            rep.check(ep == ('f', ent, 'name'), 'C14.compute', 'pipeline-entry-point', where,
                      f'entry_point is Some({E.show(ep, maxdepth=5) if ep else None}); expected the entry point\'s exact name', ok_detail='entry_point: Some(entry.name)')
            from tokrules import find_struct_expr
            mm = _re.search(r'let (\w+) = super :: create_shader_module \( (\w+) \) ;', ptxt)
            lm = _re.search(r'let (\w+) = super :: create_pipeline_layout \( (\w+) \) ;', ptxt)
            desc = find_struct_expr(ptxt, 'wgpu :: ComputePipelineDescriptor')
            wiring = bool(mm and lm and desc and desc[1] and desc[1].get('layout') == ('Some', {'0': (lm.group(1), None)}) and desc[1].get('module') == (mm.group(1), None)
                          and mm.group(2) == lm.group(2) and f'{mm.group(2)} . create_compute_pipeline ( & wgpu :: ComputePipelineDescriptor' in ptxt)
            rep.check(wiring, 'C14.compute', 'pipeline-wiring', where,
                      'the constructor does not use the module\'s own create_shader_module / create_pipeline_layout', ok_detail='module and layout from this module')
        for wt in wts[:1]:
            wt = E.flatten(wt)
            wtxt = E.tmpl_text(wt)
            hd = E.holes(wt)
            wm = _re.search(r'pub const #(\w+) : \[ u32 ; 3 \] = \[ #(\w+) , #(\w+) , #(\w+) \] ;', wtxt)
            if not wm:
                # the three components as one repetition over the entry's workgroup_size (`[#(#size),*]`): all elements, in order, each printed
                # as an unsuffixed literal of the element itself
                reps = [it for it in wt[2] if it[0] == 'rep']
                rm = _re.search(r'pub const #(\w+) : \[ u32 ; 3 \] = \[ #\(', wtxt)
                okr = False
                if rm and len(reps) == 1 and reps[0][2].strip() == ',' and len(reps[0][1]) == 1 and reps[0][1][0][0] == 'hole':
                    st_ = reps[0][1][0][2]
                    okr = st_[0] == 'star' and st_[1] == ('f', ent, 'workgroup_size') and not st_[4] and not st_[5] and st_[3][0] == 'call' and \
                        st_[3][1].startswith('Literal::') and st_[3][1].endswith('unsuffixed') and strip_cast(st_[3][2][0]) == ('elem', st_[2], st_[1])
                    nm = hd.get(rm.group(1))
                    okn = nm is not None and nm[0] == 'call' and nm[1] == 'Ident::new' and nm[2][0][0] == 'fmt' and nm[2][0][1] == '{}_WORKGROUP_SIZE' and \
                        nm[2][0][2] == [('mcall', ('f', ent, 'name'), 'to_uppercase', [])]
                    rep.check(okn, 'C14.compute', 'workgroup-const-name', where, f'the workgroup constant is named {E.show(nm, maxdepth=6) if nm else None}', ok_detail='<NAME>_WORKGROUP_SIZE')
                rep.check(okr, 'C14.compute', 'workgroup-size', where,
                          f'the workgroup-size constant is not `pub const <NAME>: [u32; 3] = [x, y, z];` with the components of this entry\'s workgroup_size ({wtxt[:160]})',
                          ok_detail='[#(workgroup_size[i]),*] in order')
                continue
            nm = hd[wm.group(1)]
            okn = nm[0] == 'call' and nm[1] == 'Ident::new' and nm[2][0][0] == 'fmt' and nm[2][0][1] == '{}_WORKGROUP_SIZE' and nm[2][0][2] == [('mcall', ('f', ent, 'name'), 'to_uppercase', [])]
            rep.check(okn, 'C14.compute', 'workgroup-const-name', where, f'the workgroup constant is named {E.show(nm, maxdepth=6)}', ok_detail='<NAME>_WORKGROUP_SIZE')
            comps = [hd[wm.group(i)] for i in (2, 3, 4)]
            ok = True
            for i, c in enumerate(comps):
                okc = c[0] == 'tf' and c[2] == i and c[1][0] == 'star' and c[1][1] == ('f', ent, 'workgroup_size') and not c[1][4] and \
                    c[1][3][0] == 'call' and c[1][3][1].startswith('Literal::') and c[1][3][1].endswith('unsuffixed') and strip_cast(c[1][3][2][0]) == ('elem', c[1][2], c[1][1])
                ok = ok and okc
            rep.check(ok, 'C14.compute', 'workgroup-size', where,
                      f'the workgroup-size constant is not [x, y, z] = components 0,1,2 of this entry\'s workgroup_size ({[E.show(c, maxdepth=5) for c in comps]})',
                      ok_detail='[workgroup_size[0], [1], [2]]')
    # ---- fragment helper ----------------------------------------------------------------------------------------------------------------
    fh = E.repetition_anchor(ogp, lambda t: '-> FragmentEntry < #' in E.tmpl_text(t))
    rep.floor('fragment entry helper template', len(fh), 1)
    for q, t, s in fh[:1]:
        t = E.flatten(t)
        f = crate.fns[q]
        where = f"{crate.relfile(f['file'])} fn {f['name']} (template at {t[1]})"
        ent = ('elem', s[2], s[1])
        rep.check(s[1][0] == 'f' and s[1][2] == 'entry_points' and stage_only(s[4], ent, 'Fragment') and not s[5], 'C14.fragment', 'fragment-entries', where,
                  f'fragment helpers are generated for entries filtered by {[E.show(c, maxdepth=5) for c in s[4]]}', ok_detail='one helper per fragment entry')
        ttxt = E.tmpl_text(t)
        tc1 = hole_after_seq(t, 'targets : [ Option < wgpu :: ColorTargetState >;')
        tc2 = hole_after_seq(t, '-> FragmentEntry <')
        rep.check(tc1 is not None and tc1 == tc2 and 'FragmentEntry { entry_point : #' in ttxt and ', targets , constants : #' in ttxt, 'C14.fragment', 'target-count-sites', where,
                  'the targets array length and FragmentEntry<N> are not the same count / targets are not forwarded', ok_detail='targets: [..; N] -> FragmentEntry<N> { targets, .. }')
        nm = hole_after_seq(t, 'pub fn')
        okn = nm is not None and nm[0] == 'call' and nm[2][0][0] == 'fmt' and nm[2][0][1] == '{}_entry' and nm[2][0][2] == [('f', ent, 'name')]
        rep.check(okn, 'C14.fragment', 'fragment-fn-name', where, f'the helper is named {E.show(nm, maxdepth=5) if nm else None}', ok_detail='<entry name>_entry')
        if tc1 is not None and tc1[0] == 'call' and tc1[1].startswith('Literal::'):
            check_target_count(rep, tc1[2][0], ent, s[1][1], where)
        else:
            rep.bad('C14.fragment-target-count', 'target-count', where, f'target count is {E.show(tc1, maxdepth=4) if tc1 else None}', undecided=True)
    # ---- vertex helper existence + state forwarding -------------------------------------------------------------------------------------------
    vh = E.repetition_anchor(ogp, lambda t: '-> VertexEntry < #' in E.tmpl_text(t))
    rep.floor('vertex entry helper template', len(vh), 1)
    for q, t, s in vh[:1]:
        t = E.flatten(t)
        f = crate.fns[q]
        where = f"{crate.relfile(f['file'])} fn {f['name']} (template at {t[1]})"
        ent = ('elem', s[2], s[1])
        rep.check(s[1][0] == 'f' and s[1][2] == 'entry_points' and len(s[4]) == 1 and is_vertex_cond(s[4][0], ent), 'C14.vertex', 'vertex-entries', where, 'vertex helpers are not generated for exactly the vertex entries', ok_detail='one helper per vertex entry')
        nm = hole_after_seq(t, 'pub fn')
        okn = nm is not None and nm[0] == 'call' and nm[2][0][0] == 'fmt' and nm[2][0][1] == '{}_entry' and nm[2][0][2] == [('f', ent, 'name')]
        rep.check(okn, 'C14.vertex', 'vertex-fn-name', where, f'the helper is named {E.show(nm, maxdepth=5) if nm else None}', ok_detail='<entry name>_entry')
    from tokrules import find_struct_expr
    import re as _re
    for anchor, label, head, listf in (('pub fn vertex_state <', 'vertex_state', 'wgpu :: VertexState', 'buffers'), ('pub fn fragment_state <', 'fragment_state', 'wgpu :: FragmentState', 'targets')):
        ts = []
        for q2, v in ogp.summaries.items():
            ts += [t for t in E.find_templates(v, lambda t: t[3] == q2 and anchor in E.tmpl_text(t))]
        ok = False
        detail = 'template not found'
        if ts:
            txt = E.tmpl_text(ts[0])
            sig = _re.search(_re.escape(anchor) + r"[^(]*\( (\w+) : [^,]+ , (\w+) :", txt)
            got = find_struct_expr(txt[txt.index(anchor):], head)
            if sig and got:
                mod_p, ent_p = sig.group(1), sig.group(2)
                f_ = got[1]
                co = f_.get('compilation_options')
                ok = set(f_) == {'module', 'entry_point', listf, 'compilation_options'} and f_['module'] == (mod_p, None) and \
                    f_['entry_point'] == ('Some', {'0': (f'{ent_p}.entry_point', None)}) and f_[listf] == (f'{ent_p}.{listf}', None) and \
                    co is not None and co[0] == 'wgpu::PipelineCompilationOptions' and co[1].get('constants') == (f'{ent_p}.constants', None) and \
                    set(co[1]) == {'constants', '..'} and co[1]['..'] == ('Default::default', {})
                detail = str(got)[:300]
        rep.check(ok, 'C14.state-forwarding', label, 'entry.rs',
                  f'{label} does not forward module, Some(entry.entry_point), &entry.{listf} and &entry.constants unchanged ({detail})', ok_detail='field-wise forwarding')
    from common import include
    include(rep, 'c07', ('C07.D.buffer-count', 'C07.D.argument-order', 'C07.D.struct-arguments'), 'vertex-buffer-count')
    # the section reaches the assembled output unconditionally (shared rule, lib/sections.py)
    from sections import check_wiring
    check_wiring(rep, 'C14.section-wiring', ['& str =', 'pub mod compute', 'VertexEntry <', 'FragmentEntry <'], 'entry-sections')


def subst(term, old, new):
    if term == old:
        return new
    if isinstance(term, tuple):
        return tuple(subst(x, old, new) for x in term)
    if isinstance(term, list):
        return [subst(x, old, new) for x in term]
    return term


def strip_cast(t):
    """remove value-preserving casts of a u32 / usize quantity (to usize, u64, u32, u128, i64, i128); a narrowing cast (`as u8`, `as u16`, `as i32`,
    `as f32`) stays in place, so the comparison with the expected term fails and the truncation is reported"""
    while t[0] == 'cast' and t[2].replace(' ', '') in ('usize', 'u64', 'u32', 'u128', 'i64', 'i128'):
        t = t[1]
    return t


def check_target_count(rep, term, ent, modP, where):
    """the count must be a function of the location values the entry writes: the extracted term is evaluated on a finite family of
    result shapes (direct @location(n), builtin, no result, and result structs with every mix of located / builtin members)"""
    import engine_skel as K
    ogp = E.load()
    res = ('f', ('f', ent, 'function'), 'result')

    def loc(n):
        return V('naga::Binding::Location', location=n, second_blend_source=False, interpolation=None, sampling=None)
    bi = V('naga::Binding::BuiltIn', **{'0': V('naga::BuiltIn::FragDepth')})

    def member(b):
        return V('naga::StructMember', name=('some', 'm'), ty='h', binding=None if b is None else ('some', b), offset=0)
    cases = []
    for n in (0, 1, 3, 7):
        cases.append((f'direct @location({n})', ('some', loc(n)), V('naga::TypeInner::Vector'), n + 1))
    cases.append(('direct @builtin', ('some', bi), V('naga::TypeInner::Scalar'), 0))
    cases.append(('no result', 'NONE', None, 0))
    cases.append(('unbound non-struct result', None, V('naga::TypeInner::Vector'), 0))
    for label, ms, want in (('struct {}', [], 0), ('struct {@location(0)}', [loc(0)], 1), ('struct {@location(0), @location(1)}', [loc(0), loc(1)], 2),
                            ('struct {@location(0), @location(2)}', [loc(0), loc(2)], 3), ('struct {@location(3)}', [loc(3)], 4), ('struct {@builtin}', [bi], 0),
                            ('struct {@builtin, @location(1), @builtin}', [bi, loc(1), bi], 2), ('struct {@location(2), @location(0)}', [loc(2), loc(0)], 3)):
        cases.append((label, None, V('naga::TypeInner::Struct', members=[member(b) for b in ms], span=0), want))
    if rep.tier == 'thorough':
        # bounded-exhaustive: every member sequence of length <= 4 over {no binding, builtin, @location(0..4)}
        import itertools
        alphabet = [('-', None), ('b', bi)] + [(str(n), loc(n)) for n in range(5)]
        for ln in range(1, 5):
            for combo in itertools.product(alphabet, repeat=ln):
                locs = [int(c[0]) for c in combo if c[0].isdigit()]
                cases.append(('struct{' + ','.join(c[0] for c in combo) + '}', None, V('naga::TypeInner::Struct', members=[member(c[1]) for c in combo], span=0), (max(locs) + 1) if locs else 0))
    for label, binding, inner, want in cases:
        fr = V('naga::FunctionResult', ty='h', binding=None if binding in (None, 'NONE') else binding)
        result = None if binding == 'NONE' else ('some', fr)

        def leaf(t, result=result, inner=inner):
            if t == res:
                return (result,)
            if t[0] == 'f' and t[2] == 'inner' and t[1][0] == 'idx' and t[1][2] == ('f', ('unwrap', res), 'ty'):
                return (inner,)
            return None
        ev = K.SkelEval(ogp, None, {}, '', None, extra_leaf=leaf)
        try:
            got = ev.ev(term)
        except (Diverge, Unbound) as ex:
            got = f'<{ex}>'
        rep.check(got == want, 'C14.fragment-target-count', f'target-count:{label}', where,
                  f'a fragment entry returning {label} asks for {got} colour target(s); {want} are needed to address every @location it writes (targets[i] is addressed by @location(i))',
                  ok_detail=f'{label} -> {got}')
