"""C15 - module constants are exported with the WGSL type and exact value.

Decided on the output grammar (Engine A), anchored on the function that turns `module.constants` into `pub const` items.
  * dependence (structural, on the extracted term): the section reads only module.constants[*].{name, init}, module.global_expressions and
    module.types; the only operations applied to a literal's payload are taken from a whitelist that cannot change the value (identity,
    sign test / absolute value used to print sign and magnitude separately, comparison with zero) - in particular no cast, arithmetic or
    formatting;
  * instantiation (the grammar is instantiated, never the generator run) on a model constant list that contains, for every variant of
    naga::Literal (variants and payload types read from the pinned naga source), boundary and ordinary values (0, -0.0, negative, maximal ..),
    a zero-value constructor for every scalar kind/width, non-scalar zero values, a non-literal expression and an unnamed constant: the result
    must be exactly one `pub const <name>: <payload type> = <payload printed as a literal of that type>;` per named scalar literal / scalar zero
    value, in order, and nothing for the rest.
Because the comparison is made on the instantiated text, it does not depend on how the source splits the work (nested matches, helper
functions returning Option, a unified literal/zero-value path).
Not decided: that proc-macro2/syn/prettyplease print a float literal that parses back bit-identically (library law)."""
import engine_ogp as E
import engine_skel as K
import schema as S
from conc import V, Diverge, Unbound

PAYLOAD_OPS = ('abs', 'is_sign_negative', 'is_sign_positive', 'clone', 'to_owned', 'get')
LIT_TY = {'F64': 'f64', 'F32': 'f32', 'U32': 'u32', 'I32': 'i32', 'U64': 'u64', 'I64': 'i64', 'Bool': 'bool', 'AbstractInt': 'i64', 'AbstractFloat': 'f64'}
SAMPLES = {
    'f64': [1.5, -2.25, 0.0, -0.0, 3.0, 1.0e10], 'f32': [1.5, -2.25, 0.0, -0.0, 3.0], 'u32': [0, 7, 4294967295], 'i32': [-5, 0, 2147483647, -2147483648],
    'u64': [0, 18446744073709551615], 'i64': [-9223372036854775808, 42, 0], 'bool': [True, False],
}


def contains_payload(t):
    hit = []
    E.walk(t, lambda x: hit.append(1) if (x[0] == 'vf' and '::Literal::' in str(x[2])) or (x[0] == 'call' and str(x[1]).endswith('Literal::zero')) else None)
    return bool(hit)


def run(rep):
    ogp = E.load()
    sch = S.load()
    rep.explanation = __doc__
    rep.trusted = ['syn parser and the abstract semantics of Engine A', 'quote prints primitive values as suffixed literals of their own type',
                   'float printing/parsing round-trips (proc-macro2, syn, prettyplease, rustfmt)', 'naga::Literal::zero(scalar) as in the pinned naga source']
    lit = sch.enums['naga::Literal']
    crate = ogp.crate
    hits = []
    for q, v in ogp.summaries.items():
        if v is None:
            continue
        stars = []
        E.walk(v, lambda x: stars.append(x) if x[0] == 'star' and x[1][0] == 'f' and x[1][2] == 'constants' and x[1][1][0] == 'param' else None)
        for st in stars:
            if E.find_templates(st[3], lambda t: E.tmpl_text(t).startswith('pub const #')):
                hits.append((len(crate.call_graph()[q]), q, st))
    rep.floor('repetition over module.constants producing `pub const` items', len(hits), 1)
    if not hits:
        return
    hits.sort(key=lambda h_: h_[:2])
    _, q, st = hits[0]
    f = crate.fns[q]
    where = f"{crate.relfile(f['file'])} fn {f['name']}"
    summ = ogp.summaries[q]
    modP = st[1][1]
    rep.analysed = {'function': q, 'literal_variants': {k: v['fields'][0][1] for k, v in lit.items()}}
    rep.check(set(lit) == set(LIT_TY) and all(LIT_TY[k] == v['fields'][0][1] for k, v in lit.items()), 'C15.literal-table', 'naga-literal-variants', where,
              f'the variants / payload types of naga::Literal in the pinned source ({ {k: v["fields"][0][1] for k, v in lit.items()} }) differ from the table this rule enumerates',
              ok_detail=f'{len(lit)} variants')
    # ---- dependence ---------------------------------------------------------------------------------------------------------------------
    mod_fields, const_fields, bad_ops = set(), set(), []
    elem = ('elem', st[2], st[1])

    def dep(x):
        if x[0] == 'f' and x[1] == modP:
            mod_fields.add(x[2])
        if x[0] == 'f' and x[1] in (('tf', elem, 1), elem):
            const_fields.add(x[2])
        if x[0] == 'mcall' and contains_payload(x[1]) and x[2] not in PAYLOAD_OPS:
            bad_ops.append(f'.{x[2]}()')
        if x[0] == 'cast' and contains_payload(x[1]):
            bad_ops.append(f'as {x[2]}')
        if x[0] == 'bin' and (contains_payload(x[2]) or contains_payload(x[3])):
            other = x[3] if contains_payload(x[2]) else x[2]
            if not (x[1] in ('<', '>', '<=', '>=') and other[0] == 'lit' and float(other[2]) == 0):
                bad_ops.append(f'operator {x[1]}')
        if x[0] == 'fmt' and any(contains_payload(a) for a in x[2]):
            bad_ops.append('format!')
    E.walk(summ, dep)
    rep.check(mod_fields <= {'constants', 'global_expressions', 'types'} and const_fields <= {'name', 'init', 'ty'}, 'C15.dependence', 'reads', where,
              f'the constants section also reads module.{sorted(mod_fields - {"constants", "global_expressions", "types"})} / constant fields {sorted(const_fields - {"name", "init", "ty"})}',
              ok_detail=f'reads module.{sorted(mod_fields)}, constant.{sorted(const_fields)}')
    rep.check(not bad_ops, 'C15.value-identity', 'payload-operations', where,
              f'the payload of a literal goes through {sorted(set(bad_ops))}: a conversion can change the exported value or its type', ok_detail='payload only printed (sign / magnitude split allowed)')
    # ---- instantiation ------------------------------------------------------------------------------------------------------------------
    m = K.Model('constants')
    L = 'naga::Literal::'
    sc = {(k, w): m.scalar(k, w) for k, w in (('Float', 8), ('Float', 4), ('Float', 2), ('Uint', 4), ('Sint', 4), ('Uint', 8), ('Sint', 8), ('Bool', 1))}
    vec = m.vec(4)
    arr = m.array(sc[('Float', 4)], 3, 4)
    stt = m.struct('S', [('a', sc[('Float', 4)], None, 0)], 4)
    expected = []
    n = 0
    samples = {k: list(v) for k, v in SAMPLES.items()}
    if rep.tier == 'thorough':
        # seeded additional values: exactly representable floats (multiples of 1/64), integers over the whole range of the type
        import os, random
        rnd = random.Random(int(os.environ.get('VERIF_SEED', '0') or 0) + 15)
        rng = {'u32': (0, 2**32 - 1), 'i32': (-2**31, 2**31 - 1), 'u64': (0, 2**64 - 1), 'i64': (-2**63, 2**63 - 1)}
        for ty_ in samples:
            if ty_.startswith('f'):
                samples[ty_] += [rnd.randint(-2**20, 2**20) / 64.0 for _ in range(60)]
            elif ty_ in rng:
                samples[ty_] += [rnd.randint(*rng[ty_]) for _ in range(60)] + [2**k_ for k_ in range(0, 31, 3)]
    for var in lit:
        rty = LIT_TY.get(var)
        if rty is None:
            continue
        for val in samples[rty]:
            n += 1
            name = f'K_{var}_{n}'
            payload = val if rty == 'bool' else K.Num(rty, float(val) if rty.startswith('f') else val)
            m.const(name, sc[('Float', 4)], V('naga::Expression::Literal', **{'0': V(L + var, **{'0': payload})}))
            text = ('true' if val else 'false') if rty == 'bool' else payload.text()
            expected.append((name, f'literal {var}({text})', f'pub const {name} : {rty} = {text} ;'))
    for (k, w), h in sc.items():
        name = f'Z_{k}{w * 8}'
        m.const(name, h, V('naga::Expression::ZeroValue', **{'0': h}))
        zt = {('Float', 8): 'f64 = 0f64', ('Float', 4): 'f32 = 0f32', ('Uint', 4): 'u32 = 0u32', ('Sint', 4): 'i32 = 0i32', ('Uint', 8): 'u64 = 0u64', ('Sint', 8): 'i64 = 0i64',
              ('Bool', 1): 'bool = false'}.get((k, w))
        if zt:
            expected.append((name, f'zero value {k}{w * 8}', f'pub const {name} : {zt} ;'))
    for name, h in (('Z_vec', vec), ('Z_arr', arr), ('Z_struct', stt)):
        m.const(name, h, V('naga::Expression::ZeroValue', **{'0': h}))
    m.const('C_compose', vec, V('naga::Expression::Compose', ty=vec, components=[]))
    m.const(None, sc[('Float', 4)], V('naga::Expression::Literal', **{'0': V(L + 'F32', **{'0': K.Num('f32', 1.0)})}))
    m.const('K_last', sc[('Uint', 4)], V('naga::Expression::Literal', **{'0': V(L + 'U32', **{'0': K.Num('u32', 9)})}))
    expected.append(('K_last', 'literal U32(9u32)', 'pub const K_last : u32 = 9u32 ;'))
    m.finish()
    ev = K.SkelEval(ogp, m, {}, '', None)
    ev.markers = False
    ev.params.append({(q, p['pat']['name']): m.module for p in f['params']})
    def instantiate(consts):
        saved = m.module.fields['constants']
        m.module.fields['constants'] = consts
        try:
            return [' '.join(str(ev.tokens(x)).split()) for x in ev.iterable(ev.ev(summ), summ)]
        finally:
            m.module.fields['constants'] = saved
    try:
        got = instantiate(m.module.fields['constants'])
    except (Diverge, Unbound) as ex0:
        # some constant makes the section panic / cannot be evaluated: instantiate constant by constant to say which
        got = []
        exp_by = {e[0]: e for e in expected}
        n_und = 0
        for c_ in m.module.fields['constants']:
            cname_ = c_[1].fields['name'][1] if c_[1].fields['name'] else None
            try:
                got += instantiate([c_])
            except Diverge as ex:
                what = exp_by.get(cname_, (cname_, 'a constant that must be skipped', ''))[1]
                rep.bad('C15.zero-value' if what.startswith('zero') else 'C15.literal-row', 'panic:' + what.split('(')[0].replace('literal ', '').replace('zero value ', ''), where,
                        f'the generator panics ({ex}) on a named constant initialised by the {what}: the property requires it to be exported' +
                        ('' if cname_ in exp_by else ' or skipped') + ', never a panic')
            except Unbound as ex:
                n_und += 1
                rep.bad('C15.literal-row', f'instantiation:{cname_}', where, f'cannot instantiate the constants section for constant `{cname_}`: {ex}', undecided=True)
        if n_und:
            for r_ in ('C15.zero-value', 'C15.non-scalar-skipped', 'C15.name-identity'):
                rep.bad(r_, 'instantiation', where, f'cannot instantiate the constants section on the whole model constant list: {ex0}', undecided=True)
            return
    squash = lambda s_: s_.replace(' ', '')
    by_name = {}
    for g in got:
        parts = g.split()
        nm = parts[2] if len(parts) > 3 and parts[:2] == ['pub', 'const'] else None
        by_name.setdefault(nm, []).append(g)
    for name, what, exp in expected:
        items = by_name.get(name, [])
        rule = 'C15.zero-value' if what.startswith('zero') else 'C15.literal-row'
        key = ('C15.zero-value:' if what.startswith('zero') else 'C15.literal:') + what.split('(')[0].replace('literal ', '').replace('zero value ', '') + \
              (':' + what.split('(')[1].rstrip(')') if '(' in what else '')
        same = len(items) == 1 and squash(items[0]) == squash(exp)
        if not same and len(items) == 1 and what.startswith('zero'):
            # the zero of the declared type may be spelled without a suffix (`pub const Z: f32 = 0.0;`, `pub const N: u32 = 0;`): the declared type
            # types the literal.  (An integer literal for a float type - `f32 = 0` - does not type-check: not accepted.)
            import re as _re
            mi, me = _re.fullmatch(r'pubconst(\w+):(\w+)=(\S+);', squash(items[0])), _re.fullmatch(r'pubconst(\w+):(\w+)=(\S+);', squash(exp))
            if mi and me and mi.group(1) == me.group(1) and mi.group(2) == me.group(2):
                ty_, v_ = mi.group(2), mi.group(3)
                if ty_ in ('f32', 'f64'):
                    same = bool(_re.fullmatch(r'0(\.0*)(' + ty_ + r')?|0' + ty_, v_))
                elif ty_ == 'bool':
                    same = v_ == 'false'
                else:
                    same = bool(_re.fullmatch(r'0(' + ty_ + r')?', v_))
        rep.check(same, rule, key, where,
                  f'a named constant initialised by the {what} is exported as {items if items else "nothing"}; expected `{exp}` (declared type = the payload\'s type, value = the payload itself)',
                  ok_detail=exp)
    exp_names = [e[0] for e in expected]
    extra = [g for nm, gs in by_name.items() for g in gs if nm not in exp_names]
    rep.check(not extra, 'C15.non-scalar-skipped', 'non-scalar', where,
              f'items are also produced for non-scalar zero values / other expression kinds / unnamed constants: {extra[:3]}', ok_detail='only scalar literals and scalar zero values of named constants yield an item')
    order = [g.split()[2] for g in got if len(g.split()) > 3 and g.split()[2] in exp_names]
    rep.check(order == exp_names, 'C15.name-identity', 'names-and-order', where,
              f'the exported constants are {order[:6]}..; expected the constants\' own names in declaration order {exp_names[:6]}..', ok_detail=f'{len(order)} items, own names, declaration order')
    rep.floor('model constants compared', len(expected), 30)
    # the section reaches the assembled output unconditionally (shared rule, lib/sections.py)
    from sections import check_wiring, wiring
    check_wiring(rep, 'C15.section-wiring', ['pub const #name : #', 'pub const #'], 'constants-section')
    # ... and unaltered: what the assembling function puts into the output, instantiated on the same model list, is item for item what the
    # section produced (a filter, a rename or a post-processing step applied on the way is seen here)
    w = wiring(ogp)
    if w is not None:
        tq, res = w
        holes = []
        for name, text, bad in res:
            pass
        tops = ogp.summaries[tq]
        outs = E.find_templates(tops, lambda t: t[3] == tq and sum(1 for it in t[2] if it[0] in ('hole', 'rep')) >= 8)

        def items_of(its):
            for it in its:
                if it[0] == 'hole':
                    yield it[1], it[2]
                elif it[0] == 'rep':
                    for x in items_of(it[1]):
                        yield x
        cands = []
        for hname, term in (items_of(outs[0][2]) if outs else []):
            reads = []
            E.walk(term, lambda x: reads.append(1) if x[0] == 'f' and x[2] == 'constants' else None)
            if reads and E.find_templates(term, lambda t: E.tmpl_text(t).startswith('pub const #')):
                cands.append((hname, term))
        rep.check(len(cands) == 1, 'C15.section-wiring', 'constants-hole', where, f'{len(cands)} holes of the assembled output hold the constants section', ok_detail='one hole')
        if len(cands) == 1:
            hname, term = cands[0]
            ev2 = K.SkelEval(ogp, m, {}, '', None)
            ev2.markers = False
            ev2.params.append({(tq, p_['pat'].get('name')): m.module for p_ in crate.fns[tq]['params'] if p_['ty'].replace(' ', '').endswith('Module')})
            try:
                got2 = [' '.join(str(ev2.tokens(x)).split()) for x in ev2.iterable(ev2.ev(term), term)]
                rep.check([squash(x) for x in got2] == [squash(x) for x in got], 'C15.section-wiring', 'constants-at-output', where,
                          f'the constants put into the assembled output differ from what the section produced for the model list ({len(got2)} vs {len(got)} items; first difference: '
                          f'{next((a + " / " + b for a, b in zip(got2 + [""] * len(got), got + [""] * len(got2)) if squash(a) != squash(b)), None)})',
                          ok_detail=f'{len(got2)} items, identical to the section\'s')
            except (Diverge, Unbound) as ex:
                rep.bad('C15.section-wiring', 'constants-at-output', where, f'cannot instantiate the constants as they are put into the assembled output (`#{hname}`): {ex}', undecided=True)
