"""C15 - module constants are exported with the WGSL type and exact value.

Decided on the output grammar (Engine A), anchored on the repetition over `module.constants`:
  * one `pub const <name>: <ty> = <value>;` production per element, name = the constant's own name (identity);
  * for every variant of naga::Literal (variants and payload types read from the pinned naga source) there is a row whose
    declared type token equals the payload's Rust type and whose value hole is the bound payload itself with an empty
    conversion chain (quote prints a suffixed literal of that type, so type and value always agree and the value is exact);
  * scalar zero-value constructors (`const Z = u32();`, kept by naga as Expression::ZeroValue) are exported as the zero of
    their scalar type for every scalar kind/width; zero values of non-scalar types and all other expression kinds yield no
    item; the only filters are "has a name" and "is a scalar literal / scalar zero value".
Not decided: that proc-macro2/syn/prettyplease print a float literal that parses back bit-identically (library law)."""
import engine_ogp as E
import schema as S

TRUE = ('true',)


def atoms(c, out):
    if c[0] == 'okcond':
        atoms(c[1], out)
    elif c[0] in ('and', 'or'):
        for x in c[1]:
            atoms(x, out)
    elif c[0] == 'not':
        atoms(c[1], out)
    elif c[0] == 'alt':
        for a, b in c[1]:
            atoms(a, out)
            atoms(b, out)
    elif c[0] not in ('true', 'false'):
        out.append(c)


def derived(term, base):
    found = [False]

    def f(x):
        if x == base:
            found[0] = True
            return False
    E.walk(term, f)
    return found[0]


def find_stars(term, pred):
    out = []
    E.walk(term, lambda x: out.append(x) if x[0] == 'star' and pred(x) else None)
    return out


def run(rep):
    ogp = E.load()
    sch = S.load()
    rep.explanation = __doc__
    rep.trusted = ['syn parser and the abstract semantics of Engine A', 'quote prints primitive values as suffixed literals of their own type',
                   'float printing/parsing round-trips (proc-macro2, syn, prettyplease, rustfmt)']
    lit = sch.enums['naga::Literal']
    hits = []
    for q, v in ogp.summaries.items():
        for st in find_stars(v, lambda s: s[1][0] == 'f' and s[1][2] == 'constants' and s[1][1][0] == 'param'):
            ts = E.find_templates(st[3], lambda t: E.tmpl_text(t).startswith('pub const #'))
            if ts:
                hits.append((q, st, ts[0]))
    rep.floor('repetition over module.constants producing `pub const` items', len(hits), 1)
    if not hits:
        return
    hits.sort(key=lambda h_: len(ogp.crate.call_graph()[h_[0]]))   # the innermost function that contains the whole repetition
    q, st, tmpl = hits[0]
    f = ogp.crate.fns[q]
    where = f"{ogp.crate.relfile(f['file'])} fn {f['name']} (template at {tmpl[1]})"
    elem = ('elem', st[2], st[1])
    item = ('tf', elem, 1)
    text = E.tmpl_text(tmpl)
    hs = E.holes(tmpl)
    rep.analysed = {'function': q, 'template': text, 'literal_variants': {k: v['fields'][0][1] for k, v in lit.items()}}
    rep.check(text.split() == ['pub', 'const', '#' + list(hs)[0], ':', '#' + list(hs)[1], ';'] if len(hs) == 2 else False, 'C15.item-shape', 'item-shape', where,
              f'the constant item is not `pub const #name : #type_and_value ;` (found `{text}`)', ok_detail=text)
    if len(hs) != 2:
        return
    name_t, tv = list(hs.values())
    want_name = ('call', 'Ident::new', [('unwrap', ('f', item, 'name'))])
    rep.check(name_t == want_name, 'C15.name-identity', 'name', where,
              f'the constant\'s Rust name is not the WGSL name unchanged (found {E.show(name_t, maxdepth=6)})', ok_detail='Ident::new(constant.name)')
    # decision rows
    rows = {}
    scrut = []

    def f_alt(x):
        if x[0] == 'alt':
            for c, v in x[1]:
                if c[0] == 'is' and '::Literal::' in c[2]:
                    rows.setdefault(c[2].split('::')[-1], []).append((c, v))
                    if not any(c[1] == s for s in scrut):
                        scrut.append(c[1])
    E.walk(tv, f_alt)
    rep.check(len(scrut) == 1, 'C15.scrutinee', 'scrutinee', where, f'expected one naga::Literal scrutinee, found {len(scrut)}', ok_detail=E.show(scrut[0], maxdepth=6) if scrut else '')
    if len(scrut) != 1:
        return
    L = scrut[0]
    wantL = ('vf', ('idx', ('f', st[1][1], 'global_expressions'), ('f', item, 'init')), 'naga::Expression::Literal', '0')
    rep.check(L == wantL, 'C15.literal-source', 'literal-source', where,
              f'the literal is not module.global_expressions[constant.init] of the same constant (found {E.show(L, maxdepth=7)})',
              ok_detail='module.global_expressions[constant.init] as Expression::Literal')
    for vname, info in lit.items():
        pty = info['fields'][0][1] if info['fields'] else None
        key = f'C15.literal-type:{vname}'
        if vname not in rows:
            rep.bad('C15.literal-row', key, where, f'no row for naga::Literal::{vname}: named constants of that type are silently not exported')
            continue
        c, v = rows[vname][0]
        ts = E.find_templates(v, lambda t: True)
        if not ts:
            rep.bad('C15.literal-row', key, where, f'the row for naga::Literal::{vname} yields no item ({E.show(v, maxdepth=4)})')
            continue
        t = ts[0]
        txt = E.tmpl_text(t).split()
        hh = E.holes(t)
        ok_shape = len(txt) == 3 and txt[1] == '=' and txt[2].startswith('#') and len(hh) == 1
        if not ok_shape:
            rep.bad('C15.literal-row', key, where, f'row {vname}: expected `<type> = #value`, found `{" ".join(txt)}`')
            continue
        rep.check(txt[0] == pty, 'C15.literal-type', key, f'{where} row {vname}',
                  f'naga::Literal::{vname}({pty}) is declared as `{txt[0]}`: quote prints the value as a `{pty}` literal, so `pub const X: {txt[0]} = 1{pty};` does not compile '
                  f'(or silently changes the type)', ok_detail=f'{vname}({pty}) -> `{txt[0]} = #v`')
        hv = list(hh.values())[0]
        rep.check(hv == ('vf', L, c[2], '0'), 'C15.value-identity', f'C15.value:{vname}', f'{where} row {vname}',
                  f'the value of a {vname} constant is not the literal payload itself (found {E.show(hv, maxdepth=6)}): a conversion changes the exported value',
                  ok_detail='value hole = the bound payload, no conversion')
    extra_rows = [r for r in rows if r not in lit]
    # filters
    at = []
    for c in st[4]:
        atoms(c, at)
    bad = []
    for a in at:
        if a[0] == 't' and a[1][0] in ('is_ok', 'is_some') and a[1][1] == ('f', item, 'name'):
            continue
        if a[0] == 'is' and (a[2].endswith('Expression::Literal') or '::Literal::' in a[2]):
            continue
        if a[0] == 'is' and a[2].endswith('Expression::ZeroValue') and a[1] == wantL[1]:
            continue
        zty = ('f', ('idx', ('f', st[1][1], 'types'), ('vf', wantL[1], 'naga::Expression::ZeroValue', '0')), 'inner')
        if a[0] in ('is', 'eq') and derived(a[1], zty):
            continue   # type tests on the zero value's own type (judged row by row by the zero-value rule)
        if a[0] == 'is' and a[2].split('::')[-1] in ('Some', 'None') and a[1] == ('f', item, 'name'):
            continue
        bad.append(a)
    rep.check(not bad, 'C15.filters', 'filters', where, f'constants are additionally filtered by {[E.show(a, maxdepth=4) for a in bad][:3]}: some named scalar constants are not exported',
              ok_detail='only "has a name" and "is a scalar literal"')
    # other expression kinds yield nothing
    non_lit = []

    def f_expr(x):
        if x[0] == 'alt':
            for c, v in x[1]:
                if c[0] == 'is' and '::Expression::' in c[2] and not c[2].endswith(('::Literal', '::ZeroValue')):
                    if E.find_templates(v, lambda t: True):
                        non_lit.append(c[2])
    E.walk(tv, f_expr)
    rep.check(not non_lit, 'C15.non-scalar-skipped', 'non-scalar', where, f'expression kinds {non_lit} also produce constant items', ok_detail='only Expression::Literal and scalar Expression::ZeroValue yield an item')
    rep.floor('rows of the literal table', sum(1 for v in lit if v in rows), len(lit))
    # ---- scalar zero-value constructors (`const Z = u32();` stays Expression::ZeroValue in naga's IR) -------------------------------
    from conc import Eval, V, Diverge, Unbound
    import leaf_tables as LT
    expr = wantL[1]
    tyinner = ('f', ('idx', ('f', st[1][1], 'types'), ('vf', expr, 'naga::Expression::ZeroValue', '0')), 'inner')
    TI = 'naga::TypeInner::'
    pts = [(f'scalar/{k}{w * 8}', V(TI + 'Scalar', **{'0': LT.scalar_v(k, w)}), LT.rust_scalar(k, w)) for k, w in LT.SCALARS]
    pts += [('vector', V(TI + 'Vector', size=LT.vsize(3), scalar=LT.scalar_v('Float', 4)), None),
            ('matrix', V(TI + 'Matrix', columns=LT.vsize(2), rows=LT.vsize(2), scalar=LT.scalar_v('Float', 4)), None),
            ('array', V(TI + 'Array', base='h', size=V('naga::ArraySize::Constant', **{'0': 2}), stride=4), None),
            ('struct', V(TI + 'Struct', members=(), span=4), None)]
    for label, inner, rty in pts:
        def leaf(t, inner=inner):
            if t == expr:
                return (V('naga::Expression::ZeroValue', **{'0': 'h'}),)
            if t == tyinner:
                return (inner,)
            if t[0] in ('is_ok', 'is_some') and t[1] == ('f', item, 'name'):
                return (True,)
            return None
        ev = Eval(leaf, lenient=False)
        key = f'C15.zero-value:{label}'
        try:
            emitted = all(ev.truth(c) for c in st[4])
            text = ev.ev(tv) if emitted else None
        except Diverge:
            emitted, text = False, None
        except Unbound as u:
            rep.bad('C15.zero-value', key, where, f'cannot evaluate the constant table for a zero-value constructor of type {label}: {u}', undecided=True)
            continue
        if rty is None:
            rep.check(not emitted, 'C15.zero-value', key, where, f'a zero-value constant of non-scalar type ({label}) is exported as `{text}`', ok_detail='skipped')
        else:
            want = 'bool = false' if rty == 'bool' else f'{rty} = 0{rty}'
            alt_ok = text is not None and text.replace(' ', '') in (want.replace(' ', ''), f'{rty}=0.0{rty}', f'{rty}=0' if rty != 'bool' else 'bool=false', f'{rty}=0.0' if rty[0] == 'f' else '')
            rep.check(emitted and alt_ok, 'C15.zero-value', key, where,
                      f'`const Z = {rty}();` (naga keeps it as Expression::ZeroValue of a scalar type) is ' + (f'exported as `{text}`' if emitted else 'not exported at all') +
                      f'; expected `pub const Z: {want};`: a named scalar constant is missing from / wrong in the bindings',
                      ok_detail=f'{label} -> `{text}`')
