"""C09 - derives and repr follow the write options exactly.

Decided on the output grammar (Engine A) at the function that iterates module.types and emits the struct items:
  * guard truth table: for every assignment of the six atoms {derive_bytemuck_vertex, derive_bytemuck_host_shareable,
    derive_encase_host_shareable, derive_serde, host_shareable, ends-in-runtime-array} (64 rows) the set of derives pushed
    onto the derive list, the presence of #[repr(C)] and of the layout assertions are evaluated from the extracted guards and
    compared with the property's table (DESIGN appendix A.4); rows on which the generator panics must be exactly the
    documented ones (runtime array without encase; runtime array with a bytemuck derive);
  * non-interference: in the top-level output template no hole other than the struct section depends on any field of
    WriteOptions; `validate` and `rustfmt` are read only by their gates (C17/C19 rules).
Not decided: the derive macros themselves (library)."""
import itertools
import engine_ogp as E
import engine_skel as K
from conc import Eval, V, Diverge, Unbound
from rules.c06 import struct_template

ATOMS = ['derive_bytemuck_vertex', 'derive_bytemuck_host_shareable', 'derive_encase_host_shareable', 'derive_serde']


def expected(row):
    bv, bh, en, se, hs, rts = (row[k] for k in ATOMS + ['hs', 'rts'])
    pod = (bv and not hs) or (bh and hs)
    panics = (rts and not en) or (rts and pod)
    d = ['Debug', 'Clone', 'PartialEq']
    if not rts:
        d.append('Copy')
    if pod:
        d += ['bytemuck :: Pod', 'bytemuck :: Zeroable']
    if en and hs:
        d.append('encase :: ShaderType')
    if se:
        d += ['serde :: Serialize', 'serde :: Deserialize']
    return panics, sorted(d), (not rts), (bh and hs)


def mentions(term, pred):
    found = [False]

    def f(x):
        if pred(x):
            found[0] = True
            return False
    E.walk(term, f)
    return found[0]


def is_rts_any(x):
    return x[0] == 'any' and 'Dynamic' in E.show(x[2], maxdepth=12)


def run(rep):
    ogp = E.load()
    rep.explanation = __doc__
    rep.exhaustive = True
    rep.trusted = ['syn parser and the abstract semantics of Engine A', 'the derive macros behave as documented']
    # driver: function whose summary iterates module.types and contains the struct template
    hits = []
    for q, v in ogp.summaries.items():
        stars = []
        E.walk(v, lambda x: stars.append(x) if x[0] == 'star' and x[1][0] == 'f' and x[1][2] == 'types' and x[1][1][0] == 'param' else None)
        for st in stars:
            ts = E.find_templates(st[3], lambda t: 'pub struct #' in E.tmpl_text(t) and 'derive ( #(' in E.tmpl_text(t))
            if ts:
                hits.append((q, st, ts[0]))
    rep.floor('function emitting struct items from module.types', len(hits), 1)
    if not hits:
        return
    hits.sort(key=lambda h: len(ogp.crate.call_graph()[h[0]]))
    q, st, tmpl = hits[0]
    f = ogp.crate.fns[q]
    where = f"{ogp.crate.relfile(f['file'])} fn {f['name']} -> struct template {tmpl[1]}"
    optP = [('param', q, p['pat']['name']) for p in f['params'] if 'WriteOptions' in p['ty']]
    rep.check(len(optP) == 1, 'C09.anchor', 'options-param', where, 'struct section has no WriteOptions parameter', ok_detail='options parameter found')
    if not optP:
        return
    optP = optP[0]
    elem = ('elem', st[2], st[1])
    hs_ = E.holes(tmpl)
    # the struct item is instantiated per truth-table row (names, members and sizes stay symbolic) and read as text: the derive list is whatever is
    # printed inside `#[derive(..)]`, #[repr(C)] and the assertions are present or not - whichever template / helper / early return produces them
    import re as _re
    item_term = st[3]
    entries = []        # (condition, value) of every conditional contribution inside the item, for the atom analysis below

    def collect_entries(x):
        if x[0] == 'acc':
            for en in ogp.accs[x[1]]['entries']:
                entries.append({'cond': en['cond'], 'val': en['val']})
                E.walk(en['val'], collect_entries)
        if x[0] == 'alt':
            for c, v in x[1]:
                entries.append({'cond': c, 'val': v})
    E.walk(item_term, collect_entries)
    repr_term = assert_term = True
    # atoms
    inner = ('f', ('tf', elem, 1), 'inner')
    diverges = [e for e in ogp.effects.get(q, []) if e['kind'] == 'diverge' and e['what'] in ('panic', 'todo', 'unreachable', 'unimplemented', 'assert')]
    relevant = [e for e in diverges if mentions(e['cond'], lambda x: (x[0] == 'f' and x[1] == optP and x[2] in ATOMS) or is_rts_any(x))]
    rep.analysed = {'function': q, 'derive_entries': len(entries), 'panic_sites_depending_on_options_or_runtime_arrays': len(relevant), 'rows': 64}
    # ---- the "ends in a runtime-sized array" atom is what it says: some member of THIS struct (all of them looked at) has a type that is an
    # array of dynamic size - the truth table below only varies its value, this rule fixes its meaning
    rts_terms = []
    def note_rts(x):
        if is_rts_any(x) and not any(x == y for y in rts_terms):
            rts_terms.append(x)
    E.walk(item_term, note_rts)
    for en_ in entries:
        E.walk(en_['cond'], note_rts)
    for e_ in diverges:
        E.walk(e_['cond'], note_rts)
    want_src = ('vf', inner, 'naga::TypeInner::Struct', 'members')
    TI = 'naga::TypeInner::'
    for n_, x in enumerate(rts_terms):
        stx = x[1]
        el = ('elem', stx[2], stx[1])
        # a selection that only removes builtin members is harmless (a builtin is never an array); anything else looks at a part of the members
        only_builtin_filter = all(c_[0] == 'not' and 'Binding::BuiltIn' in repr(c_) and repr(c_).count("'is'") <= 2 for c_ in stx[4])
        # the members of a struct of the module: of this very element, or - when the items are rendered from records built in an earlier pass over
        # module.types - of the element of that pass (the record then belongs to that struct by construction)
        src_ = stx[1]
        is_members = src_ == want_src or (src_[0] == 'vf' and src_[2] == 'naga::TypeInner::Struct' and src_[3] == 'members' and src_[1][0] == 'f' and src_[1][2] == 'inner' and
                                          src_[1][1][0] == 'tf' and src_[1][1][2] == 1 and src_[1][1][1][0] == 'elem' and src_[1][1][1][2] == st[1])
        # (what the predicate is applied to - the member, or something mapped from it - is judged by the truth table below: only the type of THIS
        # element's member is defined there)
        ok_src = is_members and not stx[5] and only_builtin_filter
        mt = ('f', ('idx', ('f', st[1][1], 'types'), ('f', el, 'ty')), 'inner')
        got = {}
        for label, innerv in (('array<T>', V(TI + 'Array', base='B', size=V('naga::ArraySize::Dynamic'), stride=16)),
                              ('array<T,4>', V(TI + 'Array', base='B', size=V('naga::ArraySize::Constant', **{'0': 4}), stride=16)),
                              ('f32', V(TI + 'Scalar', **{'0': V('naga::Scalar', kind=V('naga::ScalarKind::Float'), width=4)})),
                              ('struct', V(TI + 'Struct', members=(), span=4))):
            def leaf_(t, innerv=innerv):
                return (innerv,) if t == mt else None
            try:
                got[label] = Eval(leaf_, lenient=False).truth(x[2])
            except (Diverge, Unbound) as ex:
                got[label] = f'<{ex}>'
        ok_cond = got == {'array<T>': True, 'array<T,4>': False, 'f32': False, 'struct': False}
        rep.check(ok_src and ok_cond, 'C09.rts-atom', f'rts-atom#{n_}' if n_ else 'rts-atom', where,
                  f'"the struct ends in a runtime-sized array" is computed as any({E.show(stx[1], maxdepth=5)}'
                  f'{" filtered by " + str([E.show(c_, maxdepth=4) for c_ in stx[4]][:2]) if stx[4] and not only_builtin_filter else ""}, member type -> {got}); expected: some member of '
                  f'this struct - all members looked at - has a type that is an array of dynamic size', ok_detail='any member of the struct is an array of dynamic size')
    rep.floor('runtime-sized-array atom of the derive guards', len(rts_terms), 1)
    # the options reach the generating function and its sections exactly as the caller gave them (shared MIR rule, lib/wrappers.py)
    from wrappers import check_option_passthrough
    check_option_passthrough(rep, 'C09.options-passthrough')
    unknown_atoms = set()
    n_rows = 0
    # conditions inherited from the selection of the struct (C08's predicate) are fixed to "a struct taken by an entry point and not
    # returned by one" - the derive guards are judged for structs that are emitted
    from rules.c08 import classify_ep
    sel_cache = {}

    def selection_atom(t):
        """value of a condition on the entry points (an `any` over them, or membership of this type in a set collected from them) for a struct
        that some entry point takes as an argument and none returns"""
        if t[0] != 'any' and not (t[0] == 'mcall' and t[2] == 'contains' and t[3] == [('tf', elem, 0)] and t[1][0] != 'new'):
            return None
        k = repr(t)
        if k not in sel_cache:
            tb = classify_ep(ogp, t, st[1][1], ('tf', elem, 0))
            sel_cache[k] = tb
        return sel_cache[k]
    # a struct that is not host-shareable is emitted only as an entry-point argument that no entry point returns (A false, B true); a
    # host-shareable one may be any of the four - its derives must not depend on that
    combos = []
    for vals in itertools.product([False, True], repeat=6):
        for ab in ([(False, True)] if not vals[4] else [(False, True), (False, False), (True, False), (True, True)]):
            combos.append((vals, ab))
    uses_ep = [False]
    for vals, ab in combos:
        if ab != (False, True) and not uses_ep[0]:
            continue        # the guards consult no condition on the entry points: the extra rows would repeat the first
        row = dict(zip(ATOMS + ['hs', 'rts'], vals))

        def leaf(t, row=row, ab=ab):
            if t[0] == 'f' and t[1] == optP and t[2] in ATOMS:
                return (row[t[2]],)
            if is_rts_any(t):
                return (row['rts'],)
            sa = selection_atom(t)
            if sa is not None:
                uses_ep[0] = True
                return (sa[ab],)
            if t[0] == 'mcall' and t[2] == 'contains' and len(t[3]) == 1 and t[3][0] == ('tf', elem, 0):
                return (row['hs'],)
            if t == inner:
                return (V('naga::TypeInner::Struct', members=(), span=0),)
            return None
        ev = Eval(leaf, lenient=False)
        label = ''.join('1' if v else '0' for v in vals)
        key = f'row:{label}' + ('' if ab == (False, True) else f':entry-result={int(ab[0])},entry-argument={int(ab[1])}')
        exp_panic, exp_der, exp_repr, exp_assert = expected(row)
        try:
            panics = False
            for e in relevant:
                if ev.truth(e['cond']):
                    panics = True
            sk = K.SkelEval(ogp, None, {}, '', None, extra_leaf=leaf)
            sk.markers = False
            sk.lenient = True
            sk.elems[st[2]] = V('model::TypeEntry')     # the type under consideration: everything the guards read of it is an atom above
            sk.pos[st[2]] = 0
            got, has_repr, has_assert = [], None, None
            if not panics:
                text = ' '.join(str(sk.tokens(sk.ev(item_term))).split())
                dm = _re.findall(r'# \[ derive \( (.*?) \) \] pub struct', text)
                if len(dm) != 1 or '#' in dm[0]:
                    raise Unbound(('derive list', text[:200]))
                got = [x.strip() for x in dm[0].split(' , ') if x.strip()]
                has_repr = '# [ repr ( C ) ] # [ derive (' in text
                has_assert = 'assert !' in text
        except Unbound as u:
            rep.bad('C09.guards', key, where, f'cannot evaluate the derive guards at row {row}: {u}', undecided=True)
            continue
        except Diverge as d:
            panics = True
            got, has_repr, has_assert = [], None, None
        n_rows += ab == (False, True)
        desc = ', '.join(f'{k}={int(v)}' for k, v in row.items()) + ('' if ab == (False, True) else f', entry result={int(ab[0])}, entry argument={int(ab[1])}')
        if exp_panic or panics:
            rep.check(exp_panic == panics, 'C09.panic-rows', key, where,
                      f'[{desc}] generator {"panics" if panics else "does not panic"}, the documented behaviour is {"a panic" if exp_panic else "output"} '
                      f'(runtime-sized arrays need encase and exclude bytemuck only for the role the switch applies to)', ok_detail=f'[{desc}] documented panic')
            continue
        dup = len(got) != len(set(got))
        rep.check(sorted(got) == exp_der and not dup, 'C09.derives', key, where,
                  f'[{desc}] derives {sorted(got)}; expected {exp_der}', ok_detail=f'[{desc}] {", ".join(sorted(got))}')
        rep.check(has_repr == exp_repr, 'C09.repr', key, where, f'[{desc}] #[repr(C)] {"present" if has_repr else "absent"}; expected {"present" if exp_repr else "absent"}',
                  ok_detail=f'repr(C)={has_repr}')
        rep.check(has_assert == exp_assert, 'C09.assertions', key, where,
                  f'[{desc}] layout assertions {"present" if has_assert else "absent"}; expected {"present" if exp_assert else "absent"}', ok_detail=f'assertions={has_assert}')
    rep.floor('truth-table rows evaluated', n_rows, 64)
    # the `host_shareable` atom: membership of this type's handle in the closure set of all module-scope variable types
    sets = []
    for en in entries:
        E.walk(en['cond'], lambda x: sets.append(x[1]) if x[0] == 'mcall' and x[2] == 'contains' and x[3] == [('tf', elem, 0)] and selection_atom(x) is None
               and not any(x[1] == s_ for s_ in sets) else None)
    rep.check(len(sets) == 1, 'C09.host-shareable-atom', 'one-set', where, f'the derive guards consult {len(sets)} different sets for "host-shareable"', ok_detail='one closure set')
    if len(sets) == 1:
        from rules.c08 import closure_discipline
        closure_discipline(ogp, rep, 'C09.host-shareable-atom', q, sets[0], st[1][1], where)
    # ---- non-interference --------------------------------------------------------------------------------------------------------
    tops = [tq for tq in ogp.summaries if any(c[0] == tq and c[1] == q for c in ogp.it.inline_calls) and 'WriteOptions' in str([p['ty'] for p in ogp.crate.fns[tq]['params']])]
    rep.floor('top-level function handing the options to the struct section', len(tops), 1)
    for tq in tops:
        tf = ogp.crate.fns[tq]
        twhere = f"{ogp.crate.relfile(tf['file'])} fn {tf['name']}"
        tP = [('param', tq, p['pat']['name']) for p in tf['params'] if 'WriteOptions' in p['ty']][0]
        top = ogp.summaries[tq]
        outs = E.find_templates(top, lambda t: t[3] == tq and sum(1 for it in t[2] if it[0] in ('hole', 'rep')) >= 8)
        if not outs:
            rep.bad('C09.non-interference', f'output-template:{tq}', twhere, 'cannot find the template that assembles the sections', undecided=True)
            continue
        out = outs[0]
        n_holes = 0
        for name, term in E.holes(out).items():
            n_holes += 1
            has_struct = bool(E.find_templates(term, lambda t: t is tmpl or ('pub struct #' in E.tmpl_text(t) and 'derive ( #(' in E.tmpl_text(t))))
            reads = []

            def visit(x):
                if x[0] == 'okcond':
                    return False   # "an earlier `?` succeeded" (e.g. validation passed) is not a dependence of the output on the option
                if (x[0] == 'f' and x[1] == tP) or x == tP:
                    reads.append(x[2] if x[0] == 'f' else '<whole>')
            E.walk(term, visit)
            reads = sorted(set(r for r in reads if r != '<whole>' or not has_struct))
            if has_struct:
                rep.ok('C09.non-interference', f'section:{name.lstrip("*")}', twhere, f'struct section reads options fields {reads}')
                continue
            rep.check(not reads, 'C09.non-interference', f'section:{name.lstrip("*")}', twhere,
                      f'section `{name}` of the output depends on WriteOptions field(s) {reads}: an option changes a part of the output other than the one it documents',
                      ok_detail='independent of the options')
        rep.floor('sections of the assembled output', n_holes, 10)
        # conditions on options outside the gates: effects whose condition reads a derive/representation option outside the struct section
        leaks = []
        for e in ogp.effects.get(tq, []):
            if e['in'] == q or e['in'] in struct_section(ogp, q):
                continue
            rd = []
            E.walk(e['cond'], lambda x: rd.append(x[2]) if x[0] == 'f' and x[1] == tP and x[2] not in ('validate', 'rustfmt') else None)
            if rd:
                leaks.append((e['in'], sorted(set(rd))))
        rep.check(not leaks, 'C09.non-interference', f'conditions:{tq}', twhere, f'code outside the struct section runs conditionally on options {leaks[:3]}',
                  ok_detail='no effect outside the struct section is conditional on a derive/representation option')
    # the section reaches the assembled output unconditionally (shared rule, lib/sections.py)
    from sections import check_wiring
    check_wiring(rep, 'C09.section-wiring', ['derive ( #('], 'struct-section')


def struct_section(ogp, q):
    g = ogp.crate.call_graph()
    seen, st = set(), [q]
    while st:
        x = st.pop()
        if x in seen:
            continue
        seen.add(x)
        st.extend(g.get(x, ()))
    return seen
