"""C18 - output is a pure function of source and options: effect discipline over all resolved callees.

Decided (whole crate, resolved MIR, non-test build, every path):
  R1 no hash-order dependence: iteration over HashMap/HashSet (any hasher) is only accepted when the consumer is
     order-insensitive (any/all/count/min/max/sum, collect into an ordered or hashed container, collect into a Vec that is
     sorted before any other use); Debug-formatting a hash container is order-dependent too;
  R2 no ambient input in code reachable from the generating entry points: no std::env, time, fs, net, thread,
     process::id, RandomState, stdin, pointer-address formatting or pointer->integer casts;
  R3 no retained state: the crate has no `static mut`, no static with interior mutability, no thread-locals and refers to
     no such static;
  R4 process spawning only in the formatter functions, which are reachable from the entry points only through a call
     site guarded by the `rustfmt` option;
  R5 the spawned child is reaped: from the point where the Child exists every path to a normal return passes wait() /
     wait_with_output() (helpers inlined; the None edge of `stdin.take()?` on a piped stdin is infeasible).
Not decided: determinism of naga's front end, prettyplease and rustfmt themselves (trusted)."""
from engine_mir import Mir, op_local, op_place
from rules.c20 import canon

HASHY = ('std::collections::HashSet', 'std::collections::HashMap', 'std::collections::hash_set::',
         'std::collections::hash_map::', 'hashbrown::', 'rustc_hash::', 'FxHashMap', 'FxHashSet', 'FastHashMap',
         'FastHashSet', 'HashSet<', 'HashMap<')
ITER_METHODS = ('iter', 'iter_mut', 'into_iter', 'keys', 'values', 'values_mut', 'into_keys', 'into_values', 'drain',
                'retain', 'extract_if', 'difference', 'intersection', 'union', 'symmetric_difference')
ADAPTERS = ('map', 'filter', 'filter_map', 'cloned', 'copied', 'flat_map', 'flatten', 'chain', 'inspect', 'peekable',
            'by_ref', 'into_iter', 'map_while', 'fuse', 'rev')
INSENSITIVE = ('any', 'all', 'count', 'min', 'max', 'min_by', 'max_by', 'min_by_key', 'max_by_key', 'sum', 'product',
               'len', 'is_empty')
ORDERED_TARGETS = ('BTreeSet', 'BTreeMap', 'HashSet', 'HashMap', 'BinaryHeap')
SORTS = ('sort', 'sort_unstable', 'sort_by', 'sort_by_key', 'sort_unstable_by', 'sort_unstable_by_key',
         'sort_by_cached_key')

AMBIENT_PREFIX = ('std::env::', 'std::time::', 'std::fs::', 'std::net::', 'std::thread::', 'std::process::id',
                  'std::io::stdin', 'std::io::Stdin', 'std::os::', 'std::path::Path::exists', 'std::path::Path::canonicalize',
                  'std::path::Path::metadata', 'std::path::Path::read_dir', 'std::path::Path::is_file',
                  'std::path::Path::is_dir', 'std::path::Path::read_link', 'std::path::Path::try_exists',
                  'std::path::absolute', 'std::hash::RandomState', 'std::collections::hash_map::RandomState',
                  'std::hash::random::RandomState', 'rand::', 'getrandom::', 'fastrand::', 'std::sync::atomic::',
                  'core::sync::atomic::', 'std::sync::OnceLock', 'std::sync::LazyLock', 'std::sync::Once::',
                  'std::cell::OnceCell', 'std::sync::Mutex', 'std::sync::RwLock', 'std::thread::LocalKey',
                  'core::fmt::rt::Argument::<\'_>::new_pointer', 'std::ptr::addr', 'core::ptr::addr',
                  'std::time::SystemTime', 'std::time::Instant', 'tempfile::', 'std::io::stdout', 'std::io::Stdout')
AMBIENT_CONTAINS = ('::addr', 'expose_provenance', 'RandomState', 'hash_one', 'thread::current', 'ThreadId')
PROCESS = ('std::process::Command', 'std::process::Stdio', 'std::process::Child', 'std::process::ExitStatus',
           'std::process::Output')


def cname(t):
    return t['callee'] or t['raw']


def mentions_hash(s):
    return any(h in s for h in HASHY)


def method(c):
    return c.rsplit('::', 1)[-1]


def uses_local(body, l):
    """blocks whose statements/terminator mention local l (as operand or place base); returns list of (bb, what)"""
    out = []
    for b, blk in enumerate(body.blocks):
        for st in blk['stmts']:
            ps = body.rvalue_places(st['rv'])
            if any(p['l'] == l for p in ps):
                out.append((b, 'stmt', st))
        t = blk['term']
        if t['k'] == 'call':
            if any(op_local(a) == l for a in t['args']):
                out.append((b, 'call', t))
        elif t['k'] == 'switch' and op_local(t['discr']) == l:
            out.append((b, 'switch', t))
        elif t['k'] == 'drop' and t['place']['l'] == l:
            out.append((b, 'drop', t))
    return out


def consumer_ok(body, start_local, depth=0):
    """follow an iterator value forward to its consumer; (ok, description)"""
    if depth > 12:
        return False, 'adapter chain too long to follow'
    uses = [u for u in uses_local(body, start_local) if u[1] != 'drop']
    if not uses:
        return True, 'iterator never consumed'
    verdicts = []
    for b, kind, x in uses:
        if kind == 'stmt':
            # moved/borrowed into another local
            lhs = x['lhs']
            if lhs['p']:
                return False, 'iterator stored into a projection'
            ok, d = consumer_ok(body, lhs['l'], depth + 1)
            verdicts.append((ok, d))
            continue
        if kind == 'switch':
            verdicts.append((True, 'branch'))
            continue
        c = cname(x)
        m = method(c)
        if m in INSENSITIVE and ('Iterator' in c or 'iter' in c.lower() or mentions_hash(c)):
            verdicts.append((True, f'order-insensitive consumer {m}'))
        elif m in ('collect', 'from_iter', 'extend', 'unzip'):
            tgt = x['generics'] + ' ' + body.locals[x['dest']['l']]
            dest_ty = body.locals[x['dest']['l']]
            if m == 'extend':
                dest_ty = body.locals[op_local(x['args'][0])] if op_local(x['args'][0]) is not None else ''
            if any(o in dest_ty for o in ORDERED_TARGETS):
                verdicts.append((True, f'collected into {dest_ty[:40]}'))
            elif 'Vec<' in dest_ty and m == 'collect':
                ok, d = sorted_before_use(body, x['dest']['l'], b)
                verdicts.append((ok, d))
            else:
                verdicts.append((False, f'{m} into order-preserving {dest_ty[:60]}'))
        elif m in ADAPTERS or (m == 'into_iter'):
            if x['dest'] and not x['dest']['p']:
                ok, d = consumer_ok(body, x['dest']['l'], depth + 1)
                verdicts.append((ok, d))
            else:
                verdicts.append((False, 'adapter result stored into projection'))
        elif m == 'next' or m in ('for_each', 'fold', 'try_fold', 'reduce', 'find', 'find_map', 'position', 'last', 'nth',
                                  'enumerate', 'zip', 'take', 'skip', 'step_by', 'take_while', 'skip_while', 'scan',
                                  'partition', 'try_for_each', 'next_back', 'eq', 'cmp', 'partial_cmp', 'lt', 'le'):
            verdicts.append((False, f'order-sensitive consumer {m}'))
        else:
            verdicts.append((False, f'iterator handed to {c}'))
    bad = [d for ok, d in verdicts if not ok]
    if bad:
        return False, '; '.join(bad[:3])
    return True, '; '.join(d for _, d in verdicts[:3])


_MIR = [None]


def compared_fields(body):
    """the fields of self / other that a hand-written comparison (`cmp`, `partial_cmp`, `eq`) compares pairwise, or None when it does anything else"""
    out = set()
    n = 0
    for b, t in body.calls():
        m = method(cname(t))
        if m in ('cmp', 'partial_cmp', 'eq', 'ne', 'then', 'then_with', 'branch', 'from_residual', 'deref', 'as_str', 'as_ref', 'borrow'):
            if m in ('cmp', 'partial_cmp', 'eq', 'ne') and len(t['args']) == 2 and op_place(t['args'][0]) and op_place(t['args'][1]):
                a, b_ = canon(body, op_place(t['args'][0])), canon(body, op_place(t['args'][1]))
                if {a[0], b_[0]} == {1, 2} and a[1] == b_[1] and '.' in a[1]:
                    out.add(a[1].replace('&', '').replace('*', ''))
                    n += 1
                    continue
                return None
            continue
        if cname(t).startswith('{closure') or body.kind == 'Closure':
            return None
        return None
    return out if n else None


def sort_is_canonical(mir, body, t):
    """does this sort leave one order whatever order the elements arrived in?  Only if no two distinct elements compare Equal: `sort()` with the
    derived / primitive order does; a hand-written Ord must compare at least what the hand-written Eq (the identity the hash container used) compares;
    a sort by key or by comparator keeps the arrival order of ties"""
    m = method(cname(t))
    if m not in ('sort', 'sort_unstable'):
        return False, f'{m} keeps the hash order of elements whose keys tie (sort by the whole element, or collect into an ordered container)'
    g = (t.get('generics') or '') + ' ' + (t.get('self_ty') or '')
    for ty, (rx, fns) in mir.impls_by_type().items():
        if not rx.search(g):
            continue
        cmpf = [f for f in fns if f.endswith(' as std::cmp::Ord>::cmp')]
        if not cmpf or (mir.bodies[cmpf[0]].j.get('span') or {}).get('exp'):
            continue        # derived: lexicographic over all fields, consistent with the derived Eq
        eqf = [f for f in fns if f.endswith(' as std::cmp::PartialEq>::eq')]
        cf = compared_fields(mir.bodies[cmpf[0]])
        ef = compared_fields(mir.bodies[eqf[0]]) if eqf and not (mir.bodies[eqf[0]].j.get('span') or {}).get('exp') else None
        if cf is None or ef is None or not cf >= ef:
            return False, (f'the hand-written order of {ty} compares {sorted(cf) if cf is not None else "?"} while its equality compares '
                           f'{sorted(ef) if ef is not None else "all fields (derived)"}: distinct elements that compare Equal keep their hash order')
    return True, ''


def sorted_before_use(body, v, from_bb, mir=None):
    """the Vec in local v is sorted before any other use"""
    sort_blocks = []
    other = []
    # locals derived from v by reference / move
    fam = {v}
    changed = True
    while changed:
        changed = False
        for b, blk in enumerate(body.blocks):
            for st in blk['stmts']:
                if st['lhs']['p']:
                    continue
                ps = body.rvalue_places(st['rv'])
                if any(p['l'] in fam for p in ps) and st['rv']['rk'] in ('ref', 'use') and st['lhs']['l'] not in fam:
                    fam.add(st['lhs']['l']); changed = True
            t = blk['term']
            if t['k'] == 'call' and method(cname(t)) in ('deref_mut', 'as_mut_slice', 'deref') and \
                    any(op_local(a) in fam for a in t['args']) and not t['dest']['p'] and t['dest']['l'] not in fam:
                fam.add(t['dest']['l']); changed = True
    for b, blk in enumerate(body.blocks):
        t = blk['term']
        if t['k'] == 'call' and any(op_local(a) in fam for a in t['args']):
            m = method(cname(t))
            if m in SORTS:
                okc, why = sort_is_canonical(mir or _MIR[0], body, t) if (mir or _MIR[0]) is not None else (True, '')
                if not okc:
                    return False, 'collected into a Vec whose sort does not fix the order: ' + why
                sort_blocks.append(b)
            elif m in ('deref_mut', 'as_mut_slice', 'deref'):
                pass
            else:
                other.append(b)
        if t['k'] == 'return' and 0 in fam:
            other.append(b)
    if not sort_blocks:
        return False, 'collected into a Vec that is never sorted'
    for ob in other:
        if not any(body.dominates(sb, ob) and sb != ob for sb in sort_blocks):
            return False, f'Vec collected from a hash container is used (bb{ob}) before being sorted'
    return True, 'collected into a Vec that is sorted before any other use'


def run(rep):
    mir = Mir()
    _MIR[0] = mir
    _MIR[0] = mir
    rep.explanation = __doc__
    rep.trusted = ['rustc nightly MIR + Instance resolution', 'naga front end, prettyplease, rustfmt are deterministic (not decided)',
                   'dependencies keep no hidden global state that reaches the output']
    # entry points by role: public crate functions from which the WGSL front end is reachable
    parse_callers = mir.callers_closure({n for n, b in mir.bodies.items()
                                         if any(cname(t) == 'naga::front::wgsl::parse_str' for _, t in b.calls())})
    entries = sorted(n for n in parse_callers if mir.bodies[n].j['pub'] and mir.bodies[n].kind in ('Fn', 'AssocFn'))
    rep.floor('public generating entry points', len(entries), 2)
    reach = mir.reachable_fns(entries)
    rep.analysed = {'bodies': len(mir.bodies), 'entry_points': entries, 'reachable_bodies': len(reach),
                    'call_sites': sum(1 for _ in mir.all_calls())}
    n_hash_calls = 0
    n_calls = 0
    # ---- R1 hash-order --------------------------------------------------------------------------------------
    for fn in sorted(mir.bodies):
        body = mir.bodies[fn]
        seen_keys = {}
        for bb, t in body.calls():
            n_calls += 1
            c = cname(t)
            ctx = c + ' ' + t['self_ty']
            m = method(c)
            if mentions_hash(ctx) or (m in ('into_iter',) and mentions_hash(t['generics'])):
                n_hash_calls += 1
                if m in ITER_METHODS and (mentions_hash(c) or mentions_hash(t['self_ty'])):
                    # receiver type must be the hash container (not e.g. Vec<HashSet>)
                    recv_ty = body.locals[op_local(t['args'][0])] if t['args'] and op_local(t['args'][0]) is not None else t['self_ty']
                    k = f'hash-iteration:{fn}:{m}'
                    seen_keys[k] = seen_keys.get(k, 0) + 1
                    key = k if seen_keys[k] == 1 else f'{k}#{seen_keys[k]}'
                    if m == 'retain':
                        rep.ok('C18.R1.hash-order', key, body.where(bb), 'retain visits in hash order but keeps a set (order-free result)')
                        continue
                    ok, desc = consumer_ok(body, t['dest']['l']) if not t['dest']['p'] else (False, 'stored')
                    rep.check(ok, 'C18.R1.hash-order', key, body.where(bb),
                              f'iteration over a hash container ({c} on {recv_ty[:70]}) reaches an order-sensitive consumer: {desc}. '
                              f'Hash iteration order differs between processes (random SipHash keys), so anything derived '
                              f'from it makes the generated text differ from run to run.',
                              ok_detail=f'{c}: {desc}')
                else:
                    rep.ok('C18.R1.hash-use', f'hash-use:{fn}:{m}', body.where(bb), f'{c}: membership/insert only')
            # Debug formatting of a hash container
            if c.endswith('::new_debug') and mentions_hash(t['generics']):
                rep.bad('C18.R1.hash-order', f'hash-debug:{fn}', body.where(bb),
                        f'Debug-formatting a hash container ({t["generics"][:80]}) prints elements in hash order')
        # locals holding hash iterators that were not produced by a call we saw (e.g. through generic helpers)
        for i, ty in enumerate(body.locals):
            if ('hash_set::' in ty or 'hash_map::' in ty) and any(x in ty for x in ('Iter', 'Keys', 'Values', 'Drain', 'IntoIter', 'IntoKeys', 'IntoValues')):
                produced = any(op_local_dest(t) == i for _, t in body.calls())
                if not produced and i > body.arg_count:
                    continue
                if i <= body.arg_count and i > 0:
                    rep.bad('C18.R1.hash-order', f'hash-iterator-param:{fn}', body.where(),
                            f'parameter of type {ty[:80]}: a hash-order iterator is passed between functions; consumer cannot be followed')
    # ---- R2 ambient input, R4 process ------------------------------------------------------------------------
    proc_fns = set()
    for fn in sorted(mir.bodies):
        body = mir.bodies[fn]
        for bb, t in body.calls():
            c = cname(t)
            if c.startswith(PROCESS) or t['self_ty'].startswith(PROCESS):
                proc_fns.add(fn)
            if fn not in reach:
                continue
            # library callees only: a crate function is judged by what it calls (`GroupBinding::address_space` is not `<*const T>::addr`)
            amb = c not in mir.bodies and (c.startswith(AMBIENT_PREFIX) or any((x + '::') in c or (x + '<') in c or c.endswith(x) if x.startswith('::') else x in c for x in AMBIENT_CONTAINS))
            if amb:
                rep.bad('C18.R2.ambient-input', f'ambient:{fn}:{c}', body.where(bb),
                        f'{c} is called in code reachable from {entries}: the output may then depend on the environment, '
                        f'clock, file system, thread or hash seed instead of only (source, include path, options)')
        if fn in reach:
            for b, blk in enumerate(body.blocks):
                for st in blk['stmts']:
                    rv = st['rv']
                    if rv['rk'] == 'cast' and ('PointerExposeProvenance' in rv.get('kind', '') or 'PointerExposeAddress' in rv.get('kind', '')) \
                            and not st['span']['exp']:
                        rep.bad('C18.R2.ambient-input', f'ptr-to-int:{fn}', f"{st['span']['file']}:{st['span']['line']} fn {fn}",
                                'pointer-to-integer cast: addresses differ between runs (ASLR)')
                    for o in rv.get('ops', []):
                        if 'static' in o:
                            st_name = o['static']
                            mine = [s for s in mir.statics if s['path'] == st_name]
                            if not mine or mine[0]['mut'] or not mine[0]['freeze']:
                                rep.bad('C18.R3.retained-state', f'static-ref:{fn}:{st_name}', f"{st['span']['file']}:{st['span']['line']} fn {fn}",
                                        f'reference to static `{st_name}` that is mutable, has interior mutability, or lives in another crate')
    rep.ok('C18.R2.ambient-input', 'ambient:none', '', f'{len(reach)} reachable bodies scanned against {len(AMBIENT_PREFIX)} forbidden callee families')
    # ---- R3 statics ---------------------------------------------------------------------------------------------
    for s in mir.statics:
        bad = s['mut'] or not s['freeze']
        rep.check(not bad, 'C18.R3.retained-state', f"static:{s['path']}", f"{s['span']['file']}:{s['span']['line']}",
                  f"static `{s['path']}`: {'static mut' if s['mut'] else 'interior mutability'} ({s['ty'][:80]}): state that survives "
                  f"a call can make a later call's output depend on earlier calls or on other threads",
                  ok_detail=f"immutable, Freeze static {s['path']}")
    rep.ok('C18.R3.retained-state', 'statics:scanned', '', f'{len(mir.statics)} statics in the crate')
    # ---- R4 formatter containment ------------------------------------------------------------------------------
    rep.floor('functions that use std::process', len(proc_fns), 1)
    pr = mir.callers_closure(proc_fns)  # every body that can reach process use
    g = mir.call_graph()
    gated_edges = set()
    n_gated = 0
    for fn in sorted(pr & set(reach)):
        body = mir.bodies[fn]
        for bb, t in body.calls():
            c = cname(t)
            if c in pr and c != fn and c in mir.bodies:
                if rustfmt_gated(body, bb):
                    gated_edges.add((fn, c)); n_gated += 1
    # reachability without gated edges
    seen, stack = set(), list(entries)
    while stack:
        f = stack.pop()
        if f in seen or f not in g:
            continue
        seen.add(f)
        for h in g[f]:
            if (f, h) in gated_edges:
                # make sure the function has no second, ungated call site to h
                body = mir.bodies[f]
                sites = [bb for bb, t in body.calls() if cname(t) == h]
                if all(rustfmt_gated(body, bb) for bb in sites):
                    continue
            stack.append(h)
    for f in sorted(proc_fns):
        rep.check(f not in seen, 'C18.R4.spawn-only-when-asked', f'process-ungated:{f}', mir.bodies[f].where(),
                  f'{f} uses std::process and is reachable from {entries} through a path that is not guarded by the '
                  f'`rustfmt` option: a process is spawned although the caller did not ask for the formatter',
                  ok_detail=f'{f}: every path from the entry points passes a call site on the true edge of a branch on WriteOptions.rustfmt')
    rep.floor('rustfmt-gated call sites', n_gated, 1)
    # ---- R5 the spawned formatter is reaped on every path ------------------------------------------------------------
    # "calls do not modify any state other than spawning the formatter": a Child that is dropped without wait()/wait_with_output() stays
    # behind as a zombie process.  Pairing rule on the (helper-inlined) formatter functions: from the point where the Child exists, every
    # path to a normal return passes a wait call.  The None edge of `child.stdin.take()?` is infeasible when stdin was configured as piped.
    from engine_mir import inlined
    from mirutil import feasible_reach, chain_of
    spawners = sorted(fn for fn in mir.bodies if any(cname(t) == 'std::process::Command::spawn' for _, t in mir.bodies[fn].calls()))
    Fp = set()
    for fn in spawners:
        Fp |= {x for x in mir.callers_closure({fn}) if x in proc_fns or x == fn}
    # .. and the process-handling helpers those functions call (`write_stdin(&mut child, ..)`, `formatted_stdout(output)`)
    Fp |= {x for x in mir.reachable_fns(sorted(Fp)) if x in proc_fns}
    roots = [fn for fn in sorted(Fp) if not any(fn in g.get(o, ()) for o in Fp if o != fn)] or spawners
    n_spawn = 0
    for fn in roots:
        B = inlined(mir, fn, depth=4, skip=[n for n in mir.bodies if n not in Fp])
        WAITS = ('std::process::Child::wait', 'std::process::Child::wait_with_output')
        wait_blocks = {bb for bb, t in B.calls() if cname(t) in WAITS}
        child_locals = {i for i, ty in enumerate(B.locals) if ty == 'std::process::Child'}
        # blocks where a Child value comes into existence: the Ok/Some payload of the spawn result is moved into a Child local
        starts = set()
        for b, blk in enumerate(B.blocks):
            for st in blk['stmts']:
                if st['lhs']['l'] in child_locals and not st['lhs']['p'] and st['rv']['rk'] == 'use':
                    starts.add(b)
        for bb, t in B.calls():
            if cname(t) == 'std::process::Command::spawn':
                n_spawn += 1
        if not starts:
            if any(cname(t) == 'std::process::Command::spawn' for _, t in B.calls()):
                rep.bad('C18.R5.child-reaped', f'child:{fn}', B.where(), 'cannot find where the spawned Child is bound', undecided=True)
            continue
        # infeasible early exits: the None edge of a `?` on `child.stdin.take()` (stdin is piped)
        infeasible = set()
        piped = any(cname(t) == 'std::process::Command::stdin' for _, t in B.calls()) and any(cname(t) == 'std::process::Stdio::piped' for _, t in B.calls())
        if piped:
            for b, blk in enumerate(B.blocks):
                t = blk['term']
                if t['k'] == 'switch' and op_local(t['discr']) is not None:
                    neg, calls, places = chain_of(B, op_local(t['discr']))
                    names = [cname(c) for c in calls]
                    OKOR = ('Option::<T>::ok_or', 'Option::<T>::ok_or_else')     # `.take().ok_or(e)?`: None becomes Err - as infeasible as the None itself
                    core = [n_ for n_ in names[1:] if not n_.endswith(OKOR)]
                    if names and names[0].endswith('::branch') and any(n_.endswith(('Option::<T>::take', 'Option::<T>::as_mut', 'Option::<T>::as_ref')) for n_ in names) and \
                            core and core[0].endswith(('Option::<T>::take', 'Option::<T>::as_mut', 'Option::<T>::as_ref')) and \
                            all(n_.endswith(('::branch', 'Option::<T>::take', 'Option::<T>::as_mut', 'Option::<T>::as_ref', 'Result::<T, E>::ok', 'Command::spawn') + OKOR) for n_ in names) and \
                            any('.stdin' in p_[1] for p_ in places if p_):
                        for v, tgt in t['targets']:
                            if v == 1:
                                infeasible.add(tgt)
        returns = {b for b, blk in enumerate(B.blocks) if blk['term']['k'] == 'return'}
        leak = set()
        for s0 in starts:
            r = feasible_reach(B, [s0], avoid=wait_blocks | infeasible)      # a helper's `?` residual correlates with the caller's `?` on its result
            leak |= (r & returns)
        rep.check(not leak, 'C18.R5.child-reaped', f'child-reaped:{fn}', B.where(sorted(leak)[0] if leak else sorted(starts)[0]),
                  'a path from the spawn of the formatter to a return passes no wait()/wait_with_output(): the child process is left behind (zombie) - state modified beyond '
                  '"spawning the formatter when asked"', ok_detail='every return after the spawn is behind wait_with_output()/wait()')
    rep.floor('formatter spawn sites', n_spawn, 1)
    rep.info['call_sites_scanned'] = n_calls
    rep.info['hash_container_call_sites'] = n_hash_calls
    rep.floor('hash-container call sites seen (membership sets exist in the crate)', n_hash_calls, 4)
    if rep.tier == 'thorough':
        clippy_crossref(rep)


def clippy_crossref(rep):
    """thorough tier: clippy's configured who-may-call lint (disallowed_methods / disallowed_types) generated from the same lists, as an
    independent cross-reference (report only: the MIR rule decides)"""
    import os, re, tempfile
    from common import REPO, WORK, run
    d = tempfile.mkdtemp(prefix='vclippy-')
    try:
        methods = ['std::env::var', 'std::env::var_os', 'std::env::vars', 'std::env::current_dir', 'std::env::temp_dir', 'std::env::args', 'std::time::Instant::now',
                   'std::time::SystemTime::now', 'std::process::id', 'std::thread::current', 'std::fs::read', 'std::fs::read_to_string', 'std::fs::write', 'std::fs::File::open',
                   'std::fs::File::create', 'std::process::Command::new']
        with open(os.path.join(d, 'clippy.toml'), 'w') as fh:
            fh.write('disallowed-methods = [\n' + ''.join(f'  {{ path = "{m}", reason = "C18" }},\n' for m in methods) + ']\n')
            fh.write('disallowed-types = [ { path = "std::sync::OnceLock", reason = "C18" }, { path = "std::sync::LazyLock", reason = "C18" }, { path = "std::cell::RefCell", reason = "C18" } ]\n')
        rc, out = run('cargo +nightly clippy --offline -p wgsl_to_wgpu --lib -- -A clippy::all -W clippy::disallowed_methods -W clippy::disallowed_types', cwd=REPO,
                      env={'CLIPPY_CONF_DIR': d, 'CARGO_TARGET_DIR': os.path.join(WORK, 'clippy-target')}, timeout=1800)
        hits = re.findall(r'warning: use of a disallowed (?:method|type) `([^`]+)`', out)
        rep.info['clippy_crossref'] = {'rc': rc, 'disallowed_uses': hits, 'note': 'Command::new is expected once (the formatter); any other entry should also be reported by rules R2/R3'}
    except Exception as ex:
        rep.info['clippy_crossref'] = {'error': repr(ex)}
    finally:
        import shutil
        shutil.rmtree(d, ignore_errors=True)


def op_local_dest(t):
    return t['dest']['l'] if not t['dest']['p'] else None


def rustfmt_gated(body, bb, mir=None):
    """block bb executes only on the true edge of a switch whose discriminant derives from field `rustfmt` of WriteOptions (read in this
    body, or received through a parameter that every crate caller fills from that field)"""
    from mirutil import local_is_field_value as local_from_field, place_reads_field
    for g in sorted(body.dominators()[bb]):
        t = body.blocks[g]['term']
        if t['k'] != 'switch':
            continue
        dl = op_local(t['discr'])
        dplace = op_place(t['discr'])
        hit = bool(dplace and place_reads_field(dplace, 'WriteOptions', 'rustfmt'))
        if not hit and dl is not None:
            if mir is None:
                mir = _MIR[0]
            hit = local_from_field(mir, body, dl, 'WriteOptions', 'rustfmt')
        if not hit:
            continue
        false_targets = [tgt for v, tgt in t['targets'] if v == 0]
        if any(bb in body.reachable_from([ft], avoid={g}) for ft in false_targets):
            continue
        if bb in body.reachable_from([t['otherwise']], avoid={g}):
            return True
    return False


_MIR = [None]
