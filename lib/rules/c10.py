"""C10 - encase + glam structs serialise every field at its WGSL offset.

The byte image is produced by encase at run time and is NOT decided.  Decided structural clause (each part is necessary: breaking it
breaks the byte image or the build) on the output grammar (Engine A) against the pinned encase source:
  * under the Glam representation every WGSL vector / square matrix leaf is mapped to a glam type for which encase's glam integration
    (encase-<ver>/src/impls/glam.rs, read on every run) declares a vector / matrix implementation with the same dimensions and
    scalar; a WGSL vector is never mapped to a plain array (encase lays out `[f32; 3]` as an array of scalars, not as a vec3);
    scalars map to the encase-supported scalars f32/i32/u32;
  * fixed arrays are `[<elem>; <len>]` of the same table (element and length order preserved: C06 array rules), nested structs refer
    to structs that themselves derive ShaderType (host-shareable set is closed under members: shared closure rule);
  * `encase::ShaderType` is derived exactly on host-shareable structs when the switch is on (C09 truth-table rows) and a trailing
    runtime array is `#[size(runtime)] Vec<elem>` (C06 rule).
Known finding: f64 leaves (DVec2-4, DMat2-4, f64) have no encase implementation in encase 0.10, so such members cannot be serialised
at all although the property's quantifier names them; not repairable here (library limitation)."""
import engine_ogp as E
import schema as S
import leaf_tables as LT
from conc import Eval, V, Diverge, Unbound
from rules.c06 import struct_template, eval_hole
from rules.c02 import collect_scrutinees


def run(rep):
    ogp = E.load()
    sch = S.load()
    rep.explanation = __doc__
    rep.trusted = ['syn parser and the abstract semantics of Engine A', f"encase {sch.versions.get('encase')} lays out its vector/matrix/array/struct impls per the WGSL rules (run-time behaviour, not analysed)",
                   'glam types have the components their names say']
    eg = sch.encase_glam
    rep.check(eg is not None and len(eg['vectors']) >= 9 and len(eg['matrices']) >= 3, 'C10.oracle', 'encase-impl-table', 'encase/src/impls/glam.rs',
              'cannot read encase\'s glam implementation table from the pinned source', ok_detail=f"{len(eg['vectors']) if eg else 0} vector impls, {len(eg['matrices']) if eg else 0} matrix impls")
    if not eg:
        return
    hits = struct_template(ogp)
    rep.floor('struct item template', len(hits), 1)
    if not hits:
        return
    q, tmpl = hits[0]
    f = ogp.crate.fns[q]
    where = f"{ogp.crate.relfile(f['file'])} fn {f['name']} (template at {tmpl[1]})"
    # field type hole (same anchor as C06)
    fields = None
    items = tmpl[2]
    for i, it in enumerate(items):
        if it[0] == 'rep' and i > 0 and items[i - 1] == ('tok', '{') and len(it[1]) == 1 and it[1][0][0] == 'hole':
            fields = it[1][0][2]
    if fields is None or fields[0] != 'star':
        rep.bad('C10.anchor', 'fields', where, 'cannot find the field repetition', undecided=True)
        return
    plain = [t for t in E.find_templates(fields[3], lambda t: E.tmpl_text(t).startswith('pub #'))]
    if not plain:
        rep.bad('C10.anchor', 'field-template', where, 'cannot find the plain field template', undecided=True)
        return
    type_t = list(E.holes(plain[0]).values())[1]
    scr = collect_scrutinees(type_t)
    ti, mv = scr.get('TypeInner', []), scr.get('MatrixVectorTypes', [])
    if not ti or len(mv) != 1:
        rep.bad('C10.anchor', 'type-table', where, 'cannot identify the type table of the field type hole', undecided=True)
        return
    ti, mv = ti[0], mv[0]
    scalar_ok = {'f32', 'i32', 'u32'}
    n = 0
    for label, inner, shape in LT.type_points():
        try:
            txt = eval_hole(type_t, ti, inner, mv, 'Glam')
        except Diverge:
            continue
        except Unbound as u:
            rep.bad('C10.glam-table', f'glam:{label}', where, f'cannot look up the type table at {label}/Glam: {u}', undecided=True)
            continue
        n += 1
        key = f'glam:{label}'
        if shape[0] == 'scalar':
            ok = txt in scalar_ok or txt == 'bool'
            if txt in ('f64', 'i64', 'u64'):
                rep.bad('C10.glam-table', 'glam:f64', where, f'{label} -> `{txt}`: encase {sch.versions.get("encase")} implements ShaderType only for f32/i32/u32 scalars')
            else:
                rep.check(ok, 'C10.glam-table', key, where, f'{label} -> `{txt}` is not an encase-supported scalar', ok_detail=txt)
        elif shape[0] == 'vector':
            _, cn, k, w = shape
            name = txt.replace(' ', '')
            impl = eg['vectors'].get((cn, name))
            want_el = LT.rust_scalar(k, w)
            if w == 8:
                rep.check(impl == want_el, 'C10.glam-table', 'glam:f64', where,
                          f'{label} -> `{txt}`: encase has no vector implementation for it (f64 vectors cannot be written through encase)', ok_detail=txt)
            else:
                rep.check(impl == want_el, 'C10.glam-table', key, where,
                          f'{label} -> `{txt}`: encase declares {"no vector implementation" if impl is None else "an implementation with element " + impl} for it; a vec{cn}<{want_el}> must map to a type encase '
                          f'serialises as a {cn}-component {want_el} vector (a plain array is laid out differently)', ok_detail=f'{txt} = impl_vector!({cn}, .., {impl})')
        else:
            _, c, r, w = shape
            if c != r:
                continue  # non-square matrices are outside the property's quantifier ("square matrices")
            name = txt.replace(' ', '')
            impl = eg['matrices'].get((c, r, name))
            if w == 8:
                rep.check(impl == 'f64', 'C10.glam-table', 'glam:f64', where, f'{label} -> `{txt}`: encase has no matrix implementation for it', ok_detail=txt)
            else:
                rep.check(impl == 'f32', 'C10.glam-table', key, where,
                          f'{label} -> `{txt}`: encase declares {"no matrix implementation" if impl is None else impl} for it; a mat{c}x{r}<f32> must map to a type encase serialises as a matrix', ok_detail=f'{txt} = impl_matrix!({c}, {r}, ..)')
    rep.floor('glam leaf points evaluated', n, 30)
    rep.analysed = {'function': q, 'encase_vectors': sorted(f'{k[1]}:{k[0]}' for k in eg['vectors']), 'encase_matrices': sorted(k[2] for k in eg['matrices'])}
    from common import include
    include(rep, 'c06', ('C06.array-row', 'C06.rts-field', 'C06.struct-row', 'C06.selected-representation', 'C06.type-of-member', 'C06.order', 'C06.name-identity'), 'composite-types')
    include(rep, 'c09', ('C09.derives', 'C09.host-shareable-atom', 'C09.panic-rows'), 'shader-type-derive')
    # "nested structs of those": every struct reachable from a host-shareable variable must be emitted (C08's selection formula and closure rules)
    include(rep, 'c08', ('C08.filter-formula', 'C08.closure', 'C08.struct-only'), 'nested-structs-emitted')
    # the section reaches the assembled output unconditionally (shared rule, lib/sections.py)
    from sections import check_wiring
    check_wiring(rep, 'C10.section-wiring', ['derive ( #('], 'struct-section')
