"""C20 - generation cost stays polynomial: every recursion that follows shared arena handles is memoised.

Decided clause (structural, necessary for the behaviour): in the resolved call graph of the crate, every recursive
call site whose node-selecting argument is reached through a naga arena handle (shared nodes: the structure is a
DAG, so un-memoised recursion multiplies with depth / number of call sites) is
  (G) dominated by a branch on the result of insert/contains on a set that reaches the function through a
      parameter and is keyed by the handle being followed, with the call reachable from the "new" edge only, or
  (S) the only recursive call that can execute in one activation (no path from a recursive call site to it),
and nothing in the recursive component removes elements from the guard set (path-style visited sets are
exponential on DAGs).  Worklist loops (pop + push on one collection inside a loop) need the same guard.
Tree-following recursion and plain loops are linear in what they walk; loop nesting only sets the degree."""
from engine_mir import Mir, op_local, op_place

SET_TYPES = ('std::collections::HashSet', 'std::collections::BTreeSet', 'std::collections::HashMap',
             'std::collections::BTreeMap', 'std::vec::Vec', 'std::collections::VecDeque')
GUARD_INSERT = ('::insert',)
GUARD_CONTAINS = ('::contains', '::contains_key')
ARENA_INDEX = ('<naga::Arena<T> as std::ops::Index<naga::Handle<T>>>::index',
               '<naga::UniqueArena<T> as std::ops::Index<naga::Handle<T>>>::index',
               'naga::Arena::<T>::try_get', 'naga::UniqueArena::<T>::get_handle', 'naga::Arena::<T>::get_mut',
               'naga::UniqueArena::<T>::get')
UNGUARD = ('::remove', '::clear', '::drain', '::retain', '::take', '::pop', '::truncate', '::split_off',
           '::pop_first', '::pop_last')


def is_set_call(t, suffixes):
    c = t['callee'] or t['raw']
    return any(c.startswith(s) for s in SET_TYPES) and any(c.endswith(s) or (s + '::') in c for s in suffixes) \
        or (c.startswith('core::slice::<impl [T]>::contains') and '::contains' in suffixes) \
        or (c.startswith('std::slice::<impl [T]>::contains') and '::contains' in suffixes)


def canon(body, place, depth=0):
    """canonical root of a place: follow single-definition copy/ref chains of temporaries"""
    l = place['l']
    proj = list(place['p'])
    while depth < 40:
        depth += 1
        ds = body.defs().get(l, [])
        if proj and isinstance(proj[0], dict) and 'f' in proj[0] and len(ds) > 1:
            # a record whose other fields are written in place (a builder: `self.validate = true; self.capabilities = ..`): for field f only the
            # definitions of the whole record and the writes to f itself count
            def other_field(d_):
                lp = d_[2]['lhs']['p'] if d_[1] == 'assign' else (d_[2].get('dest') or {}).get('p')
                return bool(lp) and isinstance(lp[0], dict) and 'f' in lp[0] and lp[0]['f'] != proj[0]['f']
            ds = [d_ for d_ in ds if not other_field(d_)]
        if proj and isinstance(proj[0], dict) and 'downcast' in proj[0] and len(ds) > 1 and l > body.arg_count:
            # the payload of one variant of a value that is built on several paths (`cond.then_some(v)`: Some(v) on one, None on the other): only the
            # paths that build that variant can be read through the downcast
            same = [d_ for d_ in ds if d_[1] == 'assign' and not d_[2]['lhs']['p'] and d_[2]['rv']['rk'] == 'aggregate' and
                    d_[2]['rv']['agg'].endswith('::' + str(proj[0]['downcast']))]
            other = [d_ for d_ in ds if d_ not in same and not (d_[1] == 'assign' and not d_[2]['lhs']['p'] and d_[2]['rv']['rk'] == 'aggregate' and d_[2]['rv']['agg'].startswith('adt:'))]
            if len(same) == 1 and not other:
                ds = same
        if l <= body.arg_count or len(ds) != 1 or ds[0][1] != 'assign':
            break
        rv = ds[0][2]['rv']
        if ds[0][2]['lhs']['p']:
            break
        src = None
        if rv['rk'] == 'aggregate' and rv['agg'].startswith('adt:') and proj and rv.get('fields'):
            # a field read back out of a record literal (`Self { wgsl_source, .. }` .. `self.wgsl_source`): the value it was built with
            pj = proj
            if isinstance(pj[0], dict) and 'downcast' in pj[0] and rv['agg'].endswith('::' + str(pj[0]['downcast'])):
                pj = pj[1:]
            if pj and isinstance(pj[0], dict) and 'f' in pj[0] and pj[0]['f'] in rv['fields']:
                op = rv['ops'][rv['fields'].index(pj[0]['f'])]
                if op_place(op):
                    src = op_place(op)
                    l = src['l']
                    proj = list(src['p']) + list(pj[1:])
                    continue
            break
        if rv['rk'] == 'aggregate' and rv['agg'].startswith('closure:') and proj and isinstance(proj[0], dict) and 'i' in proj[0] and proj[0].get('adt') == 'closure' \
                and proj[0]['i'] < len(rv.get('ops', [])) and op_place(rv['ops'][proj[0]['i']]):
            # a captured variable read through the closure's environment (a closure body inlined into its creator): the captured place itself
            src = op_place(rv['ops'][proj[0]['i']])
            proj = proj[1:]
            l = src['l']
            proj = list(src['p']) + proj
            continue
        if rv['rk'] == 'use' and op_place(rv['ops'][0]):
            src = op_place(rv['ops'][0])
        elif rv['rk'] == 'ref':
            src = rv['place']
            # &(*x) ... then deref again later: drop one deref if the projection starts with it
            if proj and proj[0] == 'deref':
                proj = proj[1:]
            else:
                proj = ['&'] + proj
        if src is None:
            break
        l = src['l']
        proj = list(src['p']) + proj
    return (l, pstr(proj))


def pstr(proj):
    out = []
    for e in proj:
        if isinstance(e, dict):
            if 'f' in e:
                out.append('.' + e['f'])
            elif 'downcast' in e:
                out.append('@' + e['downcast'])
            elif 'index' in e:
                out.append('[]')
            else:
                out.append('?')
        else:
            out.append({'deref': '*', '&': '&'}.get(e, str(e)))
    s = ''.join(out)
    # `&` immediately followed by `*` cancel
    while '&*' in s or '*&' in s:
        s = s.replace('&*', '').replace('*&', '')
    return s


def guard_of(body, bb_call, key_roots, rec_sites):
    """find a dominating visited-set branch for the call in block bb_call; returns (ok, description)"""
    dom = body.dominators()[bb_call]
    best = None
    for g in sorted(dom):
        t = body.blocks[g]['term']
        if t['k'] != 'switch':
            continue
        dl = op_local(t['discr'])
        if dl is None:
            continue
        # the discriminant must be the (possibly negated) bool result of a set insert/contains
        neg = False
        src_call = None
        cur = dl
        for _ in range(6):
            ds = body.defs().get(cur, [])
            if len(ds) != 1:
                break
            b, kind, x = ds[0]
            if kind == 'call':
                src_call = (b, x)
                break
            rv = x['rv']
            if rv['rk'] == 'unop' and rv.get('op') == 'Not':
                neg = not neg
                cur = op_local(rv['ops'][0])
            elif rv['rk'] == 'use' and op_local(rv['ops'][0]) is not None:
                cur = op_local(rv['ops'][0])
            else:
                break
            if cur is None:
                break
        if not src_call:
            continue
        cb, ct = src_call
        is_ins = is_set_call(ct, GUARD_INSERT)
        is_con = is_set_call(ct, GUARD_CONTAINS)
        if not (is_ins or is_con):
            continue
        # receiver must come from a parameter of this body (not a set created in this activation)
        recv = ct['args'][0]
        rl = op_local(recv)
        rroot = canon(body, op_place(recv)) if op_place(recv) else None
        from_param = rroot is not None and 1 <= rroot[0] <= body.arg_count
        # key argument
        kroot = canon(body, op_place(ct['args'][1])) if len(ct['args']) > 1 and op_place(ct['args'][1]) else None
        # which edges of the switch reach the call?
        edges = [(v, tgt) for v, tgt in t['targets']] + [(None, t['otherwise'])]
        reach_vals = []
        for v, tgt in edges:
            if bb_call in body.reachable_from([tgt], avoid={g}):
                reach_vals.append(v)
        if len(reach_vals) == len(edges):
            continue  # the branch does not decide whether the call runs
        # polarity: value seen on the edge(s) reaching the call; switch on bool: 0 = false, otherwise = true
        truthy = [v is None or v != 0 for v in reach_vals]
        if neg:
            truthy = [not x for x in truthy]
        want_true = is_ins  # insert()==true -> new element; contains()==false -> new element
        polarity_ok = all(x == want_true for x in truthy) and len(truthy) > 0
        key_ok = kroot is not None and (kroot in key_roots or strip_ref(kroot) in {strip_ref(k) for k in key_roots})
        desc = dict(block=g, call=ct['callee'], from_param=from_param, key=str(kroot), polarity_ok=polarity_ok,
                    key_ok=key_ok, recv=str(rroot))
        if from_param and polarity_ok and key_ok and is_con and not is_ins:
            # a membership test alone records nothing: the key must also be inserted into that set - between the test and the call (dominating
            # the call), or by the callee itself on its own handle parameter (`if !visited.contains(f) { walk(f) }` with `walk` never inserting
            # re-walks f once per path)
            recorded = False
            for b2, t2 in body.calls():
                if is_set_call(t2, GUARD_INSERT) and b2 in dom and b2 != g and op_place(t2['args'][0]) and len(t2['args']) > 1 and op_place(t2['args'][1]):
                    if canon(body, op_place(t2['args'][0])) == rroot and strip_ref(canon(body, op_place(t2['args'][1]))) == strip_ref(kroot):
                        recorded = True
            desc['recorded'] = recorded
            if not recorded:
                best = desc
                continue
        if from_param and polarity_ok and key_ok:
            return True, desc
        best = desc
    return False, best


def is_handle_ty(ty):
    return ty.lstrip('&').replace('mut ', '').startswith('naga::Handle<')


def strip_ref(root):
    l, p = root
    return (l, p.replace('&', '').replace('*', ''))


ONCE_CONSUMERS = ('std::option::Option', '<std::option::Option', 'std::result::Result', '<std::result::Result', 'std::bool::', 'core::bool::', 'std::mem::', 'std::cell::',
                  'std::sync::Once', 'std::thread::LocalKey')


def closure_runs_repeatedly(mir, fn):
    """the closure body `fn` is handed (by its creator) to something other than a run-at-most-once consumer (Option / Result combinators,
    bool::then, LocalKey::with ..): iterator adapters and consumers call it once per element"""
    body = mir.bodies[fn]
    parent = mir.bodies.get(body.parent) if body.parent else None
    if parent is None:
        return True
    holders = set()
    for blk in parent.blocks:
        for st in blk['stmts']:
            rv = st['rv']
            if rv['rk'] == 'aggregate' and rv['agg'] == 'closure:' + fn:
                holders.add(st['lhs']['l'])
    if not holders:
        return True
    # follow moves / refs of the closure value to the calls that receive it
    changed = True
    while changed:
        changed = False
        for blk in parent.blocks:
            for st in blk['stmts']:
                ps = parent.rvalue_places(st['rv'])
                if ps and ps[0]['l'] in holders and st['lhs']['l'] not in holders and st['rv']['rk'] in ('use', 'ref'):
                    holders.add(st['lhs']['l'])
                    changed = True
    users = []
    for bb, t in parent.calls():
        if any(op_local(a) in holders for a in t['args'] if op_local(a) is not None):
            users.append(t['callee'] or t['raw'])
    if not users:
        return True
    return not all(u.startswith(ONCE_CONSUMERS) for u in users)


def run(rep):
    mir = Mir()
    rep.explanation = __doc__
    rep.trusted = ['rustc nightly MIR (mir-opt-level=0) and Instance::try_resolve', 'cost inside naga, syn, prettyplease, '
                   'rustfmt is not bounded by this check', 'constant factors and the degree of the polynomial are not decided']
    g = mir.call_graph()
    sccs = [c for c in mir.sccs() if len(c) > 1 or c[0] in g[c[0]]]
    rep.analysed = {'bodies': len(mir.bodies), 'call_graph_edges': sum(len(v) for v in g.values()),
                    'recursive_components': [sorted(c) for c in sccs]}
    n_sites = 0
    n_arena = 0
    # callee-side guard: a function of the component whose every recursive call is dominated by a visited-set guard keyed by its own
    # handle parameter ("visit this node unless seen") makes calls *to it* that hand over the followed handle safe
    self_guarded = {}
    for comp in sccs:
        cs = set(comp)
        for fn in comp:
            body = mir.bodies[fn]
            hparams = [p for p in range(1, body.arg_count + 1) if is_handle_ty(body.locals[p])]
            sites = [(bb, t) for bb, t in body.calls() if (t['callee'] or t['raw']) in cs]
            if hparams and sites and all(guard_of(body, bb, {(p, '') for p in hparams}, sites)[0] for bb, t in sites):
                self_guarded[fn] = hparams
    for comp in sccs:
        cs = set(comp)
        for fn in sorted(comp):
            body = mir.bodies[fn]
            rec_sites = [(bb, t) for bb, t in body.calls() if (t['callee'] or t['raw']) in cs]
            # closures created here that belong to the component count as recursive sites of the creator
            ordinal = {}
            for bb, t in rec_sites:
                n_sites += 1
                callee = t['callee'] or t['raw']
                ordinal[callee] = ordinal.get(callee, 0) + 1
                key = f'recursion:{fn}->{callee}#{ordinal[callee]}'
                where = body.where(bb)
                # --- classify: arena-following? ------------------------------------------------------------
                arg_locals = [op_local(a) for a in t['args'] if op_local(a) is not None]
                handle_args = [a for a in t['args'] if op_local(a) is not None and
                               is_handle_ty(body.locals[op_local(a)])]
                sl, calls, _ = body.backward_slice(arg_locals, through_calls=True)
                idx_calls = [(b, c) for b, c in calls if (c['callee'] or c['raw']) in ARENA_INDEX]
                # ignore index calls that only feed parameters passed through unchanged
                arena = bool(handle_args) or bool(idx_calls)
                if not arena:
                    rep.ok('C20.tree-recursion', key, where,
                           'recursive call follows owned sub-structure of its argument (no arena handle in the backward '
                           'slice of its arguments): each node has one parent, linear')
                    continue
                n_arena += 1
                # --- key roots: the handle(s) being followed -------------------------------------------------
                key_roots = set()
                for a in handle_args:
                    key_roots.add(canon(body, op_place(a)))
                for b, c in idx_calls:
                    if len(c['args']) > 1 and op_place(c['args'][1]):
                        key_roots.add(canon(body, op_place(c['args'][1])))
                # callee-side idiom: this function guards on its own handle parameter before any recursion
                for p in range(1, body.arg_count + 1):
                    if is_handle_ty(body.locals[p]):
                        key_roots.add((p, ''))
                guarded, desc = guard_of(body, bb, key_roots, rec_sites)
                # (S) single recursive call per activation
                others = [b for b, _ in rec_sites]
                single = True
                for ob in others:
                    succs = body.term_succ(ob, unwind=False)
                    if bb in body.reachable_from(succs):
                        single = False
                        break
                # a call site inside a closure runs once per *invocation of the closure*: handed to an iterator adapter / consumer (any, map,
                # for_each, filter, fold ..) it runs once per element - several times per activation of the enclosing function
                if single and body.kind == 'Closure' and closure_runs_repeatedly(mir, fn):
                    single = False
                callee_guard = callee in self_guarded and any(
                    op_place(t['args'][p - 1]) is not None and (canon(body, op_place(t['args'][p - 1])) in key_roots or is_handle_ty(body.locals[op_local(t['args'][p - 1])]))
                    for p in self_guarded[callee] if p - 1 < len(t['args']))
                if callee_guard and not guarded:
                    rep.ok('C20.guarded-recursion', key, where,
                           f'arena-following call hands the handle to {callee}, which visits it only behind its own visited-set guard (callee-side guard)')
                elif guarded:
                    rep.ok('C20.guarded-recursion', key, where,
                           f"arena-following recursive call dominated by visited-set branch at bb{desc['block']} "
                           f"({desc['call']}, set from parameter, key {desc['key']})")
                elif single:
                    rep.ok('C20.single-recursion', key, where,
                           'arena-following recursive call is the only recursive call that can execute in one activation '
                           '(no CFG path from any recursive call site to it): linear chain')
                else:
                    rep.bad('C20.unguarded-recursion', key, where,
                            f'recursive call {fn} -> {callee} follows a shared arena handle but is neither dominated by a '
                            f'visited-set guard (insert/contains on a set passed in by parameter, keyed by that handle, '
                            f'call on the "new" edge) nor the single recursive call of its activation; nearest candidate '
                            f'guard: {desc}. On a DAG (diamond / chain of value-returning helpers / nested structs) this '
                            f'multiplies the work with every level.')
        # the guard set is one object for the whole walk: every recursive call hands on the set it received.  A clone or a fresh set passed to
        # a recursive call (`let mut other = visited.clone(); walk(.., &mut other)`) forgets what the sibling calls visit: shared nodes are
        # expanded once per such branch - exponential along a chain, although every call is still "guarded"
        for fn in sorted(comp):
            body = mir.bodies[fn]
            nth = {}
            for bb, t in body.calls():
                callee = t['callee'] or t['raw']
                if callee not in cs:
                    continue
                nth[callee] = nth.get(callee, 0) + 1
                cb = mir.bodies[callee]
                for p_ in range(1, cb.arg_count + 1):
                    ty = cb.locals[p_]
                    if not (ty.startswith('&mut ') and any(s_ in ty.split('<')[0] for s_ in ('collections::HashSet', 'collections::BTreeSet', 'collections::HashMap', 'collections::BTreeMap'))
                            and 'naga::Handle<' in ty):
                        continue
                    if p_ - 1 >= len(t['args']) or op_place(t['args'][p_ - 1]) is None:
                        continue
                    root = canon(body, op_place(t['args'][p_ - 1]))
                    own = 1 <= root[0] <= body.arg_count
                    # a closure of the component captures the creator's set: the upvar struct is its parameter #1
                    rep.check(own, 'C20.guard-set-threaded', f'guard-set:{fn}->{callee}#{nth[callee]}:{p_}', body.where(bb),
                              f'the handle-keyed set handed to the recursive call {fn} -> {callee} (parameter #{p_}, {ty}) is not the set this activation received '
                              f'(it is local _{root[0]}: a clone or a fresh set): nodes visited by sibling calls are forgotten and re-expanded - the walk multiplies with depth',
                              ok_detail='the recursive call hands on the visited set it received')
        # nothing in the component may shrink a guard set
        for fn in sorted(comp):
            body = mir.bodies[fn]
            for bb, t in body.calls():
                c = t['callee'] or t['raw']
                if any(c.startswith(s) for s in SET_TYPES[:4]) and any(c.endswith(u) for u in UNGUARD):
                    recv = op_place(t['args'][0]) if t['args'] else None
                    root = canon(body, recv) if recv else None
                    if root and 1 <= root[0] <= body.arg_count:
                        rep.bad('C20.guard-set-shrinks', f'shrinks:{fn}:{c}', body.where(bb),
                                f'{c} on a set received by parameter inside recursive component {sorted(comp)}: a visited '
                                f'set that forgets nodes only prevents cycles, the walk is exponential on DAGs')
    # worklist loops
    n_work = 0
    for fn, body in sorted(mir.bodies.items()):
        pushes = [(bb, t) for bb, t in body.calls() if (t['callee'] or t['raw']).startswith(('std::vec::Vec', 'std::collections::VecDeque'))
                  and (t['callee'] or t['raw']).split('::')[-1] in ('push', 'push_back', 'push_front', 'extend', 'append', 'extend_from_slice')]
        pops = [(bb, t) for bb, t in body.calls() if (t['callee'] or t['raw']).startswith(('std::vec::Vec', 'std::collections::VecDeque'))
                and (t['callee'] or t['raw']).split('::')[-1] in ('pop', 'pop_front', 'pop_back', 'remove', 'swap_remove')]
        for pb, pt in pushes:
            proot = canon(body, op_place(pt['args'][0])) if op_place(pt['args'][0]) else None
            for qb, qt in pops:
                qroot = canon(body, op_place(qt['args'][0])) if op_place(qt['args'][0]) else None
                if proot is None or proot != qroot:
                    continue
                # both in one cycle?
                if qb in body.reachable_from(body.term_succ(pb)) and pb in body.reachable_from(body.term_succ(qb)):
                    n_work += 1
                    key = f'worklist:{fn}'
                    handle_keys = {(p, '') for p in range(1, body.arg_count + 1)}
                    # any set-guard dominating the push with the call on the new edge?
                    arg_roots = set()
                    for a in pt['args'][1:]:
                        if op_place(a):
                            arg_roots.add(canon(body, op_place(a)))
                    # what is pushed: nodes reached through an arena handle (shared: a DAG) need the visited guard; owned sub-structure of the popped
                    # node (the nested blocks of a statement) is a tree - every node is pushed once, the loop is linear
                    val_locals = [op_local(a) for a in pt['args'][1:] if op_local(a) is not None]
                    handle_vals = [l_ for l_ in val_locals if is_handle_ty(body.locals[l_]) or 'naga::Handle<' in body.locals[l_]]
                    _, vcalls, _ = body.backward_slice(val_locals, through_calls=True)
                    if not handle_vals and not any((c_['callee'] or c_['raw']) in ARENA_INDEX for _, c_ in vcalls):
                        rep.ok('C20.tree-recursion', key + f':push@{pb}', body.where(pb), 'the work list receives owned sub-structure of the popped node (no arena handle in the backward slice '
                               'of the pushed value): each node is pushed once, linear')
                        continue
                    ok, desc = guard_of_any(body, pb)
                    rep.check(ok, 'C20.worklist-guard', key, body.where(pb),
                              f'worklist loop (pop and push on one collection inside a loop) without a visited-set branch '
                              f'dominating the push: nodes of a DAG are re-expanded once per path (nearest: {desc})',
                              ok_detail=f'worklist push dominated by visited-set branch {desc}')
    # the stage walker has to follow callees and the type closure nested types: by recursion or by a worklist
    rep.floor('arena-following recursive call sites + worklist loops', n_arena + n_work, 2)
    rep.info['recursive_call_sites'] = n_sites
    rep.info['arena_following_sites'] = n_arena
    rep.info['worklist_loops'] = n_work
    # loop nesting depth is reported only
    rep.info['note_degree'] = 'loop nesting over module arenas sets the degree of the polynomial and is not a verdict'


def guard_of_any(body, bb):
    """visited-set branch (any key, any receiver that is not created inside the loop) dominating bb"""
    dom = body.dominators()[bb]
    for g in sorted(dom):
        t = body.blocks[g]['term']
        if t['k'] != 'switch':
            continue
        dl = op_local(t['discr'])
        cur, src = dl, None
        for _ in range(6):
            ds = body.defs().get(cur, []) if cur is not None else []
            if len(ds) != 1:
                break
            b, kind, x = ds[0]
            if kind == 'call':
                src = x
                break
            rv = x['rv']
            if rv['rk'] in ('unop', 'use') and rv.get('ops') and op_local(rv['ops'][0]) is not None:
                cur = op_local(rv['ops'][0])
            else:
                break
        if src and (is_set_call(src, GUARD_INSERT) or is_set_call(src, GUARD_CONTAINS)):
            edges = [tgt for _, tgt in t['targets']] + [t['otherwise']]
            if not all(bb in body.reachable_from([e], avoid={g}) for e in edges):
                return True, src['callee']
    return False, None
