"""C06 - struct fields keep WGSL order, names and element types.

Decided on the output grammar (Engine A), anchored on the struct item template (`pub struct #name { #(#members),* }`):
  * the field repetition ranges over the struct's own member list, filtered only by "is not a builtin", never reordered
    (no sort/rev/dedup), field name = member name (identity);
  * the field type hole is the type table applied to module.types[member.ty] under the *selected* representation
    (options.matrix_vector_types, never a constant); the table is looked up exhaustively over its finite leaf domain
    (scalars, atomics, vec2-4, 9 matrix shapes x f32/f64, x Rust/Glam/Nalgebra) and compared with oracle formulas;
  * fixed arrays: `[<elem>; <len>]` with elem the same table on the array's base type (same representation) and len the
    array's own constant size; structs: the emitted struct of that type's name; trailing runtime array:
    `#[size(runtime)] pub f: Vec<elem>`, guarded by the "only the last field" panic.
Not decided: rustc's layout of the resulting struct (C05 asserts it under bytemuck)."""
import engine_ogp as E
import schema as S
import leaf_tables as LT
from conc import Eval, V, Diverge, Unbound
from rules.c02 import collect_scrutinees, hole_after

TRUE = ('true',)


def struct_template(ogp):
    hits = []
    for q, v in ogp.summaries.items():
        for t in E.find_templates(v, lambda t: 'pub struct #' in E.tmpl_text(t) and 'derive ( #(' in E.tmpl_text(t)):
            if t[3] == q:
                hits.append((q, t))
    return hits


def eval_hole(term, ti_scr, inner, fmt_scr, rep_):
    def leaf(t):
        if t == ti_scr:
            return (inner,)
        if fmt_scr is not None and t == fmt_scr:
            return (V('crate::MatrixVectorTypes::' + rep_),)
        return None
    import engine_skel as _K
    return _K.table_ev(E.load(), leaf, term)


def run(rep):
    ogp = E.load()
    rep.explanation = __doc__
    rep.exhaustive = True
    rep.trusted = ['syn parser and the abstract semantics of Engine A', 'oracle formulas for the three representations (DESIGN.md appendix A.3)']
    hits = struct_template(ogp)
    rep.floor('struct item template', len(hits), 1)
    if not hits:
        return
    q, tmpl = hits[0]
    f = ogp.crate.fns[q]
    where = f"{ogp.crate.relfile(f['file'])} fn {f['name']} (template at {tmpl[1]})"
    hs = E.holes(tmpl)
    # the field repetition: the hole inside `{ #( # x ),* }`
    rep_items = [it for it in tmpl[2] if it[0] == 'rep']
    body_rep = None
    items = tmpl[2]
    for i, it in enumerate(items):
        if it[0] == 'rep' and i > 0 and items[i - 1] == ('tok', '{'):
            body_rep = it
    if body_rep is None or len(body_rep[1]) != 1 or body_rep[1][0][0] != 'hole':
        rep.bad('C06.anchor', 'field-repetition', where, 'cannot find the field repetition of the struct item', undecided=True)
        return
    rep.check(body_rep[2] == ',', 'C06.anchor', 'field-separator', where, f'fields are separated by `{body_rep[2]}`', ok_detail='comma separated')
    fields = body_rep[1][0][2]
    if fields[0] != 'star':
        rep.bad('C06.order', 'field-source', where, f'the field list is not a plain iteration over the member list (found {E.show(fields, maxdepth=4)}): order may not be declaration order',
                undecided=fields[0] not in ('reorder',))
        return
    src, eid, body, conds = fields[1], fields[2], fields[3], fields[4]
    elem = ('elem', eid, src)
    src_ok = src[0] in ('param', 'vf', 'f') and not fields[5]
    rep.check(src_ok, 'C06.order', 'field-source', where,
              f'fields are generated from {E.show(src, maxdepth=5)}, not directly from the struct\'s member list: declaration order is not preserved',
              ok_detail=f'iterates {E.show(src, maxdepth=4)} in order')
    want_c = ('not', ('and', [('is', ('f', elem, 'binding'), 'Some'), ('is', ('unwrap', ('f', elem, 'binding')), 'naga::Binding::BuiltIn')]))
    rep.check(conds == [want_c], 'C06.order', 'field-filter', where,
              f'members are filtered by {[E.show(c, maxdepth=6) for c in conds]}; expected exactly "not a builtin"', ok_detail='filter: !matches!(binding, Some(BuiltIn))')
    # field templates
    ts = E.find_templates(body, lambda t: True)
    plain = [t for t in ts if E.tmpl_text(t).startswith('pub #')]
    rts = [t for t in ts if 'size ( runtime )' in E.tmpl_text(t)]
    rep.check(len(plain) == 1 and len(rts) == 1, 'C06.field-shape', 'field-templates', where,
              f'expected one plain field template and one runtime-array field template, found {[E.tmpl_text(t) for t in ts]}', ok_detail='`pub #n : #t` and `#[size(runtime)] pub #n : Vec<#t>`')
    if len(plain) != 1:
        return
    pt = plain[0]
    ptxt = E.tmpl_text(pt).split()
    ph = E.holes(pt)
    rep.check(len(ptxt) == 4 and ptxt[0] == 'pub' and ptxt[2] == ':' and len(ph) == 2, 'C06.field-shape', 'plain-field', where, f'plain field template is `{" ".join(ptxt)}`', ok_detail=' '.join(ptxt))
    name_t, type_t = list(ph.values())[0], list(ph.values())[1]
    want_name = ('call', 'Ident::new', [('unwrap', ('f', elem, 'name'))])
    rep.check(name_t == want_name, 'C06.name-identity', 'field-name', where, f'field name is {E.show(name_t, maxdepth=6)}, expected the member\'s own name', ok_detail='Ident::new(member.name)')
    # scrutinees of the type hole
    scr = collect_scrutinees(type_t)
    ti = scr.get('TypeInner', [])
    mv = scr.get('MatrixVectorTypes', [])
    ok_ti = len(ti) >= 1 and all(t[0] == 'f' and t[2] == 'inner' and t[1][0] == 'idx' and t[1][2] == ('f', elem, 'ty') for t in ti[:1])
    rep.check(ok_ti, 'C06.type-of-member', 'type-scrutinee', where,
              f'the field type is not computed from module.types[member.ty] of the same member (scrutinee {E.show(ti[0], maxdepth=6) if ti else None})', ok_detail='type table applied to module.types[member.ty]')
    ok_mv = len(mv) == 1 and mv[0][0] == 'f' and mv[0][2] == 'matrix_vector_types' and mv[0][1][0] == 'param'
    rep.check(ok_mv, 'C06.selected-representation', 'representation-scrutinee', where,
              f'the representation the type table switches on is {[E.show(m, maxdepth=4) for m in mv]}, expected the caller\'s options.matrix_vector_types only',
              ok_detail='switches on options.matrix_vector_types')
    if not ok_ti or not ok_mv:
        return
    ti, mv = ti[0], mv[0]
    # ---- leaf table at the use site -----------------------------------------------------------------------------------------
    n = 0
    for label, inner, shape in LT.type_points():
        for r in LT.REPRS:
            key = f'leaf:{label}/{r}'
            try:
                txt = eval_hole(type_t, ti, inner, mv, r)
            except Diverge:
                continue
            except Unbound as u:
                rep.bad('C06.leaf-table', key, where, f'cannot look up the field type table at {label}/{r}: {u}', undecided=True)
                continue
            n += 1
            exp = LT.expected_type_tokens(shape, r)
            rep.check(txt in exp, 'C06.leaf-table', key, where,
                      f'a member of type {label} under {r} becomes `{txt}`; expected {" or ".join(sorted("`" + e + "`" for e in exp))}', ok_detail=txt)
    rep.floor('leaf-type table points that yield a type', n, 117)
    rep.info['leaf_points_evaluated'] = n
    # ---- composite rows (array, struct) on the type function itself --------------------------------------------------------------
    qs = LT.find_type_fn(ogp)
    rep.floor('type-mapping function', len(qs), 1)
    if qs:
        tq = qs[0]
        tf = ogp.crate.fns[tq]
        twhere = f"{ogp.crate.relfile(tf['file'])} fn {tf['name']}"
        summ = ogp.summaries[tq]
        pn = {('naga::Type' if p['ty'].replace(' ', '').endswith('naga::Type') else 'fmt' if 'MatrixVectorTypes' in p['ty'] else 'module'): ('param', tq, p['pat']['name']) for p in tf['params']}
        tyP, fmtP, modP = pn.get('naga::Type'), pn.get('fmt'), pn.get('module')
        inner = ('f', tyP, 'inner')
        arr_rows = [(c, v) for c, v in summ[1] if mentions_variant(c, 'TypeInner::Array') and E.find_templates(v, lambda t: True)]
        rep.check(len(arr_rows) >= 1, 'C06.array-row', 'array-row', twhere, 'no row for fixed-size arrays in the type table', ok_detail='array row present')
        for c, v in arr_rows[:1]:
            t = E.find_templates(v, lambda t: True)[0]
            txt = E.tmpl_text(t).split()
            hh = list(E.holes(t).values())
            ok_shape = len(txt) == 5 and txt[0] == '[' and txt[2] == ';' and txt[4] == ']' and len(hh) == 2
            rep.check(ok_shape, 'C06.array-row', 'array-shape', twhere, f'array row is `{" ".join(txt)}`, expected `[ #elem ; #len ]`', ok_detail=' '.join(txt))
            if ok_shape:
                want_elem = ('reccall', tq, [modP, ('idx', ('f', modP, 'types'), ('vf', inner, 'naga::TypeInner::Array', 'base')), fmtP])
                rep.check(hh[0] == want_elem, 'C06.array-row', 'array-elem', twhere,
                          f'array element type is {E.show(hh[0], maxdepth=6)}; expected the same table on module.types[base] with the same representation', ok_detail='elem = table(module.types[base], format)')
                size = ('vf', ('vf', inner, 'naga::TypeInner::Array', 'size'), 'naga::ArraySize::Constant', '0')
                want_len = ('call', 'Literal::usize_unsuffixed', [('cast', ('mcall', size, 'get', []), 'usize')])
                rep.check(hh[1] == want_len, 'C06.array-row', 'array-len', twhere,
                          f'array length is {E.show(hh[1], maxdepth=7)}; expected the array\'s own constant size', ok_detail='len = size.get()')
        st_rows = [(c, v) for c, v in summ[1] if mentions_variant(c, 'TypeInner::Struct')]
        for c, v in st_rows[:1]:
            ts2 = E.find_templates(v, lambda t: True)
            ok = len(ts2) == 1 and E.tmpl_text(ts2[0]).split() == ['#' + list(E.holes(ts2[0]))[0]] and \
                list(E.holes(ts2[0]).values())[0] == ('call', 'Ident::new', [('unwrap', ('f', tyP, 'name'))])
            rep.check(ok, 'C06.struct-row', 'struct-row', twhere, 'a nested struct member does not refer to the emitted struct of the same name', ok_detail='struct -> Ident::new(type.name)')
        rep.check(bool(st_rows), 'C06.struct-row', 'struct-row-present', twhere, 'no row for nested structs', ok_detail='present')
    # ---- runtime-sized array field ------------------------------------------------------------------------------------------------
    if len(rts) == 1:
        rt = rts[0]
        txt = E.tmpl_text(rt)
        hh = list(E.holes(rt).values())
        rep.check(txt.split() == '# [ size ( runtime ) ] pub #member_name : Vec < #element_type >'.split() or
                  (txt.startswith('# [ size ( runtime ) ] pub #') and ': Vec < #' in txt and txt.endswith('>')), 'C06.rts-field', 'rts-shape', where,
                  f'runtime-sized array field is `{txt}`', ok_detail=txt)
        # which template is chosen for which member type: evaluated on concrete member types (not pattern-matched)
        TI = 'naga::TypeInner::'
        arr = lambda dyn: V(TI + 'Array', base='BASE', size=V('naga::ArraySize::Dynamic') if dyn else V('naga::ArraySize::Constant', **{'0': 4}), stride=16)
        picks = {}
        for label, inner in (('array<T>', arr(True)), ('array<T,4>', arr(False)), ('f32', V(TI + 'Scalar', **{'0': LT.scalar_v('Float', 4)})), ('struct', V(TI + 'Struct', members=(), span=4))):
            def leaf(t, inner=inner):
                return (inner,) if t == ti else None
            ev = Eval(leaf, lenient=True)
            try:
                txt_ = ev.ev(body)
            except (Diverge, Unbound) as ex:
                txt_ = f'<{ex}>'
            picks[label] = 'rts' if 'size ( runtime )' in str(txt_) else 'plain' if str(txt_).startswith('pub ') else str(txt_)[:60]
        okc = picks == {'array<T>': 'rts', 'array<T,4>': 'plain', 'f32': 'plain', 'struct': 'plain'}
        rep.check(okc, 'C06.rts-field', 'rts-cond', where, f'the runtime-array field template is chosen as {picks}; expected exactly for arrays of dynamic size', ok_detail='chosen iff member type is Array with size Dynamic')
        if len(hh) == 2:
            rep.check(hh[0] == want_name, 'C06.rts-field', 'rts-name', where, 'runtime-array field name is not the member name', ok_detail='name identity')
            # the template is chosen exactly for arrays of dynamic size ('rts-cond' above): its holes are read under that fact (a record built
            # first - `StructField { ty: if rts { element } else { member }, is_rts_array }` - carries both alternatives)
            facts = [('is', ti, 'naga::TypeInner::Array'), ('is', ('vf', ti, 'naga::TypeInner::Array', 'size'), 'naga::ArraySize::Dynamic')]
            scr2 = collect_scrutinees(E.prune(hh[1], facts, []) if okc else hh[1])
            t2 = scr2.get('TypeInner', [])
            m2 = scr2.get('MatrixVectorTypes', [])
            want_base = ('f', ('idx', ti[1][1], ('vf', ti, 'naga::TypeInner::Array', 'base')), 'inner')
            rep.check(bool(t2) and t2[0] == want_base and m2 == [mv], 'C06.rts-field', 'rts-elem', where,
                      f'runtime-array element type is not the table on module.types[base] under the selected representation ({E.show(t2[0], maxdepth=6) if t2 else None})',
                      ok_detail='Vec<table(module.types[base], options.matrix_vector_types)>')
        # guarded by the "last field only" panic
        div = [e for e in ogp.effects.get(q, []) + sum((ogp.effects.get(k, []) for k in ogp.effects), []) if e['kind'] == 'diverge' and 'len' in E.show(e['cond'], maxdepth=12)]
        rep.check(bool(div), 'C06.rts-field', 'rts-last-only', where, 'no panic guards a runtime-sized array that is not the last member', ok_detail='panics unless index == len - 1')
    # "nested structs refer to the emitted struct of the same name": the struct a member names is reachable from the same variable, so it is
    # emitted exactly when the type closure follows members / arrays (C08's closure rules)
    from common import include
    include(rep, 'c08', ('C08.closure', 'C08.filter-formula', 'C08.struct-only'), 'nested-struct-emitted')
    # the section reaches the assembled output unconditionally (shared rule, lib/sections.py)
    from sections import check_wiring
    check_wiring(rep, 'C06.section-wiring', ['derive ( #('], 'struct-section')


def mentions_variant(c, suffix):
    found = [False]

    def f(x):
        if x[0] == 'is' and x[2].endswith(suffix):
            found[0] = True
    E.walk(c, f)
    return found[0]
