"""C08 - exactly the host-visible structs are emitted, once each.

Decided on the output grammar / effect summaries (Engine A):
  * closure exhaustiveness: every (variant, field) of naga::TypeInner that holds a Handle<Type> (enumerated from the pinned
    naga source: Pointer.base, Array.base, Struct.members[].ty, BindingArray.base) is followed by the type-closure function;
    every visited handle is inserted; the closure is seeded from all module.global_variables (no adapter) with g.ty;
  * filter formula: the predicate selecting emitted types, over atoms recognised by shape (A: some entry point's result type
    is h; B: some entry point has an argument of type h; C: h is in the closure), is equivalent (8-row truth table) to
    (not A and B) or C; items are produced only for TypeInner::Struct;
  * once each: the struct items come from a single pass over module.types (a UniqueArena), with no second producer of struct
    items anywhere in the assembled output."""
import itertools
import engine_ogp as E
import schema as S
from conc import Eval, V, Diverge, Unbound
from rules.c03 import split, derived_from


def run(rep):
    ogp = E.load()
    sch = S.load()
    rep.explanation = __doc__
    rep.trusted = ['syn parser and the abstract semantics of Engine A', 'naga stores each type once (UniqueArena)']
    crate = ogp.crate
    # driver
    hits = []
    for q, v in ogp.summaries.items():
        stars = []
        E.walk(v, lambda x: stars.append(x) if x[0] == 'star' and x[1][0] == 'f' and x[1][2] == 'types' and x[1][1][0] == 'param' else None)
        for st in stars:
            ts = E.find_templates(st[3], lambda t: 'pub struct #' in E.tmpl_text(t) and 'derive ( #(' in E.tmpl_text(t))
            if ts:
                hits.append((q, st, ts[0]))
    rep.floor('single pass over module.types producing struct items', len(hits), 1)
    if not hits:
        return
    hits.sort(key=lambda h: len(crate.call_graph()[h[0]]))
    q, st, tmpl = hits[0]
    f = crate.fns[q]
    where = f"{crate.relfile(f['file'])} fn {f['name']}"
    modP = st[1][1]
    elem = ('elem', st[2], st[1])
    h = ('tf', elem, 0)
    rep.check(not st[5], 'C08.once', 'single-pass', where, 'struct items come from a flattened iteration', ok_detail='plain pass over module.types')
    # ---- filter formula ---------------------------------------------------------------------------------------------------------
    # the whole condition under which an item is produced for a type (filters, match guards, early returns of helper predicates), judged
    # semantically: its atoms are recognised (S: the type is a struct, A/B by behaviour on model entry points, C: membership in the closure
    # set) and the 16-row truth table must be S and ((not A and B) or C)
    pred, atoms = predicate_and_atoms(ogp, st, modP, elem, h)
    if True:
        rep.check('S' in atoms, 'C08.struct-only', 'struct-only', where, f'items are not restricted to TypeInner::Struct ({E.show(pred, maxdepth=5)})',
                  ok_detail='items only for TypeInner::Struct')
        rep.check('C' in atoms and bool(atoms.tables), 'C08.filter-formula', 'atoms', where,
                  f'cannot recognise the atoms of the selection predicate (found {sorted(atoms)}) in {E.show(pred, maxdepth=6)}: A = "some entry point returns exactly this type", '
                  f'B = "some entry point takes an argument of exactly this type" or a combination of the two (classified by evaluating the extracted conditions on model entry points), '
                  f'C = membership in the closure set',
                  ok_detail=f'entry-point atoms {sorted(atoms.tables)} (truth tables over A: result type == h, B: some argument type == h), C: closure contains h')
        if atoms.complete():
            other = []

            def find_other(x):
                if x in atoms.values():
                    return False
                if x[0] in ('t',) and x[1] not in atoms.values() and x[1][0] not in ('any', 'mcall'):
                    other.append(x)
                if x[0] in ('eq', 'is'):
                    other.append(x)
            E.walk(pred, find_other)
            rep.check(not other, 'C08.filter-formula', 'no-other-atom', where, f'the predicate also depends on {[E.show(o, maxdepth=5) for o in other][:3]}', ok_detail='only S, C and conditions on the entry points')
            for vs, va, vb, vc in itertools.product([True, False], [False, True], [False, True], [False, True]):
                leaf = atoms.leaf(vs, va, vb, vc)
                key = f'row:A={int(va)},B={int(vb)},C={int(vc)}' + ('' if vs else ',not-a-struct')
                try:
                    got = Eval(leaf, lenient=False).truth(pred)
                except (Unbound, Diverge) as u:
                    if not vs:
                        continue        # for a non-struct the remaining conditions may be undefined (bindings of the Struct pattern)
                    rep.bad('C08.filter-formula', key, where, f'cannot evaluate the predicate: {u}', undecided=True)
                    continue
                exp = vs and ((not va and vb) or vc)
                rep.check(got == exp, 'C08.filter-formula', key, where,
                          f'a type with [struct={vs}, entry result={va}, entry argument={vb}, reachable from a variable={vc}] is {"emitted" if got else "not emitted"}; '
                          f'the property requires {"emission" if exp else "no emission"}', ok_detail=f'emitted={got}')
        # the set C consults is the closure set
        if 'C' in atoms:
            setT = atoms['C'][1]
            rep.check(setT[0] == 'new' and setT[3] == (), 'C08.closure-set', 'closure-set', where, f'the membership set is {E.show(setT, maxdepth=3)}', ok_detail=f'{setT[1]} created once')
            closure_discipline(ogp, rep, 'C08.closure-set', q, setT, modP, where)
    # a selected struct always yields its item: no branch of the item's own body may produce nothing (e.g. `if members.is_empty() { return
    # quote!() }` inside the function that builds the item - the impl blocks and helper signatures still refer to the struct)
    from sections import _is_empty_value
    empties = []

    def item_spine(t_, depth=0):
        if depth > 6 or not isinstance(t_, tuple) or not t_:
            return
        if t_[0] == 'alt':
            for c_, v_ in t_[1]:
                if v_[0] in ('tmpl', 'call', 'path') and _is_empty_value(v_):
                    empties.append(c_)          # an empty token stream where the item should be (`None` of a filter_map is a selection, judged above)
                else:
                    item_spine(v_, depth + 1)
        elif t_[0] in ('opt', 'some'):
            item_spine(t_[-1], depth + 1)
    item_spine(st[3])
    rep.check(not empties, 'C08.filter-formula', 'item-empty-branch', where,
              f'the item of a selected struct is empty under {[E.show(c_, maxdepth=4) for c_ in empties][:2]}: the struct is selected (and referred to elsewhere) but not emitted',
              ok_detail='a selected struct always yields its item')
    # ---- once each: no second producer -----------------------------------------------------------------------------------------------
    tops = [tq for tq in ogp.summaries if any(c[0] == tq and c[1] == q for c in ogp.it.inline_calls)]
    for tq in tops:
        top = ogp.summaries[tq]
        insts = E.find_templates(top, lambda t: 'pub struct #' in E.tmpl_text(t) and 'derive ( #(' in E.tmpl_text(t))
        stars = []
        E.walk(top, lambda x: stars.append(x) if x[0] == 'star' and E.find_templates(x[3], lambda t: 'pub struct #' in E.tmpl_text(t) and 'derive ( #(' in E.tmpl_text(t)) else None)
        outer = [s for s in stars if not any(s is not o and contains(o[3], s) for o in stars)]
        rep.check(len(outer) == 1, 'C08.once', f'producers:{tq}', where, f'{len(outer)} independent producers of user struct items in the assembled output', ok_detail='one producer')
    rep.floor('callers assembling the struct section', len(tops), 1)
    # ---- closure exhaustiveness ---------------------------------------------------------------------------------------------------------
    ti = sch.enums['naga::TypeInner']
    need = []
    for v, info in ti.items():
        for fname, fty in info['fields']:
            if 'Handle<Type>' in fty:
                need.append((v, fname, None))
            elif 'Vec<StructMember>' in fty or 'StructMember' in fty:
                need.append((v, fname, 'ty'))
    closure_fns = set()
    for fn_q, effs in ogp.effects.items():
        for e in effs:
            if e['kind'] == 'reccall' and e['callee'] == e['in']:
                pos, neg = split(e['cond'])
                if any(c[0] == 'is' and 'TypeInner::' in c[2] for c in pos) and any('Set<' in p['ty'].replace(' ', '') for p in crate.fns[e['in']]['params']):
                    closure_fns.add(e['in'])
    rep.floor('type-closure function (recursive over naga::TypeInner)', len(closure_fns), 1)
    rep.analysed = {'driver': q, 'closure_functions': sorted(closure_fns), 'required_type_handles': [f'{v}.{f}' + (f'[].{s}' if s else '') for v, f, s in need]}
    for cq in sorted(closure_fns):
        cf = crate.fns[cq]
        cwhere = f"{crate.relfile(cf['file'])} fn {cf['name']}"
        effs = [e for e in ogp.effects.get(cq, []) if e['in'] == cq]
        hidx = [i for i, p in enumerate(cf['params']) if p['ty'].replace(' ', '').lstrip('&').startswith(('Handle<', 'naga::Handle<'))]
        sidx = [i for i, p in enumerate(cf['params']) if 'Set<' in p['ty'].replace(' ', '')]
        midx = [i for i, p in enumerate(cf['params']) if p['ty'].replace(' ', '').endswith('Module') or
                (p['pat'].get('name') == 'self' and str(cf.get('impl_of', '')).replace(' ', '').endswith('Module'))]      # a method of an extension trait of naga::Module
        if not hidx or not sidx or not midx:
            rep.bad('C08.closure', f'params:{cq}', cwhere, 'cannot identify handle/set/module parameters of the closure function', undecided=True)
            continue
        H = ('param', cq, cf['params'][hidx[0]]['pat']['name'])
        Sx = ('param', cq, cf['params'][sidx[0]]['pat']['name'])
        M = ('param', cq, cf['params'][midx[0]]['pat']['name'])
        ins = [e for e in effs if e['kind'] == 'mutate' and e['method'] == 'insert' and e['target'] == Sx and e['args'] == [H]]
        rep.check(bool(ins) and ins[0]['cond'] == ('true',), 'C08.closure', f'insert:{cq}', cwhere, 'the visited type handle is not inserted into the set unconditionally',
                  ok_detail='types.insert(ty) first')
        inner = ('f', ('idx', ('f', M, 'types'), H), 'inner')
        for v, fname, sub in need:
            key = f'closure:{v}.{fname}' + (f'[].{sub}' if sub else '')
            hit = None
            for e in effs:
                if e['kind'] != 'reccall' or e['callee'] != cq:
                    continue
                pos, neg = split(e['cond'])
                if not any(c[0] == 'is' and c[1] == inner and c[2].endswith('TypeInner::' + v) for c in pos):
                    continue
                target = ('vf', inner, [c[2] for c in pos if c[0] == 'is' and c[1] == inner and c[2].endswith('TypeInner::' + v)][0], fname)
                arg = e['args'][hidx[0]]
                if (sub is None and arg == target) or (sub is not None and arg[0] == 'f' and arg[2] == sub and arg[1][0] == 'elem' and arg[1][2] == target):
                    hit = (e, pos)
                    break
            if not hit:
                rep.bad('C08.closure', key, cwhere, f'TypeInner::{v}.{fname} is not followed by the type closure: structs reachable only through it are not emitted (or not treated as host-shareable)')
                continue
            e, pos = hit
            extra = [c for c in pos if not (c[0] == 'is' and c[1] == inner) and not (c[0] == 't' and c[1][0] == 'mcall' and c[1][2] == 'insert')]
            # negative conditions: earlier match arms on the same scrutinee are fine; anything else (`if seen || big { return }`) stops the closure early
            _, neg_ = split(e['cond'])
            extra += [('not', c) for c in neg_ if not (c[0] == 'is' and c[1] == inner)]
            def visited_precheck(c_):
                # `.filter(|ty| !types.contains(ty))` before the recursive call: a type that is in the set already has been visited - skipping it
                # loses nothing (the callee would return at once)
                while c_[0] == 't':
                    c_ = c_[1]
                if c_[0] != 'not':
                    return False
                c_ = c_[1]
                while c_[0] == 't':
                    c_ = c_[1]
                return c_[0] == 'mcall' and c_[2] == 'contains' and c_[1] == Sx and len(c_[3]) == 1
            loops_ok = all(all(visited_precheck(c_) for c_ in l[2]) for l in e['loops'])
            rep.check(not extra and loops_ok, 'C08.closure', key, cwhere, f'followed only under {[E.show(c, maxdepth=4) for c in extra][:2]} / filtered loop', ok_detail='followed unconditionally')
            ok_pass = e['args'][sidx[0]] == Sx and e['args'][midx[0]] == M
            rep.check(ok_pass, 'C08.closure', key + ':params', cwhere, 'set/module are not passed on unchanged', ok_detail='set and module passed unchanged')
    # seeding
    seeds = [e for e in ogp.effects.get(q, []) if e['in'] in closure_fns and e['kind'] == 'mutate' and e['method'] == 'insert']
    ok_seed = False
    for e in seeds:
        if e['loops'] and e['loops'][0][1] == ('f', modP, 'global_variables') and e['loops'][0][2] == []:
            g = ('elem', e['loops'][0][0], e['loops'][0][1])
            if e['args'] == [('f', ('tf', g, 1), 'ty')] and e['cond'] == ('true',):
                ok_seed = True
    rep.check(ok_seed, 'C08.closure-seed', f'seed:{q}', where, 'the closure is not seeded with the type of every module.global_variables element (unfiltered)', ok_detail='for g in module.global_variables: closure(g.ty)')
    # the section reaches the assembled output unconditionally (shared rule, lib/sections.py)
    from sections import check_wiring
    check_wiring(rep, 'C08.section-wiring', ['derive ( #('], 'struct-section')


TABLE_A = {(False, False): False, (True, False): True, (False, True): False, (True, True): True}
TABLE_B = {(False, False): False, (True, False): False, (False, True): True, (True, True): True}


class Atoms(dict):
    """label -> term of the atoms of the selection predicate: 'S' (the type is a struct), 'C' (membership in the closure set) and the atoms that
    depend on the entry points, each with its truth table over (A, B) in .tables[label] (A = some entry point returns exactly this type,
    B = some entry point takes an argument of exactly this type): 'A', 'B', or a combination such as `inputs_minus_outputs.contains(h)`"""
    def __init__(self):
        super().__init__()
        self.tables = {}

    def complete(self):
        return 'S' in self and 'C' in self and bool(self.tables)

    def leaf(self, vs, va, vb, vc):
        def leaf(t):
            for k_, term in self.items():
                if t == term:
                    if k_ == 'S':
                        return (vs,)
                    if k_ == 'C':
                        return (vc,)
                    return (self.tables[k_][(va, vb)],)
            return None
        return leaf


def classify_ep(ogp, term, modP, h):
    """truth table over (A, B) of a condition on the entry points, by its behaviour on model entry points: A = some entry point's result
    type is h, B = some entry point has an argument of type h (the extracted condition is evaluated, not pattern-matched); None when the
    term is not such a condition or does not behave as a function of (A, B) on the model worlds"""
    import engine_skel as K
    mentions_eps = []
    E.walk(term, lambda x: mentions_eps.append(1) if x == ('f', modP, 'entry_points') else None)
    is_any = term[0] == 'any' and term[1][0] == 'star' and term[1][1] == ('f', modP, 'entry_points')
    # membership of h in a set / list collected from the entry points (precomputed `entry_inputs.contains(&ty)`)
    is_member = term[0] == 'mcall' and term[2] == 'contains' and term[3] == [h] and bool(mentions_eps) and term[1][0] != 'new'
    if not (is_any or is_member):
        return None

    def entry(result_ty, arg_tys, stage='Vertex'):
        res = None if result_ty is None else ('some', V('naga::FunctionResult', ty=result_ty, binding=None))
        fn = V('naga::Function', name=('some', 'f'), result=res, arguments=[V('naga::FunctionArgument', name=None, ty=t, binding=None) for t in arg_tys])
        return V('naga::EntryPoint', name='e', stage=V('naga::ShaderStage::' + stage), function=fn)
    H_, O_ = 'H', 'OTHER'
    # A and B speak of entry points of every stage: the worlds vary the stage too, so that a condition restricted to one stage (e.g. "argument
    # of a *vertex* entry") is not mistaken for B
    worlds = [([], (False, False)), ([entry(None, [])], (False, False)), ([entry(H_, [])], (True, False)), ([entry(O_, [O_])], (False, False)), ([entry(O_, [O_, H_])], (False, True)),
              ([entry(None, [O_]), entry(H_, [H_])], (True, True)), ([entry(O_, []), entry(None, [H_])], (False, True)),
              ([entry(H_, [O_]), entry(O_, [H_, O_])], (True, True)), ([entry(O_, [H_]), entry(H_, [])], (True, True)), ([entry(H_, [O_]), entry(None, [])], (True, False)),
              ([entry(O_, [H_], 'Fragment')], (False, True)), ([entry(None, [O_, H_], 'Compute')], (False, True)), ([entry(H_, [], 'Fragment')], (True, False)),
              ([entry(H_, [O_], 'Compute'), entry(None, [])], (True, False)), ([entry(O_, [O_]), entry(H_, [H_], 'Fragment')], (True, True))]
    table = {}
    for eps, ab in worlds:
        def leaf(t, eps=eps):
            if t == ('f', modP, 'entry_points'):
                return (eps,)
            if t == h:
                return (H_,)
            return None
        try:
            got = bool(K.SkelEval(ogp, None, {}, '', None, extra_leaf=leaf).ev(term))
        except (Unbound, Diverge):
            return None
        if table.setdefault(ab, got) != got:
            return None        # not a function of (A, B): e.g. sensitive to the order or the number of entry points
    if len(set(table.values())) == 1:
        return None
    return table


def classify_any(ogp, term, modP, h):
    tb = classify_ep(ogp, term, modP, h)
    return 'A' if tb == TABLE_A else 'B' if tb == TABLE_B else None


def predicate_and_atoms(ogp, st, modP, elem, h):
    pred = ('true',) if not st[4] else st[4][0] if len(st[4]) == 1 else ('and', list(st[4]))
    atoms = Atoms()
    inner = ('f', ('tf', elem, 1), 'inner')

    def classify(x):
        tb = classify_ep(ogp, x, modP, h)
        if tb:
            k = 'A' if tb == TABLE_A else 'B' if tb == TABLE_B else 'E' + ''.join(str(int(tb[ab])) for ab in sorted(tb))
            if k not in atoms:
                atoms[k] = x
                atoms.tables[k] = tb
            elif atoms[k] != x:
                k2 = k + '#' + str(len(atoms))
                atoms[k2] = x
                atoms.tables[k2] = tb
            return False
        if x[0] == 'mcall' and x[2] == 'contains' and x[3] == [h] and x[1][0] == 'new':
            atoms.setdefault('C', x)
            return False
        if x[0] == 'is' and x[1] == inner and x[2].endswith('TypeInner::Struct'):
            atoms.setdefault('S', x)
            return False
    E.walk(pred, classify)
    return pred, atoms


def selection_predicate(ogp):
    """(condition under which a struct item is emitted, {'S','A','B','C' -> atom term}) or (None, None)"""
    hits = []
    for q, v in ogp.summaries.items():
        stars = []
        E.walk(v, lambda x: stars.append(x) if x[0] == 'star' and x[1][0] == 'f' and x[1][2] == 'types' and x[1][1][0] == 'param' else None)
        for st in stars:
            ts = E.find_templates(st[3], lambda t: 'pub struct #' in E.tmpl_text(t) and 'derive ( #(' in E.tmpl_text(t))
            if ts:
                hits.append((q, st))
    if not hits:
        return None, None
    hits.sort(key=lambda h: len(ogp.crate.call_graph()[h[0]]))
    q, st = hits[0]
    modP = st[1][1]
    elem = ('elem', st[2], st[1])
    h = ('tf', elem, 0)
    pred, atoms = predicate_and_atoms(ogp, st, modP, elem, h)
    if not atoms.complete():
        return None, None
    return pred, atoms


def closure_discipline(ogp, rep, rule, driver_q, set_term, modP, where):
    """the set `set_term` consulted by the driver is the transitive type closure of all module-scope variables:
    seeded with g.ty of every global (unfiltered, unconditional); inside the recursive closure function every visited handle is
    inserted into that very set unconditionally and the set is passed on unchanged"""
    crate = ogp.crate
    effs = ogp.effects.get(driver_q, [])
    seeds = [e for e in effs if e['kind'] == 'mutate' and e['method'] == 'insert' and e['target'] == set_term]
    ok_seed = any(e['loops'] and e['loops'][0][1] == ('f', modP, 'global_variables') and e['loops'][0][2] == [] and e['cond'] == ('true',) and
                  e['args'] == [('f', ('tf', ('elem', e['loops'][0][0], e['loops'][0][1]), 1), 'ty')] for e in seeds)
    rep.check(ok_seed, rule, 'closure-seed', where,
              f'the set {E.show(set_term, maxdepth=3)} is not seeded unconditionally with the type of every module-scope variable: structs reachable only from some variables '
              f'(push constants, workgroup, later declarations, ...) are treated as not host-shareable', ok_detail='seeded from every module.global_variables element')
    recs = [e for e in effs if e['kind'] == 'reccall' and set_term in e['args']]
    rep.check(bool(recs), rule, 'closure-recursive', where, 'the set is not filled by a recursive type closure', ok_detail='filled by the recursive closure')
    # nothing but the closure fills or alters the set: an `extend` / `insert` / `remove` / `retain` / `clear` on it outside the closure function
    # changes which types count as reachable from a module-scope variable
    closure_fns_ = {e['callee'] for e in recs}
    alien = [e for e in effs if e['kind'] == 'mutate' and e.get('target') == set_term and not (e['method'] == 'insert' and e['in'] in closure_fns_)]
    rep.check(not alien, rule, 'closure-only', where,
              f'the set {E.show(set_term, maxdepth=3)} is also altered outside the type closure ({sorted(set(e_["method"] + " in " + e_["in"].split("::")[-1] for e_ in alien))}): types that are not '
              f'reachable from a module-scope variable are added to it (or reachable ones removed)', ok_detail='altered only by the closure\'s own inserts')
    done = set()
    for e in recs:
        cq = e['callee']
        pos = e['args'].index(set_term)
        if (cq, pos) in done:
            continue
        done.add((cq, pos))
        cf = crate.fns[cq]
        cwhere = f"{crate.relfile(cf['file'])} fn {cf['name']}"
        Sx = ('param', cq, cf['params'][pos]['pat']['name'])
        hidx = [i for i, p in enumerate(cf['params']) if p['ty'].replace(' ', '').lstrip('&').startswith(('Handle<', 'naga::Handle<'))]
        if not hidx:
            rep.bad(rule, f'closure-handle:{cq}', cwhere, 'cannot identify the handle parameter of the closure function', undecided=True)
            continue
        H = ('param', cq, cf['params'][hidx[0]]['pat']['name'])
        own = [x for x in ogp.effects.get(cq, []) if x['in'] == cq]
        ins = [x for x in own if x['kind'] == 'mutate' and x['method'] == 'insert' and x['target'] == Sx]
        rep.check(len(ins) >= 1 and all(x['args'] == [H] and x['cond'] == ('true',) for x in ins), rule, f'closure-insert:{cf["name"]}#{pos}', cwhere,
                  f'not every visited type handle is inserted into the set passed as parameter #{pos} ({[E.show(x["cond"], maxdepth=4) for x in ins]}): types visited under some condition / after an early '
                  f'return are missing from it', ok_detail='every visited handle inserted unconditionally')
        rc = [x for x in own if x['kind'] == 'reccall' and x['callee'] == cq]
        rep.check(bool(rc) and all(x['args'][pos] == Sx for x in rc), rule, f'closure-pass:{cf["name"]}#{pos}', cwhere, 'the set is not passed on unchanged in the recursive calls', ok_detail='set passed on unchanged')
        # nothing returns before the insert into this set
        early = [x for x in own if x['kind'] == 'reccall' and x['callee'] == cq and not mentions_insert_of(x['cond'], Sx) and any(y['kind'] == 'mutate' and y['method'] == 'insert' and y['target'] != Sx for y in own)]


def mentions_insert_of(cond, Sx):
    found = [False]

    def f(x):
        if x[0] == 'mcall' and x[2] == 'insert' and x[1] == Sx:
            found[0] = True
    E.walk(cond, f)
    return found[0]


def only_struct_cond(c, elem):
    txt = E.show(c, maxdepth=6)
    return 'is Struct' in txt and 'any(' not in txt


def contains(term, sub):
    found = [False]

    def f(x):
        if x is sub:
            found[0] = True
            return False
    E.walk(term, f)
    return found[0]


def eq_result(a, h):
    st = a[1]
    e = ('elem', st[2], st[1])
    c = a[2]
    if c[0] != 'eq':
        return False
    res = ('f', ('f', e, 'function'), 'result')
    sides = [c[1], c[2]]
    want1 = ('opt', ('t', ('is_some', res)), ('f', ('unwrap', res), 'ty'))
    want2 = ('opt', ('true',), h)
    return (sides[0] == want1 and sides[1] == want2) or (sides[1] == want1 and sides[0] == want2) or \
        (('f', ('unwrap', res), 'ty') in sides and h in sides)


def eq_argument(b, h):
    st = b[1]
    e = ('elem', st[2], st[1])
    c = b[2]
    if c[0] != 't' or c[1][0] != 'any':
        return False
    inner = c[1]
    ist = inner[1]
    if ist[0] != 'star' or ist[1] != ('f', ('f', e, 'function'), 'arguments') or ist[4]:
        return False
    ae = ('elem', ist[2], ist[1])
    cc = inner[2]
    return cc[0] == 'eq' and {0} and ((cc[1] == ('f', ae, 'ty') and cc[2] == h) or (cc[2] == ('f', ae, 'ty') and cc[1] == h))
