"""C11 - group numbering contract: dense groups, unique slots, or a typed error; never a panic.

Decided clauses (resolved MIR of the group-data function(s) = crate functions constructing DuplicateBinding, all paths):
  R1  every push onto a group's binding list is dominated by the false edge of a scan (`any`) over that whole list (no
      narrowing adapter between the list and the scan) comparing binding_index with the binding being pushed; the true edge
      returns Err(DuplicateBinding { binding }) with that binding index;
  R2  the list is the map entry keyed by the variable's own `group`; the loop runs over all global variables (no filtering
      adapter) and the push is guarded only by "has a binding" and the scan; the pushed element takes name, index, type and
      address space from that same variable;
  R3  the only Ok return carries the ordered map itself and is dominated by the density test keys == 0..len (accepted
      idioms: keys().map(widening cast).eq(0..len), keys().enumerate().all(|(i,k)| i == k)); the other edge returns
      NonConsecutiveBindGroups; NonConsecutiveBindGroups can only be produced after the duplicate scan has completed;
  R4  no panic-capable callee or checked arithmetic in these functions (arena indexing by handles of the same module is
      accepted);
  R5  in the top-level function the group data is computed before every emission function, its Err is returned unchanged,
      and nothing else constructs the two errors.
Not decided: which error naga's validator reports first when validation is enabled (property: "may pre-empt")."""
from engine_mir import Mir, op_local, op_place
from mirutil import feasible_reach, cname, method, guards, chain_of, panic_sites, canon, truthy_only, falsy_only

ERR = 'CreateModuleError'
SCAN_OK = ('deref', 'iter', 'into_iter', 'as_slice', 'as_ref', 'borrow')


def agg_sites(body, suffix):
    out = []
    for b, blk in enumerate(body.blocks):
        for st in blk['stmts']:
            rv = st['rv']
            if rv['rk'] == 'aggregate' and rv['agg'].endswith(suffix):
                out.append((b, st))
    return out


def closure_of(body, local):
    for _, kind, x in body.defs().get(local, []):
        if kind == 'assign' and x['rv']['rk'] == 'aggregate' and x['rv']['agg'].startswith('closure:'):
            return x['rv']['agg'][len('closure:'):], x['rv']['ops']
    return None, None


def run(rep):
    mir = Mir()
    rep.explanation = __doc__
    rep.trusted = ['rustc nightly MIR + Instance resolution', 'handles produced by naga for a module index that module\'s arenas without panicking']
    # the group-data function by role: the function that collects the bindings (has the push) and - itself or through small helper
    # functions, which are inlined at MIR level - constructs DuplicateBinding
    from engine_mir import inlined
    G0 = sorted(n for n, b in mir.bodies.items() if agg_sites(b, f'{ERR}::DuplicateBinding'))
    X = []
    # by role: the function that runs over module.global_variables and from which the construction of DuplicateBinding is reached (directly, or in
    # helpers / methods such as `GroupData::insert`, which are inlined below)
    for cn, cb in sorted(mir.bodies.items()):
        if cb.kind == 'Closure':
            continue
        def iterates_globals(b_):
            return any(cname(t) == 'naga::Arena::<T>::iter' and op_place(t['args'][0]) and 'global_variables' in str(canon(b_, op_place(t['args'][0]))) for _, t in b_.calls())
        loops_globals = iterates_globals(cb)
        if not loops_globals and (mir.reachable_fns([cn]) & set(G0)):
            # the iteration may be handed out by a small helper (`for (global, binding) in context.resources()`): a direct callee that builds the
            # iterator over module.global_variables and does nothing else with the group data (it does not reach DuplicateBinding itself)
            for _, t_ in cb.calls():
                h_ = mir.bodies.get(cname(t_))
                if h_ is not None and h_.kind != 'Closure' and iterates_globals(h_) and not (mir.reachable_fns([cname(t_)]) & set(G0)) and 'Iterator' in h_.locals[0] + ' impl':
                    loops_globals = True
        if loops_globals and (mir.reachable_fns([cn]) & set(G0)):
            X.append(cn)
    if not X:
        for g in G0:
            if any(cname(t) == 'std::vec::Vec::<T, A>::push' for _, t in mir.bodies[g].calls()):
                X.append(g)
            else:
                for cn, cb in mir.bodies.items():
                    if cb.kind != 'Closure' and any(cname(t) == g for _, t in cb.calls()) and any(cname(t) == 'std::vec::Vec::<T, A>::push' for _, t in cb.calls()):
                        X.append(cn)
    helper_parents = set()
    for x in sorted(set(X)):
        frontier = {x}
        for _ in range(3):
            # (the closures a function creates are part of it: a helper called from the body of a `try_for_each(|..| ..)` loop is a helper of x)
            frontier |= {n_ for n_, b_ in mir.bodies.items() if b_.kind == 'Closure' and b_.parent in frontier}
            frontier = {cname(t) for f_ in frontier if f_ in mir.bodies for _, t in mir.bodies[f_].calls() if cname(t) in mir.bodies and mir.bodies[cname(t)].kind != 'Closure'} - {x}
            helper_parents |= frontier
        mir.bodies[x] = inlined(mir, x, depth=3)
    G = sorted(n for n, b in mir.bodies.items() if n in set(X) and agg_sites(b, f'{ERR}::DuplicateBinding'))
    Gn = sorted(n for n, b in mir.bodies.items() if agg_sites(b, f'{ERR}::NonConsecutiveBindGroups') and n not in helper_parents)
    rep.floor('functions constructing DuplicateBinding', len(G), 1)
    rep.floor('functions constructing NonConsecutiveBindGroups', len(Gn), 1)
    rep.analysed = {'group_data_functions': G, 'non_consecutive_sites_in': Gn, 'bodies': len(mir.bodies)}
    n_push = 0
    # field roles of the collected-binding record (which field holds the @binding index / the address space) by provenance, not by name
    from roles import mir_binding_roles
    ROLES, REC = mir_binding_roles(mir)
    if ROLES is None:
        rep.bad('C11.anchor', 'binding-record', '', 'cannot find the record that is built from a variable\'s `.binding` and `.space` (the collected binding)', undecided=True)
        return
    IDX_F, SPACE_F = ROLES['index'], ROLES['space']
    _REC[0], _REC[1] = REC, IDX_F
    REC_SHORT = REC.split('::')[-1].split('<')[0]
    # all pushes of GroupBinding-like elements anywhere in the crate must be guarded (a second, unchecked collector
    # would bypass the contract)
    elem_tys = set()
    for gname in G:
        B = mir.bodies[gname]
        for bb, t in B.calls():
            if cname(t) == 'std::vec::Vec::<T, A>::push' and (t['self_ty'] or '').split('<')[0].endswith(REC_SHORT):
                elem_tys.add(t['self_ty'])          # a push of the collected-binding record (by its type, wherever the list lives)
    for name, B in sorted(mir.bodies.items()):
        def owner(cn_):
            # a closure belongs to the function that creates it (its body is inlined there when it is the body of a for_each / try_for_each loop)
            seen_ = 0
            while cn_ in mir.bodies and mir.bodies[cn_].kind == 'Closure' and mir.bodies[cn_].parent and seen_ < 5:
                cn_ = mir.bodies[cn_].parent
                seen_ += 1
            return cn_
        if name in helper_parents and name not in X and all(owner(cn) in X or owner(cn) in helper_parents for cn, cb in mir.bodies.items() if any(cname(t_) == name for _, t_ in cb.calls())):
            continue        # a helper called only from the group-data function (and its helpers): judged inlined there
        for bb, t in B.calls():
            if cname(t) != 'std::vec::Vec::<T, A>::push' or t['self_ty'] not in elem_tys:
                continue
            n_push += 1
            key = f'push:{name}'
            recv = canon(B, op_place(t['args'][0]))
            gs = guards(B, bb)
            scan = None
            for g in gs:
                for c in g['calls']:
                    if method(cname(c)) in ('any', 'contains', 'all', 'find', 'position') and 'Iterator' in cname(c) or cname(c).endswith('::contains'):
                        scan = (g, c)
                if scan:
                    break
            if not scan:
                rep.bad('C11.R1.scan-before-push', key, B.where(bb),
                        f'a binding is pushed onto a group list ({recv}) without a dominating duplicate scan of that list: two variables '
                        f'sharing a (@group,@binding) pair would be merged into one layout instead of returning DuplicateBinding')
                continue
            g, c = scan
            # the scan ranges over the same list, whole
            chain_calls, roots = recv_chain(B, op_local(c['args'][0]), recv)
            narrowing = [cname(x) for x in chain_calls if method(cname(x)) not in SCAN_OK]
            same_list = any(r[0] == recv[0] and r[1].replace('&', '').replace('*', '') == recv[1].replace('&', '').replace('*', '') for r in roots)
            rep.check(same_list, 'C11.R1.scan-same-list', key, B.where(bb),
                      f'the duplicate scan does not range over the list that is pushed to ({recv}); scanned roots {sorted(roots)[:4]}',
                      ok_detail=f'scan over {recv}')
            rep.check(not narrowing, 'C11.R1.scan-whole-list', key, B.where(bb),
                      f'the duplicate scan is narrowed by {narrowing} between the list and `{method(cname(c))}`: only part of the group is '
                      f'compared, so a repeated binding can slip through', ok_detail='no adapter between the list and the scan')
            pol = falsy_only(g) if method(cname(c)) in ('any', 'contains') else True
            rep.check(pol, 'C11.R1.scan-polarity', key, B.where(bb), 'the push is not on the "no duplicate" edge of the scan', ok_detail='push on the false edge of the scan')
            # closure compares binding_index with the binding being pushed
            cl, ups = closure_of(B, op_local(c['args'][1])) if len(c['args']) > 1 and op_local(c['args'][1]) is not None else (None, None)
            cmp_ok = False
            if cl and cl in mir.bodies:
                CB = mir.bodies[cl]
                up_roots = [through_record(B, canon(B, op_place(o))) for o in (ups or []) if op_place(o)]
                for blk in CB.blocks:
                    for st in blk['stmts']:
                        rv = st['rv']
                        if rv['rk'] == 'binop' and rv['op'] == 'Eq':
                            rs = [canon(CB, op_place(o)) for o in rv['ops'] if op_place(o)]
                            elem_side = any(r[0] == 2 and r[1].replace('&', '').replace('*', '').endswith('.' + IDX_F) for r in rs)
                            cap = [r for r in rs if r[0] == 1]
                            # the captured value is the binding index of the variable being added: either `<captured ResourceBinding>.binding`, or a
                            # captured integer that the creator took from `.binding`
                            cap_ok = any(r[1].endswith('.binding') for r in cap) or (bool(cap) and any(u[1].replace('&', '').replace('*', '').endswith('.binding') for u in up_roots))
                            if len(rs) == 2 and elem_side and cap_ok:
                                cmp_ok = True
                # the comparison is the whole predicate: a further conjunct (`&& g.name == ..`) narrows the scan, a disjunct or a call changes it
                if any(blk_['term']['k'] in ('switch', 'call') for blk_ in CB.blocks):
                    cmp_ok = False
            rep.check(cmp_ok, 'C11.R1.scan-compares-index', key, B.where(bb),
                      'the scan closure is not `element.binding_index == <captured binding>.binding`', ok_detail='element.binding_index == binding.binding')
            # true edge returns DuplicateBinding{binding}
            sw = B.blocks[g['block']]['term']
            true_t = sw['otherwise']
            tr = B.reachable_from([true_t], avoid={g['block']}) - B.reachable_from([x[1] for x in sw['targets']], avoid={g['block']})
            dups = [(b, st) for b, st in agg_sites(B, f'{ERR}::DuplicateBinding') if b in tr]
            okd = False
            for b, st in dups:
                r = through_record(B, canon(B, op_place(st['rv']['ops'][0]))) if st['rv']['ops'] and op_place(st['rv']['ops'][0]) else None
                pushed = pushed_binding_root(B, t)
                if r and r[1].endswith('.binding') and (pushed is None or r == pushed):
                    okd = True
            rep.check(okd, 'C11.R1.duplicate-error', key, B.where(g['block']),
                      'the "duplicate found" edge does not return DuplicateBinding { binding } with the index of the binding being added',
                      ok_detail='true edge returns DuplicateBinding { binding: binding.binding }')
            # R2: guards of the push: only iterator-next, has-binding, scan
            extra = []
            for g2 in gs:
                if g2 is g:
                    continue
                names = [method(cname(x)) for x in g2['calls']]
                is_binding_guard = any('.binding' in p[1] and p[1].count('.') == 1 for p in g2['places'] if p) or any(p and p[1].endswith('.binding') for p in g2['places'])
                if 'next' in names and not is_binding_guard:
                    continue
                from mirutil import correlated_origin
                if correlated_origin(B, g2['block']) is not None and set(names) <= {'branch'}:
                    continue   # the `?` on a helper's Result that merely propagates the outcome of the scan
                if any('.binding' in p[1] and p[1].count('.') == 1 for p in g2['places'] if p) or any(p and p[1].endswith('.binding') for p in g2['places']):
                    # "has a binding": a variable without one is skipped - the loop must go on with the next variable (`continue`, not `break`)
                    loop_sw = [g3['block'] for g3 in gs if g3 is not g2 and 'next' in [method(cname(x)) for x in g3['calls']] and
                               not any(p_ and '.binding' in p_[1] for p_ in g3['places'])]
                    t2 = B.blocks[g2['block']]['term']
                    skip_edges = [tgt for v, tgt in [(v, tgt) for v, tgt in t2['targets']] + [(None, t2['otherwise'])]
                                  if v not in g2['values'] and B.blocks[tgt]['term']['k'] != 'unreachable']
                    stops = [tgt for tgt in skip_edges if loop_sw and not any(l_ in B.reachable_from([tgt]) for l_ in loop_sw)]
                    rep.check(not stops, 'C11.R2.all-globals', f'skip-continues:{name}', B.where(g2['block']),
                              'a variable without a resource binding ends the collection loop (`break`) instead of being skipped: every resource declared after it is silently left out',
                              ok_detail='variables without a binding are skipped, the loop goes on')
                    continue
                # drop flags
                if not g2['calls'] and all(p and p[1] == '' for p in g2['places']) and is_drop_flag(B, g2):
                    continue
                if other_edges_only_fail(B, g2, bb):
                    continue   # a rejecting check (`if !supported(ty) { return Err(..) }`): no binding is left out of a module that is accepted
                extra.append((g2['block'], names, g2['places'][:2]))
            rep.check(not extra, 'C11.R2.every-binding-collected', key, B.where(bb),
                      f'the push is additionally guarded by {extra[:3]}: some declared bindings may be left out of their group',
                      ok_detail='push guarded only by loop, "has a binding" and the duplicate scan')
            # list = entry keyed by group
            sl, calls, stmts = B.backward_slice([recv[0]])
            entry = [x for _, x in calls if cname(x).startswith('std::collections::BTreeMap') and method(cname(x)) in ('entry', 'get_mut')]
            kr = through_newtype(B, canon(B, op_place(entry[0]['args'][1]))) if entry and op_place(entry[0]['args'][1]) else None
            rep.check(bool(entry) and kr is not None and kr[1].endswith('.group'), 'C11.R2.keyed-by-group', key, B.where(bb),
                      f'the list pushed to is not the ordered-map entry keyed by the variable\'s group (key root {kr})', ok_detail=f'map entry keyed by {kr}')
            # element fields from the same variable
            el = op_local(t['args'][1])
            sl2, calls2, stmts2 = B.backward_slice([el], through_calls=False)
            aggs = [st for _, st in stmts2 if st['rv']['rk'] == 'aggregate' and st['rv']['agg'] == REC]
            if aggs:
                a = aggs[0]['rv']
                fields = dict(zip(a['fields'], a['ops']))
                want = {IDX_F: '.binding'}
                if isinstance(SPACE_F, str):
                    want[SPACE_F] = '.space'
                else:
                    # the record keeps a reference to the variable itself: that reference must be the variable whose ResourceBinding gives the index
                    gf = SPACE_F[0]
                    rg = canon(B, op_place(fields[gf])) if gf in fields and op_place(fields[gf]) else None
                    ri = canon(B, op_place(fields[IDX_F])) if IDX_F in fields and op_place(fields[IDX_F]) else None
                    same = rg is not None and ri is not None and rg[0] == ri[0] and ri[1].replace('&', '').replace('*', '').startswith(rg[1].replace('&', '').replace('*', ''))
                    rep.check(same, 'C11.R2.element-fields', f'{key}:address_space', B.where(bb),
                              f'field {gf} of the collected binding ({rg}) is not the variable whose binding gives the index ({ri})', ok_detail=f'{gf} <- the variable itself ({rg})')
                for f, suffix in want.items():
                    r = canon(B, op_place(fields[f])) if f in fields and op_place(fields[f]) else None
                    rep.check(r is not None and r[1].endswith(suffix), 'C11.R2.element-fields', f'{key}:{"binding_index" if f == IDX_F else "address_space"}', B.where(bb),
                              f'field {f} of the collected binding comes from {r}, expected the variable\'s `{suffix}`', ok_detail=f'{f} <- {r}')
                if kr and IDX_F in fields and op_place(fields[IDX_F]):
                    r = canon(B, op_place(fields[IDX_F]))
                    rep.check(r[0] == kr[0] and r[1].rsplit('.', 1)[0] == kr[1].rsplit('.', 1)[0], 'C11.R2.element-fields', f'{key}:same-resource-binding', B.where(bb),
                              f'group key ({kr}) and binding index ({r}) do not come from the same ResourceBinding', ok_detail='group and index from the same ResourceBinding')
    rep.floor('pushes onto group binding lists', n_push, 1)
    # no other writer: the collected lists and the group map are only ever grown by the guarded push / the entry of a new group.  Anything that
    # removes, replaces or adds elements some other way (truncate, retain, dedup, pop, clear, drain, extend, insert, map.remove / retain / pop_*),
    # anywhere in the crate, changes which bindings and groups the module ends up with after the checks have passed
    VEC_BAD = {'truncate', 'pop', 'remove', 'swap_remove', 'clear', 'retain', 'retain_mut', 'dedup', 'dedup_by', 'dedup_by_key', 'drain', 'split_off', 'resize', 'resize_with',
               'extract_if', 'set_len', 'splice', 'append', 'extend', 'extend_from_slice', 'extend_from_within', 'insert', 'fill', 'fill_with', 'split_first_mut', 'take'}
    MAP_BAD = {'remove', 'remove_entry', 'retain', 'clear', 'pop_first', 'pop_last', 'extract_if', 'split_off', 'append', 'extend', 'first_entry', 'last_entry', 'into_values',
               'into_keys'}
    data_tys = set()
    for gname in G:
        for _, t in mir.bodies[gname].calls():
            if cname(t).startswith('std::collections::BTreeMap') and method(cname(t)) in ('entry', 'insert', 'get_mut'):
                gen = (t.get('generics') or '').strip('[]').split(', ')
                if len(gen) > 1:
                    data_tys.add(gen[1].split('<')[0])
    n_w = 0
    for name, B in sorted(mir.bodies.items()):
        for bb, t in B.calls():
            cn, gen = cname(t), (t.get('generics') or '') + ' ' + (t.get('self_ty') or '')
            m_ = method(cn)
            on_list = REC_SHORT in gen and ('std::vec::Vec' in cn or 'core::slice' in cn) and m_ in VEC_BAD
            on_map = any(d and d in gen for d in data_tys) and ('BTreeMap' in cn or 'btree_map' in cn) and m_ in MAP_BAD
            if on_list or on_map:
                n_w += 1
                rep.bad('C11.R2.no-other-writer', f'writer:{name}:{m_}', B.where(bb),
                        f'`{m_}` on {"the binding list of a group" if on_list else "the group map"} in {name}: the collected bindings / groups are altered outside the guarded push, so a module can '
                        f'come out with bindings or groups dropped, merged or added without the duplicate scan')
    if not n_w:
        rep.ok('C11.R2.no-other-writer', 'writers', '', f'no removing / replacing / unguarded adding call on Vec<{REC_SHORT}> or the group map ({sorted(data_tys)}) anywhere in the crate')
    # iteration source: all global variables, no adapter
    for gname in G:
        B = mir.bodies[gname]
        it = [(bb, t) for bb, t in B.calls() if method(cname(t)) == 'next' and 'GlobalVariable' in t['self_ty']]
        plain = 'std::iter::Map<std::iter::Enumerate<std::slice::Iter<'
        ok = bool(it) and all(t['self_ty'].startswith(plain) or
                              (t['self_ty'].startswith('std::iter::FilterMap<' + plain) and keeps_exactly_bound_variables(mir, B)) for _, t in it)
        src = [(bb, t) for bb, t in B.calls() if cname(t) == 'naga::Arena::<T>::iter' and 'global_variables' in str(canon(B, op_place(t['args'][0])))]
        rep.check(ok and bool(src), 'C11.R2.all-globals', f'loop-source:{gname}', B.where(),
                  f'the collection loop does not run over module.global_variables.iter() unadapted (iterator type {[t["self_ty"][:70] for _, t in it]})',
                  ok_detail='loop over module.global_variables.iter(), no adapter')
    # ---- R3 ----------------------------------------------------------------------------------------------------------
    for gname in G:
        B = mir.bodies[gname]
        oks = [(b_, st_) for b_, st_ in agg_sites(B, 'std::result::Result::Ok') if st_['lhs']['l'] == 0]   # returns of this function (not of inlined helpers)
        rep.check(len(oks) == 1, 'C11.R3.single-ok', f'single-ok:{gname}', B.where(), f'{len(oks)} Ok returns', ok_detail='one Ok return')
        for b, st in oks:
            r = canon(B, op_place(st['rv']['ops'][0])) if op_place(st['rv']['ops'][0]) else None
            is_map = r is not None and B.locals[r[0]].startswith('std::collections::BTreeMap<') and ordered_u32_key(mir, map_key_type(B.locals[r[0]]))
            if r is not None and not is_map:
                # the ordered map handed out as a list of records in key order: `map.into_iter().map(|(k, v)| Record { .. }).collect()` - nothing
                # between the map and the collect re-orders, filters or truncates; the checks below then judge the map it was made from
                conv = ordered_records_of(mir, B, r[0])
                if conv is not None:
                    CARRIER.update(conv)
                    r = (conv['map_local'], '')
                    is_map = True
            rep.check(is_map and r[1] == '', 'C11.R3.ok-is-ordered-map', f'ok-map:{gname}', B.where(b),
                      f'Ok carries {r} of type {B.locals[r[0]][:60] if r else "?"}; expected the ordered group map itself', ok_detail='Ok(groups) with groups: BTreeMap<u32, _>')
            dens = None
            for g in guards(B, b):
                names = [method(cname(c)) for c in g['calls']]
                sl, calls, stmts = B.backward_slice([op_local(a) for c in g['calls'][:1] for a in c['args'] if op_local(a) is not None])
                all_names = names + [method(cname(c)) for _, c in calls]
                rooted = any(cname(c).startswith('std::collections::BTreeMap') and method(cname(c)) == 'keys' and r and canon(B, op_place(c['args'][0]))[0] == r[0]
                             for _, c in calls)
                if 'eq' in names and rooted and 'len' in all_names:
                    rng = [st2 for _, st2 in stmts if st2['rv']['rk'] == 'aggregate' and 'ops::Range::Range' in st2['rv']['agg']]
                    start0 = any(st2['rv']['ops'][0].get('const', '').replace('const ', '').split('_')[0] == '0' for st2 in rng)
                    len_same = any(cname(c).startswith('std::collections::BTreeMap') and method(cname(c)) == 'len' and canon(B, op_place(c['args'][0]))[0] == r[0] for _, c in calls)
                    if not len_same:
                        # the length of the (not yet advanced) keys() iterator of that same map: ExactSizeIterator::len
                        for _, c in calls:
                            if cname(c) == 'std::iter::ExactSizeIterator::len' and op_local(c['args'][0]) is not None:
                                _, rc, _ = B.backward_slice([op_local(c['args'][0])])
                                rn = [(method(cname(x)), x) for _, x in rc]
                                if rn and all(m_ in ('keys', 'new', 'default', 'copied', 'cloned') for m_, _ in rn) and \
                                        any(m_ == 'keys' and cname(x).startswith('std::collections::BTreeMap') and canon(B, op_place(x['args'][0]))[0] == r[0] for m_, x in rn):
                                    len_same = True
                    casts = closure_casts(mir, B, calls)
                    if start0 and len_same and casts and truthy_only(g):
                        dens = ('keys().map(cast).eq(0..len)', g)
                elif 'all' in names and rooted and 'enumerate' in all_names:
                    if closure_eq_index(mir, B, g['calls']) and truthy_only(g):
                        dens = ('keys().enumerate().all(|(i,k)| i == k)', g)
                elif 'all' in names and rooted and 'zip' in all_names:
                    # keys().zip(0u32..).all(|(k, i)| *k == i): the i-th key in order is i (the counter is a RangeFrom starting at the constant 0)
                    rf = [st2 for _, st2 in stmts if st2['rv']['rk'] == 'aggregate' and 'ops::RangeFrom' in st2['rv']['agg']]
                    start0 = bool(rf) and all(st2['rv']['ops'][0].get('const', '').replace('const ', '').split('_')[0] == '0' for st2 in rf)
                    if start0 and closure_eq_index(mir, B, g['calls']) and truthy_only(g):
                        dens = ('keys().zip(0..).all(|(k,i)| k == i)', g)
            rep.check(dens is not None, 'C11.R3.density-test', f'density:{gname}', B.where(b),
                      'the Ok return is not dominated by a recognised density test of the group keys (keys().map(widening cast).eq(0..len), '
                      'keys().enumerate().all(|(i,k)| i == k) or keys().zip(0..).all(|(k,i)| k == i)): gaps or a start other than 0 could be accepted, or the test can overflow/panic',
                      ok_detail=f'dominated by {dens[0] if dens else ""}')
            if dens:
                g = dens[1]
                sw = B.blocks[g['block']]['term']
                false_r = B.reachable_from([x[1] for x in sw['targets'] if x[0] == 0], avoid={g['block']})
                nc = [bb for bb, _ in agg_sites(B, f'{ERR}::NonConsecutiveBindGroups') if bb in false_r]
                rep.check(bool(nc), 'C11.R3.non-consecutive-error', f'non-consecutive:{gname}', B.where(g['block']),
                          'the failing edge of the density test does not return NonConsecutiveBindGroups', ok_detail='false edge returns NonConsecutiveBindGroups')
        # NonConsecutive only after the scan loop is complete
        pushes = [bb for bb, t in B.calls() if cname(t) == 'std::vec::Vec::<T, A>::push' and t['self_ty'] in elem_tys]
        for bb, _ in agg_sites(B, f'{ERR}::NonConsecutiveBindGroups'):
            r = B.reachable_from([bb])
            rep.check(not any(p in r for p in pushes), 'C11.R3.duplicate-first', f'duplicate-first:{gname}', B.where(bb),
                      'NonConsecutiveBindGroups can be returned before all variables were scanned for duplicates', ok_detail='only after the scan loop')
    # front-end helpers (a `check_module` that validates and then returns the group data ..) are inlined into the function that joins the front
    # end with the emission functions: R5 is judged there
    from engine_mir import inline_front_end
    _top, _helpers = inline_front_end(mir, extra=set(G) | set(helper_parents))
    tops = sorted(n for n, b in mir.bodies.items() if b.kind != 'Closure' and n not in G and n not in _helpers and any(cname(t) in G for _, t in b.calls()))
    for n in Gn:
        if n in G:
            continue
        # constructed elsewhere: every such construction must come after a completed duplicate scan
        B = mir.bodies[n]
        for bb, _ in agg_sites(B, f'{ERR}::NonConsecutiveBindGroups'):
            after = False
            for g in guards(B, bb):
                pass
            gcalls = [b for b, t in B.calls() if cname(t) in G]
            after = any(B.dominates(b, bb) for b in gcalls)
            rep.check(after, 'C11.R3.duplicate-first', f'duplicate-first:{n}', B.where(bb),
                      f'{n} returns NonConsecutiveBindGroups without the duplicate scan ({G}) having run first: a module with a repeated pair and a '
                      f'gap reports the wrong error', ok_detail='after the duplicate scan')
    # ---- R4 ----------------------------------------------------------------------------------------------------------
    members = set()
    for gname in set(G) | set(Gn):
        members |= {n for n in mir.bodies if mir.bodies[n].parent == gname or n == gname or (mir.bodies[n].kind == 'Closure' and mir.bodies[n].parent in helper_parents)}
    for n in sorted(members):
        B = mir.bodies[n]
        sites = panic_sites(B, allow_arena=True)
        for bb, why, what in sites:
            rep.bad('C11.R4.no-panic', f'panic:{n}:{what}', B.where(bb), f'{what} in the group-numbering code: {why}; the contract is a typed error, never a panic')
        if not sites:
            rep.ok('C11.R4.no-panic', f'panic-free:{n}', B.where(), f'{sum(1 for _ in B.calls())} call sites, none panic-capable (arena indexing accepted)')
    # ---- R5 ----------------------------------------------------------------------------------------------------------
    for tn in tops:
        T = mir.bodies[tn]
        gcalls = [(bb, t) for bb, t in T.calls() if cname(t) in G]
        rep.check(len(gcalls) == 1, 'C11.R5.called-once', f'group-data-call:{tn}', T.where(), f'{len(gcalls)} calls of {G} in {tn}', ok_detail='called once')
        if len(gcalls) != 1:
            continue
        gb, gt = gcalls[0]
        sw = None
        for b, blk in enumerate(T.blocks):
            t = blk['term']
            if t['k'] == 'switch' and op_local(t['discr']) is not None and any(c is gt for c in chain_of(T, op_local(t['discr']))[1]):
                sw = b
                break
        if sw is None:
            rep.bad('C11.R5.error-returned', f'group-data-branch:{tn}', T.where(gb), 'no branch on the result of the group-data function', undecided=True)
            continue
        st = T.blocks[sw]['term']
        succ = [tgt for v, tgt in st['targets'] if v == 0][0]
        errt = [tgt for v, tgt in st['targets'] if v == 1][0]
        # feasibility: the group-data call may sit in an inlined front-end helper (`ModuleAnalysis::new(&module)?`): a path through the helper's Err
        # return cannot leave the caller's `?` on the Ok edge
        er = feasible_reach(T, [errt], avoid={sw}) - {b for b in range(T.n) if succ in T.dominators()[b]}
        other = [cname(t) for b, t in T.calls() if b in er and not cname(t).startswith('<std::result::Result<T, F> as std::ops::FromResidual') and
                 not cname(t).endswith('as std::ops::Try>::branch')]
        aggs = [st2['rv']['agg'] for b in er for st2 in T.blocks[b]['stmts'] if st2['rv']['rk'] == 'aggregate' and ERR in st2['rv']['agg']]
        rep.check(not other and not aggs, 'C11.R5.error-returned', f'group-data-error:{tn}', T.where(errt),
                  f'the error of the group-data function is not returned unchanged ({other[:3]} {aggs[:3]})', ok_detail='Err returned through `?` unchanged')
        emitters = [(b, t) for b, t in T.calls() if cname(t) in mir.bodies and mir.bodies[cname(t)].kind != 'Closure' and cname(t) not in G
                    and 'TokenStream' in mir.bodies[cname(t)].locals[0]]
        unaccepted = feasible_reach(T, [0], avoid={succ})       # what can run without the success edge having been taken
        late = [cname(t) for b, t in emitters if b in unaccepted]
        rep.check(not late, 'C11.R5.before-emission', f'before-emission:{tn}', T.where(gb),
                  f'emission functions {late[:4]} run before the group numbering was accepted', ok_detail=f'{len(emitters)} emission calls all after the success edge')
    # who may construct
    for n, b in sorted(mir.bodies.items()):
        for bb, st in agg_sites(b, f'{ERR}::DuplicateBinding'):
            pass
    rep.info['pushes'] = n_push
    # "on success every declared binding appears exactly once, in its own group, with its own index": the emission side (fields, entries and
    # layout entries range over the collected list unfiltered and print the collected index; one item set per group key) is C04's
    from wrappers import check_one_module
    check_one_module(rep, 'C11.one-module')
    from common import include
    include(rep, 'c04', ('C04.R1-fields.same-list', 'C04.R2-entries.same-list', 'C04.R2.entry-binding', 'C04.R3', 'C04.R4.names', 'C04.R4.set-index', 'C04.groups-ordered-map', 'C04.R7'), 'emitted-as-collected')


CARRIER = {}     # filled by run(): how the checked groups are handed out ({'kind': 'records', 'group_field': .., 'bindings_field': ..} for a list of records)


def ordered_records_of(mir, B, local):
    """`local` (returned in Ok) is a Vec of records collected from the ordered group map in key order: its backward slice consists of
    BTreeMap::into_iter / iter on a BTreeMap<u32, _> local, one `map` whose closure builds one record aggregate from the (key, value) pair, and
    `collect` - no other adapter.  Returns the map local and which record field holds the key / the value, or None"""
    if not B.locals[local].startswith('std::vec::Vec<'):
        return None
    sl, calls, stmts = B.backward_slice([local], through_calls=True)
    names = [cname(c) for _, c in calls]
    allowed = ('into_iter', 'iter', 'map', 'collect', 'new', 'default', 'entry', 'or_insert', 'or_default', 'or_insert_with', 'push', 'from_iter')
    src = [c for _, c in calls if ('BTreeMap' in cname(c) or 'btree_map' in cname(c)) and method(cname(c)) in ('into_iter', 'iter')]
    maps = [c for _, c in calls if method(cname(c)) == 'map' and 'Iterator' in cname(c)]
    if len(src) != 1 or len(maps) != 1 or not any(method(n) == 'collect' for n in names):
        return None
    adapters = [n for n in names if 'iter::' in n and method(n) not in ('map', 'collect', 'into_iter', 'next', 'from_iter')]
    if adapters:
        return None
    mp = op_place(src[0]['args'][0])
    mroot = canon(B, mp) if mp else None
    mty_ = B.locals[mroot[0]].replace('&', '').replace('mut ', '') if mroot is not None else ''
    if mroot is None or not (mty_.startswith('std::collections::BTreeMap<') and ordered_u32_key(mir, map_key_type(mty_))):
        return None
    cl, _ = closure_of(B, op_local(maps[0]['args'][1])) if len(maps[0]['args']) > 1 and op_local(maps[0]['args'][1]) is not None else (None, None)
    CB = mir.bodies.get(cl) if cl else None
    if CB is None:
        return None
    aggs = [st for blk in CB.blocks for st in blk['stmts'] if st['rv']['rk'] == 'aggregate' and st['lhs']['l'] == 0]
    if len(aggs) != 1 or any(blk['term']['k'] in ('switch',) for blk in CB.blocks):
        return None
    a = aggs[0]['rv']
    key_f = val_f = None
    for fname, o in zip(a.get('fields', []), a['ops']):
        pl = op_place(o)
        if not pl:
            continue
        rr = canon(CB, pl)
        # the closure's argument is the (key, value) pair: local 2
        if rr[0] == 2 and rr[1].replace('&', '').replace('*', '') in ('.0',):
            key_f = fname
        if rr[0] == 2 and rr[1].replace('&', '').replace('*', '') in ('.1',):
            val_f = fname
    if key_f is None or val_f is None:
        return None
    return {'kind': 'records', 'record': a['agg'], 'group_field': key_f, 'bindings_field': val_f, 'map_local': mroot[0]}


def other_edges_only_fail(B, g, bb):
    """every edge of the guard that does not lead to block bb can only leave the function with an Err: neither an Ok return of this
    function nor bb itself (through the loop) is reachable from it, and it does return (no divergence into a panic is accepted here)"""
    t = B.blocks[g['block']]['term']
    edges = [(v, tgt) for v, tgt in t['targets']] + [(None, t['otherwise'])]
    others = [tgt for v, tgt in edges if v not in g['values'] and B.blocks[tgt]['term']['k'] != 'unreachable']
    if not others:
        return False
    ok_blocks = {b_ for b_, st_ in agg_sites(B, 'std::result::Result::Ok') if st_['lhs']['l'] == 0}
    err_blocks = {b_ for b_, st_ in agg_sites(B, 'std::result::Result::Err') if st_['lhs']['l'] == 0}
    for tgt in others:
        r = B.reachable_from([tgt], avoid={g['block']})
        if bb in r or (r & ok_blocks) or not (r & err_blocks):
            return False
        if any(B.blocks[b_]['term']['k'] == 'switch' and g['block'] in [x[1] for x in B.blocks[b_]['term']['targets']] + [B.blocks[b_]['term']['otherwise']] for b_ in r):
            return False   # flows back to the guard (a loop): the variable is skipped, not rejected
    return True


def keeps_exactly_bound_variables(mir, B):
    """the `filter_map` between module.global_variables.iter() and the loop drops exactly the variables without a resource binding: its closure
    branches only on the presence of `<variable>.binding` (the same selection as `if let Some(binding) = &global.binding` inside the loop) and
    calls nothing but Option plumbing"""
    ok_any = False
    for bb, t in B.calls():
        if method(cname(t)) != 'filter_map' or 'GlobalVariable' not in (t.get('self_ty') or '') + (t.get('generics') or ''):
            continue
        cl, ups = closure_of(B, op_local(t['args'][1])) if len(t['args']) > 1 and op_local(t['args'][1]) is not None else (None, None)
        CB = mir.bodies.get(cl) if cl else None
        if CB is None:
            return False
        for b, blk in enumerate(CB.blocks):
            tt = blk['term']
            if tt['k'] == 'switch':
                neg, calls, places = chain_of(CB, op_local(tt['discr'])) if op_local(tt['discr']) is not None else (False, [], [])
                if not any(p_ and '.binding' in p_[1] for p_ in places):
                    return False
            if tt['k'] == 'call':
                c = cname(tt)
                if not (c.startswith(('std::option::Option', '<std::option::Option')) or c.endswith(('::branch', '::from_residual', '::as_ref'))):
                    return False
        ok_any = True
    return ok_any


def recv_chain(B, local, stop_root):
    """calls between a scan's receiver and the list it ranges over (stops at the first place rooted like stop_root)"""
    calls, roots = [], set()
    cur, seen = local, set()
    norm = lambda r: (r[0], r[1].replace('&', '').replace('*', ''))
    while cur is not None and cur not in seen:
        seen.add(cur)
        ds = [d for d in B.defs().get(cur, []) if d[1] == 'call' or not d[2]['lhs']['p']]
        if len(ds) != 1:
            break
        b, kind, x = ds[0]
        if kind == 'call':
            calls.append(x)
            p = op_place(x['args'][0]) if x['args'] else None
        else:
            ps = B.rvalue_places(x['rv'])
            p = ps[0] if ps else None
        if p is None:
            break
        r = canon(B, p)
        roots.add(r)
        if norm(r) == norm(stop_root):
            break
        cur = p['l']
    return calls, roots


_REC = [None, None]     # (aggregate name, index field) of the collected-binding record, set by run()


def through_record(B, r):
    """if r is `<collected-binding record>.<index field>` (the record that is about to be pushed, e.g. handed to a helper such as
    `GroupData::insert(binding)`), return the root its index field was built from; otherwise r itself"""
    if r is None or _REC[0] is None:
        return r
    tail = r[1].replace('&', '').replace('*', '')
    if not tail.endswith('.' + _REC[1]):
        return r
    l = r[0]
    for _ in range(8):
        defs = [d for d in B.defs().get(l, []) if d[1] == 'assign' and not d[2]['lhs']['p']]
        if len(defs) != 1:
            return r
        rv = defs[0][2]['rv']
        if rv['rk'] == 'aggregate' and rv['agg'] == _REC[0]:
            o = dict(zip(rv['fields'], rv['ops'])).get(_REC[1])
            return canon(B, op_place(o)) if o is not None and op_place(o) else r
        ps = B.rvalue_places(rv)
        if rv['rk'] in ('use', 'ref') and ps:
            l = ps[0]['l']
            continue
        return r
    return r


def pushed_binding_root(B, push_t):
    el = op_local(push_t['args'][1])
    sl, calls, stmts = B.backward_slice([el], through_calls=False)
    for _, st in stmts:
        rv = st['rv']
        if rv['rk'] == 'aggregate' and rv['agg'] == _REC[0]:
            fields = dict(zip(rv['fields'], rv['ops']))
            if _REC[1] in fields and op_place(fields[_REC[1]]):
                return canon(B, op_place(fields[_REC[1]]))
    return None


def is_drop_flag(B, g):
    t = B.blocks[g['block']]['term']
    l = op_local(t['discr'])
    return l is not None and B.locals[l] == 'bool' and all(
        kind == 'assign' and x['rv']['rk'] == 'use' and 'const' in x['rv']['ops'][0] for _, kind, x in B.defs().get(l, []))


def closure_casts(mir, B, calls):
    """the closure handed to `map` on the keys iterator is a non-narrowing integer cast of the key"""
    for _, c in calls:
        if method(cname(c)) == 'map' and len(c['args']) > 1:
            cl, _ = closure_of(B, op_local(c['args'][1]))
            if cl and cl in mir.bodies:
                CB = mir.bodies[cl]
                for blk in CB.blocks:
                    for st in blk['stmts']:
                        rv = st['rv']
                        if rv['rk'] == 'cast' and rv['ty'] in ('usize', 'u64', 'u128', 'i64', 'i128', 'u32'):
                            return True
                return False
    return True  # no map at all: keys compared directly


def closure_eq_index(mir, B, calls):
    for c in calls:
        if method(cname(c)) == 'all' and len(c['args']) > 1:
            cl, _ = closure_of(B, op_local(c['args'][1]))
            if cl and cl in mir.bodies:
                CB = mir.bodies[cl]
                for blk in CB.blocks:
                    for st in blk['stmts']:
                        if st['rv']['rk'] == 'binop' and st['rv']['op'] == 'Eq':
                            return True
    return False


def ordered_u32_key(mir, ty):
    """the key type of the group map orders like the group number: u32 itself, or a crate tuple struct over one u32 whose Ord / PartialOrd /
    PartialEq are derived (the derive's expansion is what rustc compiled) - e.g. `struct GroupIndex(pub u32)`"""
    ty = ty.strip()
    if ty == 'u32':
        return True
    need = {'std::cmp::Ord': 'cmp', 'std::cmp::PartialOrd': 'partial_cmp', 'std::cmp::PartialEq': 'eq'}
    for tr, m_ in need.items():
        b = mir.bodies.get(f'<{ty} as {tr}>::{m_}')
        if b is None or not b.j['span'].get('exp') or b.j['span'].get('mac') != tr:
            return False
    # a single field, of type u32: every construction of the type is an aggregate with one u32 operand
    sites = 0
    for B in mir.bodies.values():
        for blk in B.blocks:
            for st in blk['stmts']:
                rv = st['rv']
                if rv['rk'] == 'aggregate' and rv['agg'] in (f'adt:{ty}', f'adt:{ty}::{ty.split("::")[-1]}'):
                    ops = rv.get('ops', [])
                    if len(ops) != 1 or op_local(ops[0]) is None and 'const' not in ops[0]:
                        return False
                    if op_local(ops[0]) is not None and B.locals[op_local(ops[0])] != 'u32':
                        return False
                    sites += 1
    return sites > 0


def through_newtype(B, root):
    """a root that is a freshly built single-field record (`GroupIndex(binding.group)`): the root of what was wrapped"""
    for _ in range(3):
        if root is None or root[1] not in ('', '&', '*'):
            return root
        ds = [d for d in B.defs().get(root[0], []) if d[1] == 'assign' and not d[2]['lhs']['p']]
        if len(ds) != 1 or ds[0][2]['rv']['rk'] != 'aggregate' or len(ds[0][2]['rv'].get('ops', [])) != 1 or ds[0][2]['rv']['agg'].startswith(('closure:', 'tuple', 'array')):
            return root
        o = ds[0][2]['rv']['ops'][0]
        if not op_place(o):
            return root
        root = canon(B, op_place(o))
    return root


def map_key_type(ty):
    """K of `std::collections::BTreeMap<K, V>` (top-level comma)"""
    inner = ty[ty.index('<') + 1:]
    depth = 0
    for i, ch in enumerate(inner):
        if ch in '<(':
            depth += 1
        elif ch in '>)':
            depth -= 1
        elif ch == ',' and depth == 0:
            return inner[:i].strip()
    return inner.rstrip('>').strip()
