"""C03 - binding visibility equals exactly the stages that statically use it.

Given naga's IR invariant (every call is a Statement::Call in some block of the body, or an Expression::CallResult; every
use of a global is an Expression::GlobalVariable in the function's expression arena) the reachability computation is exact
iff the following structural conditions hold; they are decided on the abstract effect summary (Engine A) of the walker
functions, anchored by role (the function that matches on naga::Statement / on naga::Expression):
  1 traversal exhaustiveness: every (variant, field) of naga::Statement whose type holds a Block or a Handle<Function>
    (enumerated from the pinned naga source) is followed by a recursive call, with no condition other than the variant test
    and the visited-set guard; statements are iterated from the whole block; Expression::CallResult is followed - or every
    Statement::Call is, with or without a result (each CallResult is the result of exactly one call statement of the same
    function: validated IR invariant) - and Expression::GlobalVariable updates the stage map;
  2 stage propagation: recursive calls pass module, map and stage parameters unchanged; the map update is
    entry(name of that global).or_insert(NONE) joined with the stage by union;
  3 seeding: the driver runs over all entry points (no adapter), seeds Vertex->VERTEX, Fragment->FRAGMENT,
    Compute->COMPUTE, walks entry.function, uses a visited set that is fresh per entry point, and returns the map it filled;
  4 lookup wiring: the `visibility:` hole is quote_shader_stages(map.get(name of the same binding) or NONE) and the map is
    the driver's result.
Not decided: naga's IR invariant (trusted); quote_shader_stages on its 8 inputs is pinned by an existing unit test."""
import engine_ogp as E
import schema as S
from conc import Eval, V, Diverge, Unbound
from rules.c02 import find_entry_template, hole_after

TRUE = ('true',)


def flat_and(c, pos, neg):
    if c[0] == 'okcond':
        flat_and(c[1], pos, neg)
    elif c[0] == 'and':
        for x in c[1]:
            flat_and(x, pos, neg)
    elif c[0] == 'not':
        neg.append(c[1])
    elif c != TRUE:
        pos.append(c)


def split(c):
    pos, neg = [], []
    flat_and(c, pos, neg)
    return pos, neg


def has_own_match(ogp, q, marker):
    """the function body itself contains a match / if-let on a variant of the enum (not merely inherited conditions)"""
    import json
    if marker.strip(':') in json.dumps(ogp.crate.fns[q]['body']):
        return True
    # .. or in a non-recursive helper it calls directly (`control_flow(statement)` classifying the statement into a strategy object / a list of
    # nested blocks): the walker is still the function that acts on the outcome
    rec = getattr(ogp.crate, 'scc', {})
    for caller, callee, _ in getattr(ogp.it, 'inline_calls', []):
        if caller == q and callee in ogp.crate.fns and callee != q and len(rec.get(callee, ())) <= 1 and not ogp.crate.same_recursive_component(callee, callee):
            if marker.strip(':') in json.dumps(ogp.crate.fns[callee].get('body')):
                return True
    return False


def holds_block(ty, sch, depth=0):
    if 'Block' in ty.replace('BlockContext', ''):
        return True
    if depth > 1:
        return False
    for sname, fields in sch.structs.items():
        short = sname.split('::')[-1]
        if short in ty.replace('<', ' ').replace('>', ' ').replace(',', ' ').split():
            if any(holds_block(t, sch, depth + 1) for _, t in fields):
                return True
    return False


def required_pairs(sch):
    st = sch.enums['naga::Statement']
    blocks, funcs = [], []
    for v, info in st.items():
        for fname, fty in info['fields']:
            if 'Handle<Function>' in fty:
                funcs.append((v, fname))
            elif holds_block(fty, sch):
                blocks.append((v, fname, fty))
    ex = sch.enums['naga::Expression']
    efuncs = [(v, f) for v, info in ex.items() for f, t in info['fields'] if 'Handle<Function>' in t]
    eglob = [(v, f) for v, info in ex.items() for f, t in info['fields'] if 'Handle<GlobalVariable>' in t]
    return blocks, funcs, efuncs, eglob


def derived_from(arg, target):
    """arg is target, or a field of an element of target (Vec<SwitchCase>.body), or an arena lookup keyed by target"""
    found = [False]

    def f(x):
        if x == target:
            found[0] = True
            return False
    E.walk(arg, f)
    return found[0]


def param_index(fn_item, pred):
    for i, p in enumerate(fn_item['params']):
        if pred(p['ty'].replace(' ', '')):
            return i
    return None


def role(crate, q, pred):
    """how function q reads a role value (module / stage map / stage): (term, ('param', index)) for a parameter of that type, or
    (term, ('field', name)) for a field of that type of the struct whose method q is (traversal state kept in a struct)"""
    fi = crate.fns[q]
    for i, p in enumerate(fi['params']):
        if pred(p['ty'].replace(' ', '')):
            return ('param', q, p['pat'].get('name')), ('param', i)
    if fi.get('impl_of') and fi['params'] and fi['params'][0]['pat'].get('name') == 'self':
        st = crate.structs.get(crate.resolve(fi['mod'], [fi['impl_of']]))
        for fl in (st or {}).get('fields', []):
            if pred(fl['ty'].replace(' ', '')):
                return ('f', ('param', q, 'self'), fl['name']), ('field', fl['name'])
    return None, None


def role_arg(crate, args, dst_q, pred):
    """the value a call with arguments `args` hands to function dst_q for the role"""
    _, how = role(crate, dst_q, pred)
    if how is None:
        return None
    if how[0] == 'param':
        return args[how[1]] if how[1] < len(args) else None
    recv = args[0] if args else None
    if recv is None:
        return None
    if recv[0] == 'struct':
        return recv[2].get(how[1])
    return ('f', recv, how[1])


def run(rep, sub=False):
    ogp = E.load()
    sch = S.load()
    if not sub:
        rep.explanation = __doc__
        rep.trusted = ['syn parser and the abstract semantics of Engine A', 'naga IR invariant: calls are Statement::Call / Expression::CallResult, '
                       'global uses are Expression::GlobalVariable in the expression arena']
    blocks, funcs, efuncs, eglob = required_pairs(sch)
    # ---- anchors by role ---------------------------------------------------------------------------------------------
    BW, FW = set(), set()
    ogp.crate.call_graph()
    recursive = {q for q in ogp.crate.fns if ogp.crate.same_recursive_component(q, q) or len(ogp.crate.scc.get(q, ())) > 1}
    for q, effs in ogp.effects.items():
        for e in effs:
            if e['in'] not in recursive:
                continue   # a non-recursive helper inherits the conditions of its caller; the match itself lives in the walker
            pos, neg = split(e['cond'])
            for c in pos + neg:
                if c[0] == 'is' and '::Statement::' in c[2]:
                    BW.add(e['in'])
                if c[0] == 'is' and '::Expression::' in c[2]:
                    FW.add(e['in'])
    # a forwarding helper is a walker only if it does the match itself
    BW = {q for q in BW if has_own_match(ogp, q, '::Statement::')}
    FW = {q for q in FW if has_own_match(ogp, q, '::Expression::')}
    # helpers of the recursive component that only forward a function handle to the function walker (e.g. `visit callee if not visited yet`)
    forwarders = {}
    for q in recursive - BW - FW:
        fi = ogp.crate.fns[q]
        hidx = [i for i, p in enumerate(fi['params']) if p['ty'].replace(' ', '').lstrip('&').startswith(('Handle<', 'naga::Handle<'))]
        if not hidx:
            continue
        Hh = ('param', q, fi['params'][hidx[0]]['pat']['name'])
        for e in ogp.effects.get(q, []):
            if e['in'] == q and e['kind'] == 'reccall' and e['callee'] in FW and any(a[0] == 'idx' and a[2] == Hh for a in e['args'] if isinstance(a, tuple)):
                pos, neg = split(e['cond'])
                if all(c[0] == 't' and c[1][0] == 'mcall' and c[1][2] == 'insert' and c[1][3] == [Hh] for c in pos) and not neg:
                    forwarders[q] = hidx[0]
    # a function of the recursive component that only hands its block on to the block walker, unconditionally (the driver of a block walk
    # written as a work list: `let mut pending = vec![block]; while let Some(b) = pending.pop() { .. }`, see engine_ogp.normalise_worklists)
    BWdrv = set()
    for q in recursive - BW - FW:
        fi = ogp.crate.fns[q]
        bps = [('param', q, p_['pat'].get('name')) for p_ in fi['params'] if p_['ty'].replace(' ', '').endswith('Block')]
        for e in ogp.effects.get(q, []):
            if bps and e['in'] == q and e['kind'] == 'reccall' and e['callee'] in BW and e['cond'] == TRUE and not e['loops'] and any(b_ in e['args'] for b_ in bps):
                BWdrv.add(q)
    rep.floor('function matching on naga::Statement (block walker)', len(BW), 1)
    rep.floor('function matching on naga::Expression (function walker)', len(FW), 1)
    if not BW or not FW:
        return
    walkers = BW | FW | set(forwarders)
    crate = ogp.crate
    # function walkers by what they cover: a function of the recursive component that - itself or through helpers of the component it hands
    # its naga::Function on to - walks function.body with the block walker *and* the whole function.expressions arena; only such a function
    # may be the target of a followed callee handle (a helper that scans the expressions only would leave call statements unseen)
    is_fn = lambda t: t.endswith('naga::Function') or t.endswith('Function')

    def covers(q, what, seen=()):
        fi = crate.fns[q]
        pidx = param_index(fi, is_fn)
        if pidx is None or q in seen:
            return False
        P = ('param', q, fi['params'][pidx]['pat'].get('name'))
        own = ogp.effects.get(q, [])
        if what == 'body':
            if any(any(l[1] == ('f', P, 'body') for l in e['loops']) for e in own) or \
                    any(e['kind'] == 'reccall' and e['callee'] in (BW | BWdrv) and ('f', P, 'body') in e['args'] for e in own):
                return True
        else:
            if any(any(l[1] == ('f', P, 'expressions') and l[2] == [] for l in e['loops']) for e in own if e['in'] == q or e['in'] not in recursive):
                return True
        for e in own:
            if e['kind'] == 'reccall' and e['in'] == q and e['callee'] != q and e['cond'] == TRUE:
                cidx = param_index(crate.fns[e['callee']], is_fn)
                if cidx is not None and cidx < len(e['args']) and e['args'][cidx] == P and covers(e['callee'], what, seen + (q,)):
                    return True
        return False
    FWfull = {q for q in recursive if covers(q, 'body') and covers(q, 'expressions')}
    walkers |= FWfull
    is_stage = lambda t: 'ShaderStages' in t and 'Map' not in t
    is_map = lambda t: 'Map<' in t and 'ShaderStages' in t
    is_module = lambda t: t.endswith('naga::Module') or t.endswith('Module')
    # all effects observed while summarising the walkers themselves
    effs = []
    seen = set()
    for q in sorted(walkers):
        for e in ogp.effects.get(q, []):
            if e['in'] != q and e['in'] in recursive:
                continue  # code of another walker: judged in that function's own summary, where its parameters are symbolic
            k = (e['in'], e['line'], e['kind'], e.get('callee'), e.get('method'), repr(e.get('args'))[:400], repr(e.get('cond'))[:400])
            if k in seen:
                continue
            seen.add(k)
            e = dict(e)
            e['_root'] = q
            effs.append(e)
    rep.analysed = {'block_walkers': sorted(BW), 'function_walkers': sorted(FW), 'effects': len(effs),
                    'required_statement_block_fields': [f'{v}.{f}' for v, f, _ in blocks], 'required_function_handles': [f'Statement::{v}.{f}' for v, f in funcs] +
                    [f'Expression::{v}.{f}' for v, f in efuncs], 'global_uses': [f'Expression::{v}.{f}' for v, f in eglob]}

    def where(e):
        f = crate.fns[e['in']]
        return f"{crate.relfile(f['file'])}:{e['line']} fn {f['name']}"

    def fwhere(q):
        f = crate.fns[q]
        return f"{crate.relfile(f['file'])}:{f['line']} fn {f['name']}"

    def guard_ok(c, handle_term):
        """extra condition allowed on a followed handle: visited.insert(h) / !visited.contains(h)"""
        if c[0] == 't' and c[1][0] == 'mcall' and c[1][2] in ('insert',) and c[1][3] and derived_from(c[1][3][0], handle_term):
            return True
        return False

    # ---- 1. traversal ---------------------------------------------------------------------------------------------------
    stmt_call_all = [False]       # every Statement::Call is followed, unconditionally (decided when that pair is checked, before the expression pairs)

    def check_pair(enum, v, f, callee_set, what, kind):
        variant = f'naga::{enum}::{v}'
        hits = []
        for e in effs:
            if e['kind'] != 'reccall' or (e['callee'] not in callee_set and not (kind == 'fn' and e['callee'] in forwarders)):
                continue
            pos, neg = split(e['cond'])
            scr = [c for c in pos if c[0] == 'is' and c[2].endswith(f'{enum}::{v}')]
            if not scr:
                continue
            target = ('vf', scr[0][1], scr[0][2], f)
            if e['callee'] in forwarders and kind == 'fn':
                if e['args'][forwarders[e['callee']]] == target:
                    hits.append((e, scr[0], pos, target))
            elif any(derived_from(a, target) for a in e['args']):
                hits.append((e, scr[0], pos, target))
        key = f'{enum}::{v}.{f}'
        if not hits and enum == 'Expression' and v == 'CallResult' and stmt_call_all[0]:
            # naga's IR invariant: an Expression::CallResult is the result of exactly one Statement::Call of the same callee in a block of the same
            # function (the validator rejects anything else), so a walker that follows *every* call statement - with or without a result - has
            # followed the callee already
            rep.ok('C03.1.traversal', 'traversal:' + key, fwhere(sorted(FW)[0]) if FW else '',
                   'not followed separately: every Statement::Call is followed whether or not it has a result, and each CallResult belongs to one')
            return
        if not hits:
            rep.bad('C03.1.traversal', 'traversal:' + key, fwhere(sorted(BW if enum == 'Statement' else FW)[0]),
                    f'{key} ({what}) is not followed by the stage walker: accesses and calls placed there are invisible, so a using stage goes missing')
            return
        e, scr, pos, target = hits[0]
        extra = [c for c in pos if c is not scr and not (c[0] == 'is' and c[1] == scr[1]) and not guard_ok(c, target)]
        if enum == 'Statement' and v == 'Call':
            # `Statement::Call { result: None, .. }`: calls with a result are left to their Expression::CallResult, which naga's IR invariant
            # guarantees to exist in the same function's arena for the same callee (that arm is checked as its own pair below)
            n_extra0 = len(extra)
            extra = [c for c in extra if not (c[0] == 'is' and c[1] == ('vf', scr[1], scr[2], 'result') and c[2].split('::')[-1] == 'None')]
            stmt_call_all[0] = not extra and n_extra0 == 0 and len(hits) >= 1
        # conditions contributed by enclosing matches on other values (e.g. the loop element binding) are not extras if they test the same scrutinee
        rep.check(not extra, 'C03.1.traversal', 'traversal:' + key, where(e),
                  f'{key} is followed only under additional condition(s) {[E.show(c, maxdepth=4) for c in extra][:3]}: some placements are skipped',
                  ok_detail=f'followed by {e["callee"].split("::")[-1]} with {E.show(target, maxdepth=3)}')
        # statement element comes from the whole block
        x = scr[1]
        base = x
        while base[0] in ('tf', 'f', 'unwrap'):
            base = base[1]
        src_ok = base[0] == 'elem' and all(l[2] == [] for l in e['loops'] if l[0] == base[1])
        srcterm = base[2] if base[0] == 'elem' else None
        plain = srcterm is not None and srcterm[0] in ('param', 'f')
        rep.check(src_ok and plain, 'C03.1.whole-arena', 'source:' + key, where(e),
                  f'the {enum.lower()}s matched for {key} do not range over the whole block/arena (source {E.show(srcterm, maxdepth=4) if srcterm else E.show(x)}, filters '
                  f'{[E.show(c, maxdepth=3) for l in e["loops"] if base[0] == "elem" and l[0] == base[1] for c in l[2]]})',
                  ok_detail=f'iterates {E.show(srcterm, maxdepth=4)} unfiltered')
    for v, f, ty in blocks:
        check_pair('Statement', v, f, BW, 'nested block', 'block')
    for v, f in funcs:
        check_pair('Statement', v, f, FWfull, 'callee of a call statement', 'fn')
    for v, f in efuncs:
        check_pair('Expression', v, f, FWfull, 'callee of a value-returning call', 'fn')
    # no early exit from a traversal loop: a `return` / `break` inside the `for` over the statements of a block or over the expression arena
    # abandons the remaining elements (e.g. `if !visited.insert(f) { return; }` where `continue` was meant)
    n_exit = 0
    for e in effs:
        if e['kind'] == 'exit' and e['in'] in walkers and e.get('for_loops'):
            n_exit += 1
            src = [l[1] for l in e['loops'] if l[0] in e['for_loops']]
            rep.bad('C03.1.whole-arena', f'early-exit:{e["in"].split("::")[-1]}:{e["what"]}', where(e),
                    f'`{e["what"]}` inside the traversal loop over {[E.show(x, maxdepth=3) for x in src][:2]} under {E.show(e["cond"], maxdepth=4)}: the statements / expressions after the '
                    f'current one are not visited, so accesses and calls placed there are invisible')
    if not n_exit:
        rep.ok('C03.1.whole-arena', 'no-early-exit', fwhere(sorted(BW)[0]), 'no return / break inside a traversal loop of the walker')
    # function walker walks its body and its expression arena
    rep.check(bool(FWfull), 'C03.1.function-body', 'function-walker', fwhere(sorted(FW)[0]),
              'no function of the walker walks both function.body (call statements) and the whole function.expressions arena of the function it is given',
              ok_detail=f'{sorted(x.split("::")[-1] for x in FWfull)} walk function.body and iterate function.expressions unfiltered')
    for q in sorted(FWfull):
        rep.ok('C03.1.function-body', f'body:{q}', fwhere(q), 'walks function.body')
        rep.ok('C03.1.function-body', f'expressions:{q}', fwhere(q), 'iterates function.expressions unfiltered')
    # global use -> map update
    for v, f in eglob:
        key = f'Expression::{v}.{f}'
        hit = None
        for e in effs:
            if e['kind'] not in ('assign', 'mutate'):
                continue
            pos, neg = split(e['cond'])
            scr = [c for c in pos if c[0] == 'is' and c[2].endswith(f'Expression::{v}')]
            if scr:
                hit = (e, scr[0], pos)
                break
        if not hit:
            rep.bad('C03.2.map-update', 'update:' + key, fwhere(sorted(FW)[0]), f'{key} does not update the stage map: uses of globals are not recorded')
            continue
        e, scr, pos = hit
        target = ('vf', scr[1], scr[2], f)
        q = e['_root']     # parameters are those of the walker in whose summary the (possibly inlined helper's) update was recorded
        stageP = role(crate, q, is_stage)[0]
        mapP = role(crate, q, is_map)[0]
        val = e.get('value') if e['kind'] == 'assign' else None
        tgt = e.get('target')
        ok_union = val is not None and val[0] == 'mcall' and val[2] == 'union' and val[1] == tgt and val[3] == [stageP] or \
            (val is not None and val[0] == 'bin' and val[1] == '|' and {0} and ((val[2] == tgt and val[3] == stageP) or (val[3] == tgt and val[2] == stageP)))
        rep.check(bool(ok_union), 'C03.2.map-update', 'union:' + key, where(e),
                  f'the stage-map update is not `old.union(stage)` with the walker\'s own stage parameter (value {E.show(val, maxdepth=5) if val else None}): stages are overwritten or a different set is added',
                  ok_detail='*entry = entry.union(stage)')
        # key = name of that global; entry(..).or_insert(NONE)
        shape = tgt is not None and tgt[0] == 'mcall' and tgt[2] in ('or_insert', 'or_default', 'or_insert_with') and tgt[1][0] == 'mcall' and tgt[1][2] == 'entry' and tgt[1][1] == mapP
        name_ok = False
        none_ok = False
        if shape:
            k = tgt[1][3][0]
            want = ('unwrap', ('f', ('idx', ('f', module_param(crate, q, is_module), 'global_variables'), target), 'name'))
            name_ok = k == want
            none_ok = tgt[2] != 'or_insert' or tgt[3] == [('path', 'wgpu::ShaderStages::NONE')] or (tgt[3] and tgt[3][0][0] == 'call' and tgt[3][0][1].endswith('ShaderStages::empty'))
        rep.check(shape and name_ok, 'C03.2.map-key', 'key:' + key, where(e),
                  f'the stage map is not updated under the name of the global that the expression refers to (target {E.show(tgt, maxdepth=6) if tgt else None})',
                  ok_detail='map.entry(module.global_variables[handle].name)')
        rep.check(shape and none_ok, 'C03.2.map-init', 'init:' + key, where(e), 'a new map entry does not start from the empty stage set', ok_detail='or_insert(NONE)')
        extra = [c for c in pos if c is not scr and not (c[0] == 'is' and c[2].split('::')[-1] == 'Some' and derived_from(c[1], target))]
        rep.check(not extra, 'C03.2.map-update', 'cond:' + key, where(e), f'the update happens only under {[E.show(c, maxdepth=4) for c in extra][:3]}', ok_detail='no extra condition (besides "has a name")')
    # only the recognised update writes the stage map inside the walk (Engine A), and nothing writes it outside the walk (resolved MIR, below)
    recognised = []
    for v, f in eglob:
        for e in effs:
            if e['kind'] in ('assign', 'mutate'):
                pos, neg = split(e['cond'])
                if any(c[0] == 'is' and c[2].endswith(f'Expression::{v}') for c in pos):
                    recognised.append(id(e))
                    break
    for e in effs:
        if e['kind'] not in ('assign', 'mutate') or id(e) in recognised:
            continue
        mapP = role(crate, e['_root'], is_map)[0]
        tgt = e.get('target')
        if mapP is not None and isinstance(tgt, tuple) and derived_from(tgt, mapP):
            rep.bad('C03.2.map-other-write', f'other-write:{e["in"].split("::")[-1]}:{e.get("method") or "assign"}', where(e),
                    f'the stage map is also written by `{e.get("method") or "an assignment"}` ({E.show(tgt, maxdepth=5)}) besides the union update of the global-variable arm: '
                    f'stage sets can be overwritten, removed or invented')
    try:
        from engine_mir import Mir
        from mirutil import cname, method
        mir = Mir()
        g = mir.call_graph()
        MAP_MUT = {'insert', 'remove', 'remove_entry', 'retain', 'clear', 'pop_first', 'pop_last', 'extend', 'append', 'get_mut', 'values_mut', 'iter_mut', 'entry', 'first_entry',
                   'last_entry', 'extract_if', 'split_off', 'or_insert', 'or_insert_with', 'or_default', 'and_modify', 'or_insert_with_key', 'get_or_insert_with', 'drain'}
        n_sites = 0
        # the walk = the recursive component(s) plus helpers that are called from nowhere else
        fns = [n for n, b in mir.bodies.items() if b.kind != 'Closure']
        own = lambda n: n if mir.bodies[n].kind != 'Closure' else (mir.bodies[n].parent or n)
        walk = {n for n in fns if n in mir.reachable_fns(g.get(n, ()))}
        callers = {n: set() for n in fns}
        for a, bs in g.items():
            if a in mir.bodies:
                for b_ in bs:
                    if b_ in callers and own(a) != b_:
                        callers[b_].add(own(a))
        changed = True
        while changed:
            changed = False
            for n in fns:
                if n not in walk and callers[n] and callers[n] <= walk:
                    walk.add(n)
                    changed = True
        for name, B in sorted(mir.bodies.items()):
            owner = own(name)
            in_walk = owner in walk
            for bb, t in B.calls():
                cn, gen = cname(t), (t.get('generics') or '')
                if 'ShaderStages' in gen and ('Map' in cn or '_map::' in cn) and method(cn) in MAP_MUT:
                    n_sites += 1
                    rep.check(in_walk, 'C03.2.map-other-write', f'writer:{owner.split("::")[-1]}:{method(cn)}', B.where(bb),
                              f'`{method(cn)}` on the stage map in {name}, outside the recursive stage walk: stage sets are altered after (or without) the walk, so the visibility is no longer '
                              f'exactly the set of using stages', ok_detail=f'{method(cn)} inside the walk')
        rep.floor('stage-map write sites (resolved MIR)', n_sites, 1)
    except ImportError:
        pass
    # ---- 2. propagation ----------------------------------------------------------------------------------------------------
    n_prop = 0
    for e in effs:
        if e['kind'] != 'reccall' or e['callee'] not in walkers:
            continue
        src = crate.fns[e['in']]
        for rname, pred in (('stage', is_stage), ('map', is_map), ('module', is_module)):
            want = role(crate, e['in'], pred)[0]
            got = role_arg(crate, e['args'], e['callee'], pred)
            if want is None or got is None:
                rep.bad('C03.2.propagation', f'{rname}:{e["in"]}->{e["callee"]}', where(e), f'cannot find the {rname} parameter / state field of the walker', undecided=True)
                continue
            n_prop += 1
            rep.check(got == want, 'C03.2.propagation', f'{rname}:{e["in"].split("::")[-1]}->{e["callee"].split("::")[-1]}@{e["line"] - src["line"]}', where(e),
                      f'the recursive call does not pass the {rname} unchanged (passes {E.show(got, maxdepth=4) if got else None})', ok_detail=f'{rname} passed unchanged')
    # traversal state kept in a struct: its module / map / stage fields are never reassigned by the walkers
    for e in effs:
        if e['kind'] == 'assign' and isinstance(e.get('target'), tuple) and e['target'][0] == 'f' and e['target'][1][0] == 'param' and e['target'][1][2] == 'self':
            fld = e['target'][2]
            st_roles = [role(crate, e['in'], pred) for pred in (is_stage, is_map, is_module)]
            if any(how == ('field', fld) for _, how in st_roles if how):
                rep.bad('C03.2.propagation', f'state-field-reassigned:{fld}', where(e), f'the walker reassigns its `{fld}` state field during the walk: later calls no longer see the entry point\'s stage / map / module')
    rep.floor('parameter propagation checks on recursive walker calls', n_prop, 12)
    # ---- 3. seeding -------------------------------------------------------------------------------------------------------
    drivers = []
    for q, es in ogp.effects.items():
        if q in walkers:
            continue
        if any(e['kind'] == 'reccall' and e['callee'] in walkers for e in es) or any(e['in'] in walkers for e in es):
            # direct caller of a walker: the function whose own body calls it
            f = crate.fns[q]
            calls = [c for c in ogp.it.inline_calls if c[0] == q and c[1] in walkers]
            if calls:
                drivers.append(q)
    rep.floor('driver seeding the walk from the entry points', len(drivers), 1)
    for q in drivers:
        fi = crate.fns[q]
        mP = module_param(crate, q, is_module)
        es = [e for e in ogp.effects[q] if e['in'] in walkers]
        if not es:
            continue
        e0 = es[0]
        outer = e0['loops'][0] if e0['loops'] else None
        ok_src = outer is not None and outer[1] == ('f', mP, 'entry_points') and outer[2] == []
        rep.check(ok_src, 'C03.3.seed-all-entries', f'entries:{q}', fwhere(q),
                  f'the walk is not seeded from all of module.entry_points (source {E.show(outer[1], maxdepth=4) if outer else None}, filters {[E.show(c, maxdepth=3) for c in (outer[2] if outer else [])]})',
                  ok_detail='for entry in module.entry_points (no adapter)')
        exits = [x for x in ogp.effects[q] if x['kind'] == 'exit' and x['in'] == q and x.get('for_loops')]
        rep.check(not exits, 'C03.3.seed-all-entries', f'entries-early-exit:{q}', fwhere(q),
                  f'the loop over the entry points can be left early ({[x["what"] + " under " + E.show(x["cond"], maxdepth=3) for x in exits][:2]}): later entry points are never walked, so their '
                  f'stages are missing', ok_detail='no return / break in the loop over the entry points')
        if not outer:
            continue
        elem = ('elem', outer[0], outer[1])
        # the arguments of the first walker call are visible in the recorded recursive calls: module/map/stage are passed unchanged (rule 2), so read them there
        rc = [e for e in es if e['kind'] == 'reccall']
        if not rc:
            rep.bad('C03.3.seed', f'seed:{q}', fwhere(q), 'no walker call recorded in the driver', undecided=True)
            continue
        e = rc[0]
        stage = role_arg(crate, e['args'], e['callee'], is_stage)
        mp = role_arg(crate, e['args'], e['callee'], is_map)
        if stage is None or mp is None:
            rep.bad('C03.3.seed', f'seed:{q}', fwhere(q), 'cannot find the stage / map handed to the walker', undecided=True)
            continue
        # stage table
        rows = {}
        for v, want in (('Vertex', 'VERTEX'), ('Fragment', 'FRAGMENT'), ('Compute', 'COMPUTE')):
            def leaf(t, v=v):
                if t == ('f', elem, 'stage'):
                    return (V('naga::ShaderStage::' + v),)
                return None
            try:
                r = Eval(leaf).ev(stage)
                rows[v] = r.path if isinstance(r, V) else str(r)
            except (Diverge, Unbound) as ex:
                rows[v] = f'<{ex}>'
            rep.check(rows[v].endswith('ShaderStages::' + want), 'C03.3.seed-stage', f'stage-row:{v}', fwhere(q),
                      f'entry points of stage {v} are walked with stage set {rows[v]} instead of ShaderStages::{want}', ok_detail=f'{v} -> {rows[v]}')
        # walks entry.function: some loop source is elem.function.body / .expressions
        EF = ('f', elem, 'function')

        def seed_covers(what):
            if any(any(l[1] == ('f', EF, what) for l in x['loops']) for x in es):
                return True
            for x in es:
                if x['kind'] != 'reccall':
                    continue
                if what == 'body' and x['callee'] in (BW | BWdrv) and ('f', EF, 'body') in x['args']:
                    return True
                cidx = param_index(crate.fns[x['callee']], is_fn)
                if cidx is not None and cidx < len(x['args']) and x['args'][cidx] == EF and covers(x['callee'], what):
                    return True
            return False
        walks_fn = seed_covers('body') and seed_covers('expressions')
        rep.check(walks_fn, 'C03.3.seed-function', f'entry-function:{q}', fwhere(q), 'the walk does not start at entry.function', ok_detail='starts at entry.function')
        # map created once outside the loop and returned
        ret = ogp.summaries[q]
        rep.check(mp[0] == 'new' and mp[3] == () and ret == mp, 'C03.3.map-returned', f'map:{q}', fwhere(q),
                  f'the stage map filled by the walk ({E.show(mp, maxdepth=3)}) is not a map created once before the loop and returned ({E.show(ret, maxdepth=3)})',
                  ok_detail='map created before the loop and returned')
        # visited sets fresh per entry point
        vis = []
        for x in es:
            for a0 in x.get('args', []):
                # visited sets handed over directly or inside the traversal-state struct
                cands = [a0] if isinstance(a0, tuple) and a0 and a0[0] == 'new' else (list(a0[2].values()) if isinstance(a0, tuple) and a0 and a0[0] == 'struct' else [])
                for a in cands:
                    if isinstance(a, tuple) and a and a[0] == 'new' and a != mp and 'Set' in a[1]:
                        if not any(a == y for y in vis):
                            vis.append(a)
        for a in vis:
            rep.check(outer[0] in a[3], 'C03.3.visited-per-entry', f'visited:{q}', fwhere(q),
                      f'the visited set {a[1]} is created outside the loop over entry points: a helper reached first from one stage is skipped for the next entry point, so its globals miss that stage',
                      ok_detail=f'{a[1]} created inside the entry-point loop')
    # ---- 4. lookup wiring ---------------------------------------------------------------------------------------------------
    # judged on the assembled grammar of the top-level function, where every helper is inlined: the stage set printed into `visibility:` of
    # a layout entry is evaluated for the four cases (binding has a name?, map has an entry?) and must be map[name] / NONE; the map must be
    # the one created and filled by the stage walk
    import engine_skel as K
    from conc import Flags
    tops = [q for q in ogp.summaries if any(c[0] == q and c[1] in drivers for c in ogp.it.inline_calls)]
    # the function in which the map computed by the walk meets the layout entries: the smallest one whose (helper-inlined) summary holds the
    # layout entry template and which is not itself handed a stage map (a staged top level - `analysis = ModuleAnalysis::new(&module)?;
    # module_tokens(&module, &analysis, ..)` - computes the map in one helper and consumes it in another)
    holders = [q for q, v in ogp.summaries.items() if v is not None and q in crate.fns and not crate.receives(q, 'ShaderStages') and
               E.find_templates(v, lambda t: 'wgpu :: BindGroupLayoutEntry {' in E.tmpl_text(t))]
    if holders and not any(q in holders for q in tops):
        def size_(q):
            n = [0]
            E.walk(ogp.summaries[q], lambda x: n.__setitem__(0, n[0] + 1) if x[0] == 'tmpl' else None)
            return n[0]
        tops = tops + sorted(holders, key=size_)[:1]
    n_wire = 0
    for tq in tops:
        top = ogp.summaries[tq]
        ts = E.find_templates(top, lambda t: 'wgpu :: BindGroupLayoutEntry {' in E.tmpl_text(t))
        if not ts:
            continue
        n_wire += 1
        tmpl = ts[0]
        where_t = f"{fwhere(tq)} -> layout entry template {tmpl[1]}"
        vis = hole_after(tmpl, 'visibility :')
        bnd = hole_after(tmpl, 'binding :')
        if not vis or vis[0] != 'hole' or not bnd or bnd[0] != 'hole':
            rep.bad('C03.4.visibility-hole', 'visibility-hole', where_t, '`visibility:` / `binding:` are not interpolated holes', undecided=True)
            continue
        idx_leaf = []
        from roles import binding_roles
        ROLES, _rec = binding_roles(ogp)
        if not ROLES:
            # the lookup key is `binding.<name field>`: which field carries the variable's own name is known only from where the record is built
            rep.bad('C03.4.map-wiring', 'binding-record-name', where_t, 'cannot find where the collected-binding record is filled from a variable\'s own name / @binding index / type / address '
                    'space: the key under which the layout entry looks its stages up may not be the key the walk recorded them under', undecided=True)
            continue
        IDX_F, NAME_F = ROLES['index'], ROLES['name']
        E.walk(bnd[2], lambda x: idx_leaf.append(x) if x[0] == 'f' and x[2] == IDX_F else None)
        arg = stages_argument(vis[2])
        if arg is None or not idx_leaf:
            rep.bad('C03.4.visibility-hole', 'visibility-arg', where_t, 'cannot identify the stage set that is printed into `visibility:`', undecided=True)
            continue
        binding = idx_leaf[0][1]
        from roles import rt as _rt
        nameT = _rt(binding, NAME_F)
        gets = []
        E.walk(arg, lambda x: gets.append(x) if x[0] == 'mcall' and x[2] == 'get' and not any(x == g for g in gets) else None)
        ok_map = len(gets) == 1 and gets[0][1][0] == 'new' and gets[0][1][1] in ('BTreeMap', 'HashMap') and gets[0][1][3] == () and gets[0][3] == [('unwrap', nameT)]
        rep.check(ok_map, 'C03.4.map-wiring', f'map-wiring:{tq}', where_t,
                  f'the stage set of a layout entry is not looked up in the map computed by the stage walk under the name of the same binding ({[E.show(g, maxdepth=5) for g in gets][:2]})',
                  ok_detail='layout entries consult the stage-walk map under binding.name')
        X = Flags('wgpu::ShaderStages', ['FRAGMENT'])
        NONE = Flags('wgpu::ShaderStages', [])
        ok_lookup = ok_map
        detail = ''
        for has_name in (True, False):
            for has_entry in (True, False):
                def leaf(t, has_name=has_name, has_entry=has_entry):
                    if t == nameT:
                        return (('some', 'v') if has_name else None,)
                    if gets and t == gets[0]:
                        return (('some', X) if has_entry else None,)
                    return None
                ev = K.SkelEval(ogp, None, {}, '', None, extra_leaf=leaf)
                try:
                    got = ev.norm_flags(ev.ev(arg))
                except (Diverge, Unbound) as ex:
                    got = f'<{ex}>'
                want = X if (has_name and has_entry) else NONE
                if got != want:
                    ok_lookup = False
                    detail = f'name present={has_name}, map entry present={has_entry}: {got}, expected {want}'
        rep.check(ok_lookup, 'C03.4.visibility-lookup', 'visibility-lookup', where_t,
                  f'`visibility:` is not exactly the map entry of this binding with fallback NONE ({detail or E.show(arg, maxdepth=6)}): unused stages are added or used ones dropped',
                  ok_detail='visibility = quote_shader_stages(global_stages.get(binding.name) or NONE)')
    rep.floor('top-level function wiring the stage map into the layout entries', n_wire, 1)
    if not sub:
        # the stage set of the push-constant range is part of this property's statement; its wiring is decided by C13's rules
        from common import include
        include(rep, 'c13', ('C13.stages', 'C13.wiring', 'C13.fallback', 'C13.selection', 'C13.iff'), 'push-constant-stages')
    # the section reaches the assembled output unconditionally (shared rule, lib/sections.py)
    from sections import check_wiring
    check_wiring(rep, 'C03.section-wiring', ['pub mod bind_groups', 'PUSH_CONSTANT_STAGES'], 'visibility-sections')


def module_param(crate, q, is_module):
    return role(crate, q, is_module)[0]


def stages_argument(term):
    """the stage-set term that quote_shader_stages was applied to: the common left operand of its `==` tests"""
    args = []

    def f(x):
        if x[0] == 'eq' and x[2][0] in ('call', 'path') and 'ShaderStages' in str(x[2][1]):
            if not any(a == x[1] for a in args):
                args.append(x[1])
    E.walk(term, f)
    return args[0] if len(args) == 1 else None


def mentions(term, sub):
    found = [False]

    def f(x):
        if x == sub:
            found[0] = True
            return False
    E.walk(term, f)
    return found[0]


def other_sources(term, allowed):
    """any mcall/call/bin in term that is not part of `allowed` (i.e. the stage set is post-processed)"""
    bad = []

    def f(x):
        if x == allowed:
            return False
        if x[0] in ('mcall', 'call', 'bin', 'callv'):
            bad.append(x)
    E.walk(term, f)
    return bad
