"""C17 - parse and validation failures come back as errors; validation only gates.

Decided clauses (resolved MIR of the top-level function and the diagnostic helpers, all paths):
  1  the WGSL front end is called on the caller's source text itself (no conversion between the public parameter and
     parse_str), its success edge dominates every crate-internal call and every validator call, and nothing that can panic
     runs before that edge or on the error path;
  2  the front end's error reaches the caller as CreateModuleError::ParseError built from that very error value;
  3  when `validate` is Some, Validator::validate(&module) on the parsed module dominates every generation call on that
     path; its error is returned as ValidationError built from that error value;
  4  the validator's Ok value is dropped; the `validate` option is read only to gate the validator (no other branch, no other
     reader), and the module is never borrowed mutably - so for sources that pass, validation cannot change the output;
  5  the four diagnostic helpers dispatch ParseError / ValidationError to naga's matching emit_* function with the caller's
     source (sibling agreement on the method name) and contain no panic-capable callee.
Not decided: panics inside naga's front end, validator or diagnostic renderer (library)."""
from engine_mir import Mir, op_local, op_place
from mirutil import cname, method, guards, chain_of, panic_sites, canon, forward_taint, reads_field

ERR = 'CreateModuleError'


def closure_builds(mir, cname_, variant):
    """closure body returns adt CreateModuleError::<variant> whose operand is its own (non-self) parameter"""
    b = mir.bodies.get(cname_)
    if b is None:
        return False
    for blk in b.blocks:
        for st in blk['stmts']:
            rv = st['rv']
            if rv['rk'] == 'aggregate' and rv['agg'].endswith(f'{ERR}::{variant}'):
                roots = [canon(b, op_place(o)) for o in rv['ops'] if op_place(o)]
                if roots and all(1 <= r[0] <= b.arg_count for r in roots):
                    return True
    return False


def run(rep):
    mir = Mir()
    rep.explanation = __doc__
    rep.trusted = ['rustc nightly MIR + Instance resolution', 'naga front end / validator / diagnostics do not panic']
    tops = [n for n, b in mir.bodies.items() if any(cname(t) == 'naga::front::wgsl::parse_str' for _, t in b.calls())]
    rep.floor('top-level generating function (calls the WGSL front end)', len(tops), 1)
    rep.analysed = {'top_level': tops, 'bodies': len(mir.bodies)}
    for tn in tops:
        T = mir.bodies[tn]
        pcalls = [(bb, t) for bb, t in T.calls() if cname(t) == 'naga::front::wgsl::parse_str']
        rep.check(len(pcalls) == 1, 'C17.1.single-parse', f'parse-once:{tn}', T.where(), f'{len(pcalls)} calls of the front end')
        bp, pt = pcalls[0]
        # ---- 1a: source reaches parse_str unchanged -----------------------------------------------------------------
        root = canon(T, op_place(pt['args'][0])) if op_place(pt['args'][0]) else None
        src_param = root[0] if root and 1 <= root[0] <= T.arg_count and root[1] in ('', '&', '*') else None
        rep.check(src_param is not None, 'C17.1.parse-input', f'parse-input:{tn}', T.where(bp),
                  f'the argument of parse_str is not a parameter of {tn} unchanged (root {root}): the front end then judges a '
                  f'different text than the caller supplied, so a rejected source can be accepted (or spans shift)',
                  ok_detail=f'parse_str receives parameter _{src_param} unchanged')
        # callers hand their own parameter through
        for cn, cb in sorted(mir.bodies.items()):
            for bb, t in cb.calls():
                if cname(t) == tn and src_param is not None:
                    a = t['args'][src_param - 1]
                    r = canon(cb, op_place(a)) if op_place(a) else None
                    ok = r is not None and 1 <= r[0] <= cb.arg_count and r[1] in ('', '&', '*') and 'str' in cb.locals[r[0]]
                    rep.check(ok, 'C17.1.parse-input', f'parse-input:{cn}', cb.where(bb),
                              f'{cn} does not pass its own source parameter unchanged to {tn} (root {r})',
                              ok_detail=f'{cn} forwards parameter _{r[0] if r else "?"} unchanged')
        # ---- success edge of the parse branch --------------------------------------------------------------------------
        gs = None
        for b, blk in enumerate(T.blocks):
            t = blk['term']
            if t['k'] == 'switch' and op_local(t['discr']) is not None:
                neg, calls, places = chain_of(T, op_local(t['discr']))
                if any(c is pt for c in calls):
                    gs = b
                    break
        if gs is None:
            rep.bad('C17.1.parse-branch', f'parse-branch:{tn}', T.where(bp), 'no branch on the outcome of parse_str found', undecided=True)
            continue
        st = T.blocks[gs]['term']
        succ = [tgt for v, tgt in st['targets'] if v == 0]
        errt = [tgt for v, tgt in st['targets'] if v == 1]
        if not succ or not errt:
            rep.bad('C17.1.parse-branch', f'parse-branch:{tn}', T.where(gs), f'unexpected shape of the branch on the parse result {st["targets"]}', undecided=True)
            continue
        succ, errt = succ[0], errt[0]
        dom = T.dominators()
        after = {b for b in range(T.n) if succ in dom[b]}
        normal = T.reachable_from([0])
        before = normal - after
        map_err_closures = set()
        for bb, t in T.calls():
            if method(cname(t)) in ('map_err', 'or_else', 'map', 'unwrap_or_else', 'inspect_err'):
                for a in t['args']:
                    l = op_local(a)
                    if l is not None and 'closure' in T.locals[l]:
                        for _, kind, x in T.defs().get(l, []):
                            if kind == 'assign' and x['rv']['rk'] == 'aggregate' and x['rv']['agg'].startswith('closure:'):
                                map_err_closures.add(x['rv']['agg'][len('closure:'):])
        n_dom = 0
        for bb, t in T.calls():
            c = cname(t)
            internal = c in mir.bodies and c not in map_err_closures
            validator = c.startswith('naga::valid::Validator')
            if internal or validator:
                n_dom += 1
                rep.check(bb in after, 'C17.1.parse-dominates', f'after-parse:{c}', T.where(bb),
                          f'{c} is called on a path on which the source has not (successfully) been parsed yet',
                          ok_detail='dominated by the success edge of the parse branch')
        rep.floor('crate-internal/validator calls in the top-level function', n_dom, 10)
        ps = [(bb, why, what) for bb, why, what in panic_sites(T) if bb in before]
        for bb, why, what in ps:
            rep.bad('C17.1.no-panic-before-parse', f'panic-before-parse:{what}', T.where(bb),
                    f'{what} can panic before the parse result is known / on the parse-error path: {why}')
        if not ps:
            rep.ok('C17.1.no-panic-before-parse', 'panic-free-prefix', T.where(bp), f'{len(before)} blocks before the success edge and on the error path, none panic-capable')
        # ---- 2: ParseError built from the front end's error ------------------------------------------------------------
        built = False
        for bb, t in T.calls():
            if method(cname(t)) == 'map_err' and op_local(t['args'][0]) == pt['dest']['l'] or \
                    (method(cname(t)) == 'map_err' and any(c is pt for c in chain_of(T, op_local(t['args'][0]))[1])):
                for a in t['args'][1:]:
                    l = op_local(a)
                    for _, kind, x in T.defs().get(l, []) if l is not None else []:
                        if kind == 'assign' and x['rv']['rk'] == 'aggregate' and x['rv']['agg'].startswith('closure:'):
                            if closure_builds(mir, x['rv']['agg'][len('closure:'):], 'ParseError'):
                                built = True
        if not built:
            # match form: aggregate in the error region with an operand derived from the parse result
            err_region = T.reachable_from([errt]) - after
            for b in err_region:
                for s in T.blocks[b]['stmts']:
                    rv = s['rv']
                    if rv['rk'] == 'aggregate' and rv['agg'].endswith(f'{ERR}::ParseError'):
                        sl, calls, _ = T.backward_slice([op_local(o) for o in rv['ops'] if op_local(o) is not None])
                        if any(c is pt for _, c in calls):
                            built = True
        rep.check(built, 'C17.2.parse-error-value', f'parse-error:{tn}', T.where(bp),
                  'the error of parse_str is not turned into CreateModuleError::ParseError carrying that very error value',
                  ok_detail='Err edge returns ParseError { error } built from the front end\'s error')
        err_region = T.reachable_from([errt]) - after
        other = []
        for b in sorted(err_region):
            for s in T.blocks[b]['stmts']:
                rv = s['rv']
                if rv['rk'] == 'aggregate' and (rv['agg'].startswith('adt:std::result::Result::Ok') or
                                                 (ERR + '::') in rv['agg'] and not rv['agg'].endswith('ParseError')):
                    other.append(rv['agg'])
            t = T.blocks[b]['term']
            if t['k'] == 'call' and not cname(t).startswith(('<std::result::Result<T, F> as std::ops::FromResidual', 'std::mem::drop')):
                other.append(cname(t))
        rep.check(not other, 'C17.2.parse-error-path', f'parse-error-path:{tn}', T.where(errt),
                  f'the parse-error path does more than return the error: {other[:4]}', ok_detail='error path only returns the residual')
        # ---- 3/4: validation ---------------------------------------------------------------------------------------------
        vcalls = [(bb, t) for bb, t in T.calls() if cname(t) == 'naga::valid::Validator::validate']
        rep.check(len(vcalls) == 1, 'C17.3.validator-call', f'validate-once:{tn}', T.where(), f'{len(vcalls)} calls of Validator::validate', ok_detail='one call')
        vsw = []
        for b, blk in enumerate(T.blocks):
            t = blk['term']
            if t['k'] == 'switch':
                dl = op_local(t['discr'])
                neg, calls, places = chain_of(T, dl) if dl is not None else (False, [], [])
                dp = op_place(t['discr'])
                if dp:
                    places = [canon(T, dp)] + places
                if any('.validate' in p[1] for p in places if p):
                    vsw.append(b)
        rep.check(len(vsw) == 1, 'C17.4.validate-gate-only', f'validate-branches:{tn}', T.where(),
                  f'{len(vsw)} branches on WriteOptions.validate in {tn} (blocks {vsw}); exactly one (the gate in front of the validator) '
                  f'is expected: any other branch makes the generated output depend on whether validation is enabled',
                  ok_detail='exactly one branch reads options.validate')
        if vcalls and vsw:
            vb, vt = vcalls[0]
            sw = vsw[0]
            st2 = T.blocks[sw]['term']
            edges = [(v, tgt) for v, tgt in st2['targets']] + [(None, st2['otherwise'])]
            reach = {v: T.reachable_from([tgt], avoid={sw}) for v, tgt in edges}
            with_v = [v for v, tgt in edges if vb in reach[v]]
            without_v = [v for v, tgt in edges if vb not in reach[v]]
            rep.check(len(with_v) == 1 and len(without_v) == 1, 'C17.3.validator-gated', f'validate-gated:{tn}', T.where(sw),
                      'Validator::validate is not on exactly one arm of the branch on options.validate', ok_detail='validator on the Some arm only')
            if len(with_v) == 1 and len(without_v) == 1:
                some_r, none_r = reach[with_v[0]], reach[without_v[0]]
                only_some, only_none = some_r - none_r, none_r - some_r
                # success edge of the validate branch
                vs = None
                for b in sorted(only_some):
                    t = T.blocks[b]['term']
                    if t['k'] == 'switch' and op_local(t['discr']) is not None and any(c is vt for c in chain_of(T, op_local(t['discr']))[1]):
                        vs = b
                if vs is None:
                    rep.bad('C17.3.validate-branch', f'validate-branch:{tn}', T.where(vb), 'no branch on the outcome of Validator::validate', undecided=True)
                else:
                    vt_s = [tgt for v, tgt in T.blocks[vs]['term']['targets'] if v == 0]
                    vt_e = [tgt for v, tgt in T.blocks[vs]['term']['targets'] if v == 1]
                    some_tgt = [tgt for v, tgt in edges if v == with_v[0]][0]
                    unguarded = T.reachable_from([some_tgt], avoid=set(vt_s) | {sw})
                    bad_calls = [cname(t) for b, t in T.calls() if b in unguarded and cname(t) in mir.bodies and cname(t) not in map_err_closures]
                    # ... and none may run before the gate at all (its error would pre-empt the validation error)
                    bad_calls += [cname(t) + ' (before the validation gate)' for b, t in T.calls()
                                  if cname(t) in mir.bodies and cname(t) not in map_err_closures and sw not in dom[b]]
                    rep.check(not bad_calls, 'C17.3.validate-dominates', f'validate-dominates:{tn}', T.where(vb),
                              f'with validation enabled these generation calls can run without the validator having accepted the module: {bad_calls[:5]}',
                              ok_detail='on the Some arm every generation call is behind the validator\'s success edge')
                    # validator sees the parsed module
                    mroot = canon(T, op_place(vt['args'][1])) if len(vt['args']) > 1 and op_place(vt['args'][1]) else None
                    gen_roots = set()
                    for b, t in T.calls():
                        if cname(t) in mir.bodies and cname(t) not in map_err_closures:
                            for a in t['args']:
                                if op_place(a) and 'naga::Module' in T.locals[op_local(a)]:
                                    gen_roots.add(canon(T, op_place(a)))
                    rep.check(mroot is not None and gen_roots and all(r[0] == mroot[0] for r in gen_roots), 'C17.3.same-module', f'same-module:{tn}', T.where(vb),
                              f'the validator receives {mroot} but generation uses {sorted(gen_roots)}', ok_detail=f'validator and generation use module local _{mroot[0] if mroot else "?"}')
                    # ValidationError built from the validator error
                    vbuilt = False
                    for bb, t in T.calls():
                        if method(cname(t)) == 'map_err' and op_local(t['args'][0]) == vt['dest']['l']:
                            for a in t['args'][1:]:
                                l = op_local(a)
                                for _, kind, x in T.defs().get(l, []) if l is not None else []:
                                    if kind == 'assign' and x['rv']['rk'] == 'aggregate' and x['rv']['agg'].startswith('closure:'):
                                        if closure_builds(mir, x['rv']['agg'][len('closure:'):], 'ValidationError'):
                                            vbuilt = True
                    if not vbuilt and vt_e:
                        er = T.reachable_from(vt_e, avoid={vs})
                        for b in er:
                            for s in T.blocks[b]['stmts']:
                                rv = s['rv']
                                if rv['rk'] == 'aggregate' and rv['agg'].endswith(f'{ERR}::ValidationError'):
                                    sl, calls, _ = T.backward_slice([op_local(o) for o in rv['ops'] if op_local(o) is not None])
                                    if any(c is vt for _, c in calls):
                                        vbuilt = True
                    rep.check(vbuilt, 'C17.3.validation-error-value', f'validation-error:{tn}', T.where(vb),
                              'the validator\'s error is not returned as CreateModuleError::ValidationError carrying that very error value',
                              ok_detail='Err edge returns ValidationError { error } built from the validator\'s error')
                # arms contain only validator plumbing
                allowed = ('naga::valid::', 'std::result::Result::<T, E>::map_err', '<std::result::Result<T, E> as std::ops::Try>::branch',
                           '<std::result::Result<T, F> as std::ops::FromResidual', 'std::mem::drop', 'std::option::Option::<T>::as_ref')
                extra = [cname(t) for b, t in T.calls() if b in (only_some | only_none) and not cname(t).startswith(allowed)]
                rep.check(not extra, 'C17.4.validate-gate-only', f'validate-arms:{tn}', T.where(sw),
                          f'the arms of the branch on options.validate call {extra[:5]}: something other than the validator depends on the option',
                          ok_detail='arms of the validate branch contain only validator plumbing')
            # Ok value of the validator dropped
            def through(t):
                return method(cname(t)) in ('map_err', 'branch', 'ok', 'is_ok', 'is_err', 'err', 'from_residual', 'map', 'as_ref')
            tainted, consumers = forward_taint(T, [vt['dest']['l']], through)
            leaks = [cname(t) for b, t in consumers if not through(t) and cname(t) != 'std::mem::drop']
            rep.check(not leaks, 'C17.4.module-info-dropped', f'module-info:{tn}', T.where(vb),
                      f'the value returned by Validator::validate flows into {leaks[:4]}: generation then uses the validator\'s analysis, so '
                      f'enabling validation can change the output',
                      ok_detail='the validator result only feeds the error branch and is dropped')
        # other readers of the option
        readers = []
        for n2, b2 in sorted(mir.bodies.items()):
            if n2.startswith('<') and ' as ' in n2:
                continue  # derived trait impls of the option structs
            r = reads_field(b2, 'WriteOptions', 'validate')
            if r and n2 != tn:
                readers.append(n2)
        rep.check(not readers, 'C17.4.validate-gate-only', 'validate-readers', T.where(),
                  f'WriteOptions.validate is also read in {readers}: only the top-level gate may depend on it',
                  ok_detail=f'only {tn} reads WriteOptions.validate')
        # module never mutably borrowed
        mod_locals = [i for i, ty in enumerate(T.locals) if ty == 'naga::Module']
        mut = []
        for b, blk in enumerate(T.blocks):
            for s in blk['stmts']:
                rv = s['rv']
                if rv['rk'] == 'ref' and rv['mut'] and rv['place']['l'] in mod_locals:
                    mut.append(b)
        rep.check(not mut, 'C17.4.module-immutable', f'module-immutable:{tn}', T.where(mut[0] if mut else None),
                  'the parsed module is borrowed mutably: validation or a later step could alter what generation sees',
                  ok_detail='the module is only borrowed immutably')
    # ---- 5: diagnostic helpers ------------------------------------------------------------------------------------------
    helpers = [n for n, b in mir.bodies.items() if b.kind == 'AssocFn' and b.j['pub'] and n.startswith(ERR + '::')]
    rep.floor('public diagnostic helpers on the error type', len(helpers), 4)
    for hn in sorted(helpers):
        H = mir.bodies[hn]
        my = method(hn)
        pe = [(bb, t) for bb, t in H.calls() if cname(t).startswith('naga::front::wgsl::ParseError::emit_')]
        ve = [(bb, t) for bb, t in H.calls() if cname(t).startswith('naga::WithSpan::<E>::emit_')]
        rep.check(len(pe) == 1 and method(cname(pe[0][1])) == my, 'C17.5.dispatch', f'dispatch-parse:{hn}', H.where(),
                  f'{hn} must forward ParseError to naga ParseError::{my}; found {[cname(t) for _, t in pe]}',
                  ok_detail=f'ParseError -> {cname(pe[0][1]) if pe else ""}')
        rep.check(len(ve) == 1 and method(cname(ve[0][1])) == my, 'C17.5.dispatch', f'dispatch-validation:{hn}', H.where(),
                  f'{hn} must forward ValidationError to naga WithSpan::{my}; found {[cname(t) for _, t in ve]}',
                  ok_detail=f'ValidationError -> {cname(ve[0][1]) if ve else ""}')
        for label, lst, variant in (('parse', pe, 'ParseError'), ('validation', ve, 'ValidationError')):
            for bb, t in lst:
                # source argument is the helper's own source parameter; receiver comes from the matching variant
                a = t['args'][1] if len(t['args']) > 1 else None
                r = canon(H, op_place(a)) if a and op_place(a) else None
                rep.check(r is not None and r[0] == 2 and r[1] in ('', '&', '*'), 'C17.5.source-arg', f'source-arg-{label}:{hn}', H.where(bb),
                          f'{cname(t)} does not receive the caller\'s wgsl_source (root {r})', ok_detail='receives parameter _2 (wgsl_source)')
                rr = canon(H, op_place(t['args'][0])) if op_place(t['args'][0]) else None
                rep.check(rr is not None and ('@' + variant) in rr[1], 'C17.5.variant', f'variant-{label}:{hn}', H.where(bb),
                          f'{cname(t)} is applied to {rr}, not to the error held by variant {variant}', ok_detail=f'receiver is the payload of {variant}')
                gl = guards(H, bb)
                rep.check(any(True for g in gl), 'C17.5.variant', f'variant-guard-{label}:{hn}', H.where(bb), 'call not under the match on self', ok_detail='inside the match on self')
        sites = panic_sites(H)
        for bb, why, what in sites:
            rep.bad('C17.5.no-panic', f'panic:{hn}:{what}', H.where(bb), f'{what} in diagnostic helper {hn}: {why}')
        if not sites:
            rep.ok('C17.5.no-panic', f'panic-free:{hn}', H.where(), 'no panic-capable callee')
