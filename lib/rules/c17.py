"""C17 - parse and validation failures come back as errors; validation only gates.

Decided clauses (resolved MIR, all paths).  The generating entry may be factored into a chain of crate functions
(public wrapper -> ... -> the function that calls the WGSL front end); every level of the chain is checked:
  1  the front end is called on the caller's source text itself (at every level the source argument is the level's own parameter,
     unchanged); at every level the success edge of the branch on the step's result (parse_str, or the call of the next-lower level)
     dominates every other crate-internal call and every validator call; nothing that can panic runs before that edge or on the
     error path; the error path only returns the error;
  2  the front end's error reaches the caller as CreateModuleError::ParseError built from that very error value;
  3  when `validate` is Some, Validator::validate(&module) on the parsed module dominates every generation call on that path (and
     no generation call runs before the gate); its error is returned as ValidationError built from that error value;
  4  the validator's Ok value is dropped; the `validate` option (read from WriteOptions, possibly handed down the chain as a
     parameter) feeds nothing but the single gate in front of the validator; the module is never borrowed mutably - so for sources
     that pass, validation cannot change the output;
  5  the four diagnostic helpers dispatch ParseError / ValidationError to naga's matching emit_* function with the caller's
     source (sibling agreement on the method name) and contain no panic-capable callee.
Not decided: panics inside naga's front end, validator or diagnostic renderer (library)."""
from engine_mir import Mir, op_local, op_place
import re
from mirutil import feasible_reach, cname, method, guards, chain_of, panic_sites, canon, forward_taint, reads_field, local_from_field, local_is_field_value, place_reads_field

ERR = 'CreateModuleError'
PLUMBING = ('std::result::Result::<T, E>::map_err', '<std::result::Result<T, E> as std::ops::Try>::branch', '<std::result::Result<T, F> as std::ops::FromResidual',
            'std::mem::drop', 'std::option::Option::<T>::as_ref', 'std::option::Option::<&T>::copied', 'std::option::Option::<&T>::cloned',
            '<std::option::Option<T> as std::clone::Clone>::clone', 'std::option::Option::<T>::as_deref', 'std::option::Option::<T>::transpose',
            'std::result::Result::<T, E>::map', '<std::option::Option<T> as std::ops::Try>::branch', '<std::option::Option<T> as std::ops::FromResidual')


def closure_builds(mir, cname_, variant):
    b = mir.bodies.get(cname_)
    if b is None:
        return False
    for blk in b.blocks:
        for st in blk['stmts']:
            rv = st['rv']
            if rv['rk'] == 'aggregate' and rv['agg'].endswith(f'{ERR}::{variant}'):
                roots = [canon(b, op_place(o)) for o in rv['ops'] if op_place(o)]
                if roots and all(1 <= r[0] <= b.arg_count for r in roots):
                    return True
    return False


def closures_passed(T, names=('map_err', 'or_else', 'map', 'unwrap_or_else', 'inspect_err', 'and_then')):
    out = set()
    for bb, t in T.calls():
        if method(cname(t)) in names:
            for a in t['args']:
                l = op_local(a)
                if l is not None and 'closure' in T.locals[l]:
                    for _, kind, x in T.defs().get(l, []):
                        if kind == 'assign' and x['rv']['rk'] == 'aggregate' and x['rv']['agg'].startswith('closure:'):
                            out.add(x['rv']['agg'][len('closure:'):])
    return out


def result_branch(T, call_t):
    """block of the switch whose discriminant derives from the result of call_t; returns (switch block, success target, error target)"""
    for b, blk in enumerate(T.blocks):
        t = blk['term']
        if t['k'] == 'switch' and op_local(t['discr']) is not None:
            neg, calls, places = chain_of(T, op_local(t['discr']))
            if any(c is call_t for c in calls):
                succ = [tgt for v, tgt in t['targets'] if v == 0]
                errt = [tgt for v, tgt in t['targets'] if v == 1]
                if succ and errt:
                    return b, succ[0], errt[0]
    return None


def error_built_from(mir, T, call_t, variant, err_region):
    for bb, t in T.calls():
        if method(cname(t)) == 'map_err' and (op_local(t['args'][0]) == call_t['dest']['l'] or any(c is call_t for c in chain_of(T, op_local(t['args'][0]))[1])):
            for a in t['args'][1:]:
                l = op_local(a)
                for _, kind, x in T.defs().get(l, []) if l is not None else []:
                    if kind == 'assign' and x['rv']['rk'] == 'aggregate' and x['rv']['agg'].startswith('closure:'):
                        if closure_builds(mir, x['rv']['agg'][len('closure:'):], variant):
                            return True
    for b in err_region:
        for s in T.blocks[b]['stmts']:
            rv = s['rv']
            if rv['rk'] == 'aggregate' and rv['agg'].endswith(f'{ERR}::{variant}'):
                sl, calls, _ = T.backward_slice([op_local(o) for o in rv['ops'] if op_local(o) is not None])
                if any(c is call_t for _, c in calls):
                    return True
    # `step(..)?` with `impl From<StepError> for CreateModuleError`: the `?` converts the residual through that impl (std's from_residual calls
    # From::from); the impl must build this variant from its own argument
    for b in err_region:
        t = T.blocks[b]['term']
        if t['k'] == 'call' and cname(t).endswith('::from_residual') and 'FromResidual<std::result::Result' in cname(t):
            gen = (t.get('generics') or '')
            m_ = re.search(r'std::result::Result<std::convert::Infallible, (.*)>\]\s*$', gen)
            src = m_.group(1) if m_ else None
            _, calls, _ = T.backward_slice([op_local(a) for a in t['args'] if op_local(a) is not None])
            if not src or not any(c is call_t for _, c in calls):
                continue
            for n2, b2 in mir.bodies.items():
                if n2.startswith('<') and n2.endswith('>::from') and f'as std::convert::From<{src}>' in n2 and n2[1:].startswith(ERR.split('::')[-1] + ' as '):
                    for blk in b2.blocks:
                        for s2 in blk['stmts']:
                            rv = s2['rv']
                            if rv['rk'] == 'aggregate' and rv['agg'].endswith(f'{ERR}::{variant}') and rv.get('ops') and \
                                    all(op_place(o) is not None and canon(b2, op_place(o))[0] == 1 for o in rv['ops']) and s2['lhs']['l'] == 0:
                                if not [1 for blk3 in b2.blocks for s3 in blk3['stmts'] if s3['rv']['rk'] == 'aggregate' and (ERR + '::') in s3['rv']['agg'] and s3 is not s2]:
                                    return True
    return False


def run(rep):
    mir = Mir()
    rep.explanation = __doc__
    rep.trusted = ['rustc nightly MIR + Instance resolution', 'naga front end / validator / diagnostics do not panic']
    # front-end steps delegated to sibling helpers (parse_module / check_module / validate_module ..) are inlined into the function that joins
    # them with the emission functions, so that the path rules see parse -> validate -> emission in one control-flow graph
    from engine_mir import inline_front_end
    top, helpers = inline_front_end(mir)
    rep.info['front_end_helpers_inlined'] = sorted(helpers)
    P = [n for n, b in mir.bodies.items() if n not in helpers and any(cname(t) == 'naga::front::wgsl::parse_str' for _, t in b.calls())]
    rep.floor('function calling the WGSL front end', len(P), 1)
    if len(P) != 1:
        rep.check(len(P) == 1, 'C17.1.single-parse', 'parse-once', '', f'{len(P)} functions call the front end', ok_detail='one')
        if not P:
            return
    # ---- the chain of levels: [ (body, step call terminator, index of the source argument in the step call) ] ------------------------------
    levels = []
    pbody = mir.bodies[P[0]]
    pcalls = [(bb, t) for bb, t in pbody.calls() if cname(t) == 'naga::front::wgsl::parse_str']
    rep.check(len(pcalls) == 1, 'C17.1.single-parse', f'parse-once:{P[0]}', pbody.where(), f'{len(pcalls)} calls of the front end', ok_detail='one call')
    levels.append((pbody, pcalls[0][0], pcalls[0][1], 0))
    seen = {P[0]}
    frontier = [P[0]]
    while frontier:
        nxt = []
        for fn in frontier:
            for cn, cb in sorted(mir.bodies.items()):
                if cb.kind == 'Closure' or cn in seen or cn in helpers:
                    continue
                sites = [(bb, t) for bb, t in cb.calls() if cname(t) == fn]
                if sites:
                    seen.add(cn)
                    nxt.append(cn)
                    for bb, t in sites:
                        levels.append((cb, bb, t, None))
        frontier = nxt
    chain_fns = {lv[0].name for lv in levels}
    rep.analysed = {'chain': [lv[0].name for lv in levels], 'bodies': len(mir.bodies)}
    # the options reach the generating function and its sections exactly as the caller gave them (shared MIR rule, lib/wrappers.py)
    from wrappers import check_option_passthrough
    check_option_passthrough(rep, 'C17.options-passthrough')
    # source parameter index per chain function (1-based local), filled bottom-up
    src_param = {}
    n_gen = 0
    validator_levels = []
    for T, bs, st_, _ in levels:
        tn = T.name
        callee = cname(st_)
        # ---- 1a: the source text reaches the step unchanged -----------------------------------------------------------------------
        if callee == 'naga::front::wgsl::parse_str':
            arg = st_['args'][0]
        else:
            idx = src_param.get(callee)
            arg = st_['args'][idx - 1] if idx is not None and idx - 1 < len(st_['args']) else None
        root = canon(T, op_place(arg)) if arg is not None and op_place(arg) else None
        sp = root[0] if root and 1 <= root[0] <= T.arg_count and root[1] in ('', '&', '*') and 'str' in T.locals[root[0]] else None
        if sp is not None and tn not in src_param:
            src_param[tn] = sp
        rep.check(sp is not None, 'C17.1.parse-input', f'parse-input:{tn}', T.where(bs),
                  f'{tn} does not hand its own source parameter unchanged to {callee} (root {root}): the front end then judges a different text than the caller supplied, so a rejected source '
                  f'can be accepted (or diagnostics shift)', ok_detail=f'{tn} forwards parameter _{sp} unchanged to {callee.split("::")[-1]}')
        # ---- branch on the step result -------------------------------------------------------------------------------------------------
        rb = result_branch(T, st_)
        others = [(bb, t) for bb, t in T.calls() if (cname(t) in mir.bodies and cname(t) not in closures_passed(T) and t is not st_) or cname(t).startswith('naga::valid::Validator')]
        if rb is None:
            # tail position: the result of the step is returned as is; nothing else may happen at this level
            direct = st_['dest']['l'] == 0 or any(x['rv']['rk'] == 'use' and op_local(x['rv']['ops'][0]) == st_['dest']['l'] and x['lhs']['l'] == 0
                                                   for blk in T.blocks for x in blk['stmts'])
            rep.check(direct and not others, 'C17.1.parse-dominates', f'tail-call:{tn}', T.where(bs),
                      f'{tn} neither branches on the result of {callee} nor returns it unchanged (other calls: {[cname(t) for _, t in others][:3]})',
                      ok_detail=f'returns the result of {callee.split("::")[-1]} unchanged')
            continue
        gs, succ, errt = rb
        dom = T.dominators()
        # blocks every feasible path reaches only through the success edge (feasibility: a path that went through an inlined helper's Err
        # construction cannot leave the caller's `?` on the Ok edge)
        before = feasible_reach(T, [0], avoid={succ})
        after = set(range(T.n)) - before
        for bb, t in others:
            n_gen += 1
            rep.check(bb in after, 'C17.1.parse-dominates', f'after-parse:{cname(t)}', T.where(bb),
                      f'{cname(t)} is called on a path on which the source has not (successfully) been parsed/validated yet', ok_detail='dominated by the success edge of the step')
        ps = [(bb, why, what) for bb, why, what in panic_sites(T) if bb in before]
        for bb, why, what in ps:
            rep.bad('C17.1.no-panic-before-parse', f'panic-before-parse:{what}', T.where(bb), f'{what} can panic before the parse result is known / on the error path: {why}')
        if not ps:
            rep.ok('C17.1.no-panic-before-parse', f'panic-free-prefix:{tn}', T.where(bs), f'{len(before)} blocks before the success edge and on the error path, none panic-capable')
        err_region = feasible_reach(T, [errt]) - after
        other = []
        for b in sorted(err_region):
            for s in T.blocks[b]['stmts']:
                rv = s['rv']
                if rv['rk'] == 'aggregate' and (rv['agg'].startswith('adt:std::result::Result::Ok') or ((ERR + '::') in rv['agg'] and not rv['agg'].endswith('ParseError'))):
                    other.append(rv['agg'])
            t = T.blocks[b]['term']
            if t['k'] == 'call' and not cname(t).startswith(('<std::result::Result<T, F> as std::ops::FromResidual', 'std::mem::drop')) and \
                    not cname(t).endswith('as std::ops::Try>::branch'):      # the caller's `?` on an inlined helper's result: error plumbing
                other.append(cname(t))
        rep.check(not other, 'C17.2.parse-error-path', f'parse-error-path:{tn}', T.where(errt), f'the error path of {callee} does more than return the error: {other[:4]}',
                  ok_detail='error path only returns the residual')
        if callee == 'naga::front::wgsl::parse_str':
            rep.check(error_built_from(mir, T, st_, 'ParseError', err_region), 'C17.2.parse-error-value', f'parse-error:{tn}', T.where(bs),
                      'the error of parse_str is not turned into CreateModuleError::ParseError carrying that very error value', ok_detail='Err edge returns ParseError { error } built from the front end\'s error')
        if any(cname(t) == 'naga::valid::Validator::validate' for _, t in T.calls()):
            validator_levels.append((T, bs, st_, gs, succ))
    rep.floor('crate-internal/validator calls dominated by a successful parse', n_gen, 1)   # how many there are depends on how the generating function is factored
    # ---- 3/4: validation -----------------------------------------------------------------------------------------------------------------
    accessors0 = set()
    for n2, b2 in mir.bodies.items():
        if n2 in helpers:
            continue
        if b2.kind != 'Closure' and n2 not in chain_fns and not (n2.startswith('<') and ' as ' in n2) and reads_field(b2, 'WriteOptions', 'validate'):
            callers = {cn for cn, cb in mir.bodies.items() for _, t in cb.calls() if cname(t) == n2}
            if callers and callers <= (chain_fns | set(helpers)) and local_is_field_value(mir, b2, 0, 'WriteOptions', 'validate'):
                accessors0.add(n2)
    rep.check(len(validator_levels) == 1, 'C17.3.validator-call', 'validate-once', '', f'Validator::validate is called in {len(validator_levels)} functions of the generating chain', ok_detail='one function validates')
    gates = []
    for lv in levels:
        T = lv[0]
        if T.name in [g[0].name for g in gates]:
            continue
        for b, blk in enumerate(T.blocks):
            t = blk['term']
            if t['k'] != 'switch':
                continue
            dl = op_local(t['discr'])
            dp = op_place(t['discr'])
            if (dp and place_reads_field(dp, 'WriteOptions', 'validate')) or (dl is not None and local_is_field_value(mir, T, dl, 'WriteOptions', 'validate')):
                if not is_drop_flag_switch(T, b):
                    gates.append((T, b))
    rep.check(len(gates) == 1, 'C17.4.validate-gate-only', 'validate-branches', '',
              f'{len(gates)} branches depend on WriteOptions.validate ({[(g[0].name, g[1]) for g in gates]}); exactly one (the gate in front of the validator) is expected: any other branch makes the '
              f'generated output depend on whether validation is enabled', ok_detail='exactly one branch depends on options.validate')
    for T, bs, st_, gs, succ in validator_levels:
        tn = T.name
        vb, vt = [(bb, t) for bb, t in T.calls() if cname(t) == 'naga::valid::Validator::validate'][0]
        my_gates = [g for g in gates if g[0] is T]
        if not my_gates:
            rep.bad('C17.3.validator-gated', f'validate-gated:{tn}', T.where(vb), 'Validator::validate is not behind the branch on options.validate in the same function')
            continue
        sw = my_gates[0][1]
        st2 = T.blocks[sw]['term']
        edges = [(v, tgt) for v, tgt in st2['targets']] + [(None, st2['otherwise'])]
        reach = {v: feasible_reach(T, [tgt], avoid={sw}) for v, tgt in edges}
        with_v = [v for v, tgt in edges if vb in reach[v]]
        without_v = [v for v, tgt in edges if vb not in reach[v]]
        rep.check(len(with_v) == 1 and len(without_v) == 1, 'C17.3.validator-gated', f'validate-gated:{tn}', T.where(sw),
                  'Validator::validate is not on exactly one arm of the branch on options.validate', ok_detail='validator on the Some arm only')
        if len(with_v) != 1 or len(without_v) != 1:
            continue
        some_r, none_r = reach[with_v[0]], reach[without_v[0]]
        only_some, only_none = some_r - none_r, none_r - some_r
        vrb = result_branch(T, vt)
        dom = T.dominators()
        cl = closures_passed(T)
        gen = [(b, t) for b, t in T.calls() if cname(t) in mir.bodies and cname(t) not in cl and t is not st_ and cname(t) not in accessors0]
        if vrb is None:
            rep.bad('C17.3.validate-branch', f'validate-branch:{tn}', T.where(vb), 'no branch on the outcome of Validator::validate', undecided=True)
        else:
            vs, vsucc, verr = vrb
            some_tgt = [tgt for v, tgt in edges if v == with_v[0]][0]
            unguarded = feasible_reach(T, [some_tgt], avoid={vsucc, sw})      # paths through an inlined helper's Err return cannot continue on Ok
            bad_calls = [cname(t) for b, t in gen if b in unguarded]
            pre_gate = feasible_reach(T, [0], avoid={sw})
            bad_calls += [cname(t) + ' (before the validation gate)' for b, t in gen if b in pre_gate]
            rep.check(not bad_calls, 'C17.3.validate-dominates', f'validate-dominates:{tn}', T.where(vb),
                      f'with validation enabled these generation calls can run without the validator having accepted the module (or before the gate, pre-empting its error): {bad_calls[:5]}',
                      ok_detail='every generation call of this level is behind the gate and, on the Some arm, behind the validator\'s success edge')
            er = feasible_reach(T, [verr], avoid={vs})
            rep.check(error_built_from(mir, T, vt, 'ValidationError', er), 'C17.3.validation-error-value', f'validation-error:{tn}', T.where(vb),
                      'the validator\'s error is not returned as CreateModuleError::ValidationError carrying that very error value', ok_detail='Err edge returns ValidationError { error } built from the validator\'s error')
        # validator sees the module that is generated from / returned
        mod_locals = {i for i, ty in enumerate(T.locals) if ty == 'naga::Module'}
        al = op_local(vt['args'][1]) if len(vt['args']) > 1 else None
        sl_v = T.backward_slice([al], through_calls=False)[0] if al is not None else set()
        step_dest = st_['dest']['l']
        from_step = lambda l: step_dest in T.backward_slice([l], through_calls=True)[0]
        okm = bool(sl_v & mod_locals) and all(from_step(m_) for m_ in mod_locals)
        rep.check(okm, 'C17.3.same-module', f'same-module:{tn}', T.where(vb),
                  f'the validator is not applied to the module produced by the parse step (module locals {sorted(mod_locals)})', ok_detail='validator checks the parsed module')
        extra = [cname(t) for b, t in T.calls() if b in (only_some | only_none) and not cname(t).startswith(PLUMBING + ('naga::valid::',))]
        rep.check(not extra, 'C17.4.validate-gate-only', f'validate-arms:{tn}', T.where(sw),
                  f'the arms of the branch on options.validate call {extra[:5]}: something other than the validator depends on the option', ok_detail='arms of the validate branch contain only validator plumbing')

        def through(t):
            return method(cname(t)) in ('map_err', 'branch', 'ok', 'is_ok', 'is_err', 'err', 'map', 'as_ref', 'transpose')
        tainted, consumers = forward_taint(T, [vt['dest']['l']], through)
        # `from_residual` builds the error that is returned: a legitimate end of the flow (not followed further: after a helper was inlined its
        # return slot is shared with the success value)
        leaks = [cname(t) for b, t in consumers if not through(t) and cname(t) != 'std::mem::drop' and not cname(t).endswith('::from_residual')]
        # the tainted value must not be returned either (only errors are)
        rep.check(not leaks, 'C17.4.module-info-dropped', f'module-info:{tn}', T.where(vb),
                  f'the value returned by Validator::validate flows into {leaks[:4]}: generation then uses the validator\'s analysis, so enabling validation can change the output',
                  ok_detail='the validator result only feeds the error branch and is dropped')
    # the validator is the full one, configured from the caller's options: all validation flags (nothing subtracted), and the capability set
    # of the very ValidationOptions found in options.validate - a weaker validator accepts modules the documented one rejects
    n_cfg = 0
    for n2, b2 in sorted(mir.bodies.items()):
        if n2 in helpers:
            continue        # inlined into the generating function: judged there, where its parameters are the caller's values
        for bb2, t2 in b2.calls():
            if not cname(t2).endswith('valid::Validator::new') or len(t2['args']) < 2:
                continue
            n_cfg += 1
            fl, cp = op_local(t2['args'][0]), op_local(t2['args'][1])
            fcalls = [cname(c) for _, c in b2.backward_slice([fl])[1]] if fl is not None else None
            ok_flags = fcalls is not None and len(fcalls) == 1 and fcalls[0].endswith('ValidationFlags>::all')
            rep.check(ok_flags, 'C17.3.validator-config', f'validation-flags:{n2}', b2.where(bb2),
                      f'the validator is not created with ValidationFlags::all() (flags computed by {fcalls}): with some checks switched off it accepts modules that the validator rejects',
                      ok_detail='ValidationFlags::all()')
            ok_caps = False
            ccalls = []
            if cp is not None:
                _, cc, cs = b2.backward_slice([cp])
                ccalls = [cname(c) for _, c in cc]
                places = [p_ for _, s_ in cs for p_ in b2.rvalue_places(s_['rv'])]
                reads_caps = any(place_reads_field(p_, 'ValidationOptions', 'capabilities') for p_ in places)
                from_validate = any(place_reads_field(p_, 'WriteOptions', 'validate') for p_ in places) or \
                    any(local_from_field(mir, b2, p_['l'], 'WriteOptions', 'validate') for p_ in places if place_reads_field(p_, 'ValidationOptions', 'capabilities'))
                OPT = ('as_ref', 'copied', 'cloned', 'clone', 'unwrap', 'as_deref', 'branch', 'deref', 'map', 'and_then')
                # an accessor helper of the crate that returns `options.validate.map(|v| v.capabilities)`: reads exactly those two fields, only Option plumbing
                for c in list(ccalls):
                    hb = mir.bodies.get(c)
                    if hb is None or hb.kind == 'Closure':
                        continue
                    fam = [hb] + [b_ for n_, b_ in mir.bodies.items() if b_.kind == 'Closure' and b_.parent == c]
                    h_places = [p_ for b_ in fam for blk_ in b_.blocks for s_ in blk_['stmts'] for p_ in b_.rvalue_places(s_['rv'])] + \
                        [op_place(a_) for b_ in fam for _, t_ in b_.calls() for a_ in t_['args'] if op_place(a_)]
                    h_calls = [cname(t_) for b_ in fam for _, t_ in b_.calls()]
                    if any(place_reads_field(p_, 'WriteOptions', 'validate') for p_ in h_places) and any(place_reads_field(p_, 'ValidationOptions', 'capabilities') for p_ in h_places) and \
                            all(method(x) in OPT or x.startswith(PLUMBING) or x in [n_ for n_, b_ in mir.bodies.items() if b_.kind == 'Closure' and b_.parent == c] for x in h_calls):
                        reads_caps = from_validate = True
                        ccalls.remove(c)
                plumbing_only = all(method(c) in OPT or c.startswith(PLUMBING) for c in ccalls)
                ok_caps = reads_caps and from_validate and plumbing_only
            rep.check(ok_caps, 'C17.3.validator-config', f'validation-capabilities:{n2}', b2.where(bb2),
                      f'the validator\'s capability set is not the `capabilities` of the caller\'s options.validate (computed through {ccalls}): modules that need a capability the caller '
                      f'excluded are accepted (or the reverse)', ok_detail='capabilities of options.validate')
    rep.floor('Validator::new call sites', n_cfg, 1)
    # readers of the option: only chain functions (and derived impls); the value feeds only the gate / the validator's capabilities
    readers = []
    accessors = set()
    for n2, b2 in sorted(mir.bodies.items()):
        if n2.startswith('<') and ' as ' in n2:
            continue
        if n2 in helpers:
            continue        # inlined into the generating function: judged there
        if reads_field(b2, 'WriteOptions', 'validate') and n2 not in chain_fns:
            # an accessor helper: returns the option's value itself (its Some/None-ness is that of `validate`) and is called from the chain only
            callers = {cn for cn, cb in mir.bodies.items() for _, t in cb.calls() if cname(t) == n2}
            if b2.kind != 'Closure' and callers and callers <= (chain_fns | set(helpers)) and local_is_field_value(mir, b2, 0, 'WriteOptions', 'validate'):
                accessors.add(n2)
                continue
            readers.append(n2)
    rep.check(not readers, 'C17.4.validate-gate-only', 'validate-readers', '',
              f'WriteOptions.validate is also read in {readers}, outside the generating chain: only the gate may depend on it', ok_detail='only the generating chain reads WriteOptions.validate')
    for lv in levels:
        T = lv[0]
        rd = reads_field(T, 'WriteOptions', 'validate') or any(cname(t) in accessors for _, t in T.calls())
        if not rd:
            continue
        starts = {t['dest']['l'] for _, t in T.calls() if cname(t) in accessors}
        for b, blk in enumerate(T.blocks):
            for s in blk['stmts']:
                if any(place_reads_field(p, 'WriteOptions', 'validate') for p in T.rvalue_places(s['rv'])):
                    starts.add(s['lhs']['l'])
            t = blk['term']
            if t['k'] == 'call' and any(op_place(a) and place_reads_field(op_place(a), 'WriteOptions', 'validate') for a in t['args']):
                starts.add(t['dest']['l'])

        def thr(t):
            c = cname(t)
            return c.startswith(PLUMBING) or method(c) in ('as_ref', 'copied', 'cloned', 'clone', 'is_some', 'is_none', 'as_deref')
        tainted, consumers = forward_taint(T, list(starts), thr)
        bad = []
        for b, t in consumers:
            c = cname(t)
            if thr(t) or c.startswith('naga::valid::') or c in chain_fns or c.startswith(('std::mem::drop',)):
                continue
            if c in closures_passed(T):
                continue
            bad.append(c)
        rep.check(not bad, 'C17.4.validate-gate-only', f'validate-flow:{T.name}', T.where(),
                  f'the value of options.validate flows into {bad[:4]} in {T.name}: something other than the validation gate depends on the option', ok_detail='options.validate only feeds the gate')
    for lv in levels:
        T = lv[0]
        mod_locals = [i for i, ty in enumerate(T.locals) if ty == 'naga::Module']
        mut = [b for b, blk in enumerate(T.blocks) for s in blk['stmts'] if s['rv']['rk'] == 'ref' and s['rv']['mut'] and s['rv']['place']['l'] in mod_locals]
        if mod_locals:
            rep.check(not mut, 'C17.4.module-immutable', f'module-immutable:{T.name}', T.where(mut[0] if mut else None),
                      'the parsed module is borrowed mutably: validation or a later step could alter what generation sees', ok_detail='the module is only borrowed immutably')
    # ---- 5: diagnostic helpers ------------------------------------------------------------------------------------------
    helpers = [n for n, b in mir.bodies.items() if b.kind == 'AssocFn' and b.j['pub'] and n.startswith(ERR + '::')]
    rep.floor('public diagnostic helpers on the error type', len(helpers), 4)
    for hn in sorted(helpers):
        H = mir.bodies[hn]
        my = method(hn)
        pe = [(bb, t) for bb, t in H.calls() if cname(t).startswith('naga::front::wgsl::ParseError::emit_')]
        ve = [(bb, t) for bb, t in H.calls() if cname(t).startswith('naga::WithSpan::<E>::emit_')]
        if not pe or not ve:
            # the forwarding sits in private helpers / behind a trait object (`self.source_diagnostic()?.emit_to_stderr(src)`): judge the helper with
            # its crate callees inlined and every implementation of a dynamically dispatched call expanded at the call site
            from engine_mir import inlined
            H = inlined(mir, hn, depth=4)
            pe = [(bb, t) for bb, t in H.calls() if cname(t).startswith('naga::front::wgsl::ParseError::emit_')]
            ve = [(bb, t) for bb, t in H.calls() if cname(t).startswith('naga::WithSpan::<E>::emit_')]
        rep.check(len(pe) == 1 and method(cname(pe[0][1])) == my, 'C17.5.dispatch', f'dispatch-parse:{hn}', H.where(),
                  f'{hn} must forward ParseError to naga ParseError::{my}; found {[cname(t) for _, t in pe]}', ok_detail=f'ParseError -> {cname(pe[0][1]) if pe else ""}')
        rep.check(len(ve) == 1 and method(cname(ve[0][1])) == my, 'C17.5.dispatch', f'dispatch-validation:{hn}', H.where(),
                  f'{hn} must forward ValidationError to naga WithSpan::{my}; found {[cname(t) for _, t in ve]}', ok_detail=f'ValidationError -> {cname(ve[0][1]) if ve else ""}')
        for label, lst, variant in (('parse', pe, 'ParseError'), ('validation', ve, 'ValidationError')):
            for bb, t in lst:
                a = t['args'][1] if len(t['args']) > 1 else None
                r = canon(H, op_place(a)) if a and op_place(a) else None
                rep.check(r is not None and r[0] == 2 and r[1] in ('', '&', '*'), 'C17.5.source-arg', f'source-arg-{label}:{hn}', H.where(bb),
                          f'{cname(t)} does not receive the caller\'s wgsl_source (root {r})', ok_detail='receives parameter _2 (wgsl_source)')
                rr = canon(H, op_place(t['args'][0])) if op_place(t['args'][0]) else None
                if rr is not None and ('@' + variant) not in rr[1] and 'dyn ' in H.locals[rr[0]]:
                    # the receiver arrives through a trait object.  An implementation for T only ever runs on a pointer that was unsized from a `&T`:
                    # every such coercion in the (inlined) helper must take the payload of the variant, and no trait object comes from elsewhere
                    strip = lambda ty: re.sub(r"&('\w+ )?(mut )?", '', ty)
                    want = strip(H.locals[op_local(t['args'][0])])
                    casts = [(b_, st) for b_, blk in enumerate(H.blocks) for st in blk['stmts'] if st['rv']['rk'] == 'cast' and 'Unsize' in st['rv'].get('kind', '') and
                             'dyn ' in st['rv'].get('ty', '') and op_local(st['rv']['ops'][0]) is not None and strip(H.locals[op_local(st['rv']['ops'][0])]) == want]
                    foreign = [cname(t2) for _, t2 in H.calls() if 'dyn ' in H.locals[t2['dest']['l']]]
                    roots = [canon(H, op_place(st['rv']['ops'][0])) for _, st in casts]
                    if casts and not foreign and all(r_[0] == 1 and ('@' + variant) in r_[1] for r_ in roots):
                        rr = roots[0]
                rep.check(rr is not None and ('@' + variant) in rr[1], 'C17.5.variant', f'variant-{label}:{hn}', H.where(bb),
                          f'{cname(t)} is applied to {rr}, not to the error held by variant {variant}', ok_detail=f'receiver is the payload of {variant}')
                rep.check(bool(guards(H, bb)), 'C17.5.variant', f'variant-guard-{label}:{hn}', H.where(bb), 'call not under the match on self', ok_detail='inside the match on self')
        # the helper itself, its closures, and every crate function it reaches (a private `line_and_column(source, offset)` helper that
        # indexes a line table belongs to the rendering just as much)
        family = sorted(mir.reachable_fns([hn]) | {n_ for n_, b_ in mir.bodies.items() if b_.kind == 'Closure' and (b_.parent == hn or b_.parent in mir.reachable_fns([hn]))})
        n_sites = 0
        for fn_ in family:
            FB = mir.bodies[fn_]
            for bb, why, what in panic_sites(FB):
                n_sites += 1
                rep.bad('C17.5.no-panic', f'panic:{hn}:{what}' if fn_ == hn else f'panic:{hn}:{fn_}:{what}', FB.where(bb), f'{what} in diagnostic helper {hn}' + ('' if fn_ == hn else f' (through {fn_})') + f': {why}')
        if not n_sites:
            rep.ok('C17.5.no-panic', f'panic-free:{hn}', H.where(), f'no panic-capable callee in {len(family)} function(s) / closure(s) of the helper')


def is_drop_flag_switch(T, b):
    t = T.blocks[b]['term']
    l = op_local(t['discr'])
    return l is not None and T.locals[l] == 'bool' and bool(T.defs().get(l)) and all(
        kind == 'assign' and x['rv']['rk'] == 'use' and 'const' in x['rv']['ops'][0] for _, kind, x in T.defs().get(l, []))
