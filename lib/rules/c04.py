"""C04 - named bind group fields reach their own slot; groups bind at their own index.

Decided on the output grammar with provenance (Engine A), anchored by role in the output language:
  R1 resource struct `pub struct BindGroupLayout<N><'a> { #(pub f: T),* }`: one field per element of the group's binding list
     (unfiltered, unadapted), field name = that binding's name, T by resource kind of that binding's type;
  R2 `wgpu::BindGroupEntry { binding, resource }` list: same list; `binding` = that element's binding_index (never a position);
     `resource` = BindingResource::{Buffer|TextureView|Sampler}(bindings.<name of the same element>) with the same kind partition as R1;
  R3 the layout-entry list ranges over the same list and uses the same index expression;
  R4 names agree on the group key N: `impl BindGroup<N>`, `LAYOUT_DESCRIPTOR<N>` (definition and both uses), `BindGroupLayout<N>`
     parameter, and `pass.set_bind_group(<N>, &self.0, &[])`;
  R5 BindGroups fields / set_bind_groups parameters / `.set(pass)` calls: one per key of the ordered group map, names agree;
  R6 SetBindGroup is implemented for exactly ComputePass, RenderPass and RenderBundleEncoder, forwarding positionally;
  R7 the pipeline layout lists `bind_groups::BindGroup<K>::get_bind_group_layout(device)` for every key of the same ordered map in
     key order (no adapter); with C11's density contract position == index.
The construction of the group map from the module's variables (key = group, element fields from one variable) is decided by the
MIR rules of C11, which are evaluated in the same run."""
import re as _re
import engine_ogp as E
from conc import Eval, V, Diverge, Unbound
from rules.c02 import hole_after, collect_scrutinees
from mirutil import cname as cname_

TI = 'naga::TypeInner::'
KINDS = {'Struct': 'buffer', 'Array': 'buffer', 'Scalar': 'buffer', 'Vector': 'buffer', 'Matrix': 'buffer', 'Atomic': 'buffer', 'Image': 'texture', 'Sampler': 'sampler'}


def ident_fmt(term):
    """Ident::new(format!("<PREFIX>{}", index)) / format!("{}{}", "<PREFIX>", index) -> (prefix literal, index term) ; None otherwise"""
    if term is not None and term[0] == 'call' and term[1] == 'Ident::new' and term[2] and term[2][0][0] == 'fmt':
        f = term[2][0]
        tmpl, args = f[1], list(f[2])
        import re
        if tmpl == '{}{}' and len(args) == 2 and args[0][0] == 'lit':
            return args[0][2], args[1]
        m = re.fullmatch(r'([A-Za-z_][A-Za-z0-9_]*)\{\}', tmpl)
        if m and len(args) == 1:
            return m.group(1), args[0]
    return None


def strip_cast(t):
    """remove value-preserving casts of a u32 / usize quantity (to usize, u64, u32, u128, i64, i128); a narrowing cast (`as u8`, `as u16`, `as i32`,
    `as f32`) stays in place, so the comparison with the expected term fails and the truncation is reported"""
    while t[0] == 'cast' and t[2].replace(' ', '') in ('usize', 'u64', 'u32', 'u128', 'i64', 'i128'):
        t = t[1]
    return t


def inner_values(v):
    """the type value of kind v: bare, and - when the code under test looks further into it (strategy objects built per image class carry the class's
    payload) - every way of filling it in; all fillings must give the same answer"""
    if v != 'Image':
        return [V(TI + v)], []
    from conc import Flags
    D2 = V('naga::ImageDimension::D2')
    full = [V(TI + 'Image', dim=D2, arrayed=False, **{'class': V('naga::ImageClass::Sampled', kind=V('naga::ScalarKind::Float'), multi=False)}),
            V(TI + 'Image', dim=D2, arrayed=False, **{'class': V('naga::ImageClass::Sampled', kind=V('naga::ScalarKind::Uint'), multi=True)}),
            V(TI + 'Image', dim=D2, arrayed=True, **{'class': V('naga::ImageClass::Depth', multi=False)}),
            V(TI + 'Image', dim=V('naga::ImageDimension::Cube'), arrayed=False, **{'class': V('naga::ImageClass::Depth', multi=False)}),
            V(TI + 'Image', dim=D2, arrayed=False, **{'class': V('naga::ImageClass::Storage', format=V('naga::StorageFormat::Rgba8Unorm'),
                                                                  access=Flags('naga::StorageAccess', ['LOAD']))}),
            V(TI + 'Image', dim=D2, arrayed=False, **{'class': V('naga::ImageClass::Storage', format=V('naga::StorageFormat::R32Uint'),
                                                                  access=Flags('naga::StorageAccess', ['LOAD', 'STORE']))})]
    return [V(TI + v)], full


def eval_inner(term, scrut, v):
    """value of `term` when the scrutinee is a type of kind v (see inner_values)"""
    bare, full = inner_values(v)

    def run1(val):
        def leaf(t):
            return (val,) if t == scrut else None
        return Eval(leaf, lenient=True).ev(term)
    try:
        r0 = run1(bare[0])
    except Unbound:
        if not full:
            raise
        r0 = None
    if not full:
        return r0
    try:
        rs = [run1(x) for x in full]
    except (Unbound, Diverge):
        if r0 is None:
            raise
        return r0
    if any(r != rs[0] for r in rs[1:]):
        if r0 is not None:
            return r0           # the bare value leaves what depends on the payload symbolic
        raise Unbound(f'the answer for {v} differs between its fillings: {sorted(set(map(str, rs)))[:3]}')
    return rs[0]


def table_kinds(term, scrut, render):
    out = {}
    for v in KINDS:
        try:
            out[v] = render(eval_inner(term, scrut, v))
        except Diverge:
            out[v] = None
        except Unbound as u:
            out[v] = f'<unbound {u}>'
    return out


TRUE = ('true',)


def order_only(src):
    """the list a source term ranges over after peeling steps that only re-order it: `reorder` by a sort / reverse (never dedup / truncate /
    retain) and identity collections (`list.iter().collect()`)"""
    while True:
        if src[0] == 'reorder' and src[2] in ('sort', 'sort_by', 'sort_by_key', 'sort_unstable', 'sort_unstable_by', 'sort_unstable_by_key', 'sort_by_cached_key', 'reverse') and src[4] == TRUE:
            src = src[1]
        elif src[0] == 'star' and not src[4] and not src[5] and src[3] == ('elem', src[2], src[1]):
            src = src[1]
        else:
            return src


def run(rep):
    ogp = E.load()
    rep.explanation = __doc__
    rep.trusted = ['syn parser and the abstract semantics of Engine A', 'wgpu\'s own behaviour behind set_bind_group / create_bind_group', 'C11: groups dense from 0 (position == index)']
    crate = ogp.crate
    # ---- anchor: per-group template inside the repetition over the group map --------------------------------------------------
    hits = E.repetition_anchor(ogp, lambda t: '( wgpu :: BindGroup ) ;' in E.tmpl_text(t))
    rep.floor('per-group template (`pub struct BindGroup<N>(wgpu::BindGroup);`)', len(hits), 1)
    if not hits:
        return
    q, gt, _s = hits[0]
    stars = [_s]
    f = crate.fns[q]
    where = f"{crate.relfile(f['file'])} fn {f['name']}"
    summ = ogp.summaries[q]
    if len(stars) != 1:
        rep.bad('C04.anchor', 'group-repetition', where, f'{len(stars)} repetitions produce the per-group items', undecided=True)
        return
    gs = stars[0]
    M = gs[1]
    mparam = [p for p in f['params'] if 'BTreeMap' in p['ty'] and (M[0] != 'param' or p['pat'].get('name') == M[2])]
    ge = ('elem', gs[2], M)
    CARRIER = {'kind': 'map'}
    if not mparam and M[0] == 'param':
        # the groups handed out as a list of records in key order (`map.into_iter().map(|(k, v)| Record { group_no: k, bindings: v }).collect()`):
        # established on the resolved MIR of the group-data function (rules.c11.ordered_records_of); which field holds the key / the list comes from there
        try:
            from rules import c11 as _c11
            from engine_mir import Mir as _Mir
            _mir = _Mir()
            for _n, _b in sorted(_mir.bodies.items()):
                if _b.kind == 'Closure' or not _c11.agg_sites(_b, 'CreateModuleError::DuplicateBinding') and not any(cname_(t_) in _mir.bodies and _c11.agg_sites(_mir.bodies[cname_(t_)], 'CreateModuleError::DuplicateBinding') for _, t_ in _b.calls()):
                    continue
                for _bb, _st in _c11.agg_sites(_b, 'std::result::Result::Ok'):
                    if _st['lhs']['l'] == 0 and _st['rv']['ops'] and _c11.op_place(_st['rv']['ops'][0]):
                        _r = _c11.canon(_b, _c11.op_place(_st['rv']['ops'][0]))
                        _conv = _c11.ordered_records_of(_mir, _b, _r[0])
                        if _conv:
                            CARRIER = _conv
        except Exception as _ex:
            rep.info['carrier_detection_error'] = repr(_ex)
    if CARRIER['kind'] == 'map':
        rep.check(M[0] == 'param' and not gs[4] and not gs[5] and any(p['pat']['name'] == M[2] for p in mparam), 'C04.groups-ordered-map', 'group-map', where,
                  f'per-group items are not generated from the ordered (BTreeMap) group map unfiltered (source {E.show(M, maxdepth=4)}, filters {len(gs[4])})',
                  ok_detail='for (group_no, group) in ordered map')
        G, GROUP = ('tf', ge, 0), ('tf', ge, 1)
        BINDINGS = ('f', GROUP, 'bindings')
    else:
        rep.check(M[0] == 'param' and not gs[4] and not gs[5], 'C04.groups-ordered-map', 'group-map', where,
                  f'per-group items are not generated from the list of group records unfiltered (source {E.show(M, maxdepth=4)}, filters {len(gs[4])})',
                  ok_detail=f'for group in records collected from the ordered map in key order (key in `{CARRIER["group_field"]}`, list in `{CARRIER["bindings_field"]}`)')
        G, GROUP = ('f', ge, CARRIER['group_field']), ge
        BINDINGS = ('f', ge, CARRIER['bindings_field'])
    # field roles of the collected-binding record by provenance (which field was filled from `.binding`, which from module.types[..]), not by name
    from roles import binding_roles, rt as RT
    ROLES, _rec = binding_roles(ogp)
    if ROLES is None:
        rep.bad('C04.anchor', 'binding-record', where, 'cannot find where the collected-binding record is built from a variable\'s name / @binding index / type / address space', undecided=True)
        return
    IDX_F, TYPE_F, NAME_F = ROLES['index'], ROLES['type'], ROLES['name']
    body = gs[3]
    pg = ident_fmt(E.holes(gt).get(list(E.holes(gt))[0]))
    rep.check(pg == ('BindGroup', G), 'C04.R4.names', 'group-struct-name', where, f'group wrapper struct is named {pg}', ok_detail='BindGroup<N>')

    def star_over_bindings(tmpl_pred, label):
        ss = []
        E.walk(body, lambda x: ss.append(x) if x[0] == 'star' and E.find_templates(x[3], tmpl_pred) and x[1] != M else None)
        inner = [s for s in ss if not any(o is not s and contains(s[3], o) for o in ss)]
        if len(inner) != 1:
            rep.bad('C04.anchor', f'{label}-repetition', where, f'{len(inner)} repetitions produce {label}', undecided=True)
            return None
        s = inner[0]
        # the order in which the bindings are listed is immaterial (every entry carries its own index): a copy of the list that was only
        # re-ordered (sort*, reverse) is the same set of bindings
        ok = order_only(s[1]) == BINDINGS and not s[4] and not s[5]
        rep.check(ok, f'C04.{label}.same-list', f'{label}-source', where,
                  f'{label} are generated from {E.show(s[1], maxdepth=5)} with {len(s[4])} filter(s); expected the binding list of this group, unfiltered and unadapted: the set of '
                  f'indices / fields would differ from the layout', ok_detail='for binding in group.bindings')
        return s
    # ---- R1 resource struct ---------------------------------------------------------------------------------------------------
    rs = star_over_bindings(lambda t: E.tmpl_text(t).startswith('pub #') and ':' in E.tmpl_text(t) and 'wgpu ::' not in E.tmpl_text(t).split(':')[0], 'R1-fields')
    struct_ts = E.find_templates(body, lambda t: "<'a > {" in E.tmpl_text(t) and 'pub struct #' in E.tmpl_text(t))
    rep.check(len(struct_ts) == 1, 'C04.R1.struct', 'resource-struct', where, f'{len(struct_ts)} resource struct templates', ok_detail='one')
    kinds1 = None
    if struct_ts:
        nm_t = hole_by_regex(struct_ts[0], r"pub struct #(\w+) <'a > \{")
        nm = ident_fmt(nm_t) if nm_t is not None else None
        rep.check(nm == ('BindGroupLayout', G), 'C04.R4.names', 'resource-struct-name', where, f'resource struct is named {nm}', ok_detail='BindGroupLayout<N>')
    if rs is not None:
        be = ('elem', rs[2], rs[1])
        ft = E.find_templates(rs[3], lambda t: E.tmpl_text(t).startswith('pub #'))[0]
        hh = list(E.holes(ft).values())
        rep.check(hh[0] == ('call', 'Ident::new', [('unwrap', RT(be, NAME_F))]), 'C04.R1.field-name', 'field-name', where,
                  f'field name is {E.show(hh[0], maxdepth=5)}; expected the variable\'s own name', ok_detail='Ident::new(binding.name)')
        scr = collect_scrutinees(hh[1]).get('TypeInner', [])
        if len(scr) == 1 and scr[0][0] == 'f' and scr[0][2] == 'inner' and scr[0][1] == ('f', be, TYPE_F):
            kinds1 = table_kinds(hh[1], scr[0], lambda s: 'buffer' if 'BufferBinding' in s else 'texture' if 'TextureView' in s else 'sampler' if 'Sampler' in s else s)
            for v, k in kinds1.items():
                if k is None:
                    continue
                rep.check(k == KINDS[v], 'C04.R1.field-type', f'field-type:{v}', where, f'a {v} resource gets field type kind {k}; expected {KINDS[v]}', ok_detail=f'{v} -> {k}')
            for v, want in (('Struct', "wgpu :: BufferBinding <'a >"), ('Image', "&'a wgpu :: TextureView"), ('Sampler', "&'a wgpu :: Sampler")):
                try:
                    txt = eval_inner(hh[1], scr[0], v)
                except (Diverge, Unbound):
                    txt = None
                rep.check(txt == want, 'C04.R1.field-type', f'field-type-tokens:{v}', where, f'{v}: `{txt}`, expected `{want}`', ok_detail=txt)
        else:
            rep.bad('C04.R1.field-type', 'field-type-scrutinee', where, f'field type is not decided by the type of the same binding ({[E.show(s, maxdepth=4) for s in scr]})', undecided=True)
    # ---- R2 entries -------------------------------------------------------------------------------------------------------------
    es = star_over_bindings(lambda t: 'wgpu :: BindGroupEntry {' in E.tmpl_text(t), 'R2-entries')
    idx_expr = None
    if es is not None:
        be = ('elem', es[2], es[1])
        et = E.find_templates(es[3], lambda t: 'wgpu :: BindGroupEntry {' in E.tmpl_text(t))[0]
        b = hole_after(et, 'binding :')
        r = hole_after(et, 'resource :')
        want_b = ('call', 'Literal::usize_unsuffixed', [('cast', ('f', be, IDX_F), 'usize')])
        okb = b is not None and b[0] == 'hole' and (b[2] == want_b or (b[2][0] == 'call' and b[2][1].startswith('Literal::') and strip_cast(b[2][2][0]) == ('f', be, IDX_F)))
        rep.check(okb, 'C04.R2.entry-binding', 'entry-binding', where,
                  f'`binding:` of the bind group entry is {E.show(b[2], maxdepth=6) if b else None}; expected this binding\'s binding_index (sparse / unordered @binding indices would be misnumbered)',
                  ok_detail='binding = binding.binding_index')
        if True:
            # the type that decides the resource kind: wherever in the entry template it is consulted (directly in the hole after `resource:`, or in a
            # hole further inside - `wgpu::BindingResource::#kind(bindings.#field)`)
            scr = collect_scrutinees(r[2]).get('TypeInner', []) if r is not None and r[0] == 'hole' else []
            if not scr:
                scr = collect_scrutinees(et).get('TypeInner', [])
            if len(scr) == 1 and scr[0] == ('f', ('f', be, TYPE_F), 'inner'):
                # the whole entry is instantiated for each kind of resource type (holes that depend on the binding stay symbolic) and read as text, so
                # it does not matter which template holds the `(bindings.<field>)` part
                entry_re = _re.compile(r'wgpu :: BindGroupEntry \{ binding : \S+ , resource : wgpu :: BindingResource :: (\w+) \( bindings \. #(\w+) \) ,? ?\}')
                all_holes = {}
                E.walk(et, lambda x: all_holes.update({k_: v_ for k_, v_ in E.holes(x).items() if k_ not in all_holes}) if x[0] == 'tmpl' else None)
                texts = table_kinds(et, scr[0], lambda s_: ' '.join(str(s_).split()))
                seen_kinds = set()
                for v, txt in texts.items():
                    if txt is None:
                        continue
                    m_ = entry_re.search(txt)
                    k = {'Buffer': 'buffer', 'TextureView': 'texture', 'Sampler': 'sampler'}.get(m_.group(1), m_.group(1)) if m_ else txt
                    rep.check(k == KINDS[v], 'C04.R2.resource-kind', f'resource-kind:{v}', where, f'a {v} resource is bound as {k}; expected {KINDS[v]}', ok_detail=f'{v} -> {k}')
                    if kinds1 is not None:
                        rep.check(kinds1.get(v) == k, 'C04.R2.resource-kind', f'resource-kind-agrees:{v}', where, f'field kind {kinds1.get(v)} vs entry kind {k} for {v}', ok_detail='field and entry agree')
                    if m_:
                        hv = all_holes.get(m_.group(2))
                        ok = hv == ('call', 'Ident::new', [('unwrap', RT(be, NAME_F))])
                        if m_.group(1) not in seen_kinds:
                            seen_kinds.add(m_.group(1))
                            rep.check(ok, 'C04.R2.entry-resource', f'entry-resource:{m_.group(1)}', where,
                                      f'`{txt}` with {E.show(hv, maxdepth=5) if hv else None}: the resource is not the field named after the same binding', ok_detail=txt)
                rep.check(seen_kinds == {'Buffer', 'TextureView', 'Sampler'}, 'C04.R2.entry-resource', 'entry-resource-rows', where, f'BindingResource rows: {sorted(seen_kinds)}', ok_detail='3 rows')
            else:
                rep.bad('C04.R2.resource-kind', 'resource-scrutinee', where, 'resource kind is not decided by the type of the same binding', undecided=True)
    # ---- R3 layout entries ----------------------------------------------------------------------------------------------------------
    ls = star_over_bindings(lambda t: 'wgpu :: BindGroupLayoutEntry {' in E.tmpl_text(t), 'R3-layout-entries')
    if ls is not None:
        be = ('elem', ls[2], ls[1])
        lt = E.find_templates(ls[3], lambda t: 'wgpu :: BindGroupLayoutEntry {' in E.tmpl_text(t))[0]
        b = hole_after(lt, 'binding :')
        okb = b is not None and b[0] == 'hole' and b[2][0] == 'call' and b[2][1].startswith('Literal::') and strip_cast(b[2][2][0]) == ('f', be, IDX_F)
        rep.check(okb, 'C04.R3.layout-binding', 'layout-binding', where, f'`binding:` of the layout entry is {E.show(b[2], maxdepth=6) if b else None}', ok_detail='binding = binding.binding_index')
    # ---- R4 names on the group key -------------------------------------------------------------------------------------------------
    impl_ts = E.find_templates(body, lambda t: 'pub fn get_bind_group_layout' in E.tmpl_text(t))
    desc_ts = E.find_templates(body, lambda t: ': wgpu :: BindGroupLayoutDescriptor = wgpu :: BindGroupLayoutDescriptor {' in E.tmpl_text(t))
    rep.check(len(impl_ts) == 1 and len(desc_ts) == 1, 'C04.R4.names', 'impl-and-descriptor', where, f'{len(impl_ts)} impl / {len(desc_ts)} descriptor templates', ok_detail='one each')
    if impl_ts and desc_ts:
        it, dt = impl_ts[0], desc_ts[0]
        txt = E.tmpl_text(it)
        seq = seq_holes(it)
        def nm(anchor):
            h = hole_after_seq(it, anchor)
            return ident_fmt(h) if h is not None else None
        rep.check(nm('impl') == ('BindGroup', G), 'C04.R4.names', 'impl-name', where, f'impl block is for {nm("impl")}', ok_detail='impl BindGroup<N>')
        hs_it = E.holes(it)
        uses = [ident_fmt(hs_it[h_]) if h_ in hs_it else None for h_ in _re.findall(r'create_bind_group_layout \( & #(\w+) \)', txt)]
        rep.check(len(uses) == 2 and all(u == ('LAYOUT_DESCRIPTOR', G) for u in uses), 'C04.R4.names', 'descriptor-uses', where,
                  f'get_bind_group_layout / from_bindings use descriptors {uses}', ok_detail='both use LAYOUT_DESCRIPTOR<N>')
        dn_t = hole_by_regex(dt, r'const #(\w+) : wgpu :: BindGroupLayoutDescriptor =')
        dn = ident_fmt(dn_t) if dn_t is not None else None
        rep.check(dn == ('LAYOUT_DESCRIPTOR', G), 'C04.R4.names', 'descriptor-name', where, f'descriptor constant is named {dn}', ok_detail='const LAYOUT_DESCRIPTOR<N>')
        bl = hole_after_seq(it, 'bindings :')
        rep.check(bl is not None and ident_fmt(bl) == ('BindGroupLayout', G), 'C04.R4.names', 'from-bindings-param', where, f'from_bindings takes {ident_fmt(bl) if bl else None}', ok_detail='bindings: BindGroupLayout<N>')
        rep.check('layout : & bind_group_layout' in txt and 'let bind_group_layout = device . create_bind_group_layout ( & #' in txt, 'C04.R4.uses-layout', 'uses-layout', where,
                  'from_bindings does not build the group with the layout created from this group\'s descriptor', ok_detail='layout: &bind_group_layout (from this descriptor)')
        sg = hole_after_seq(it, 'pass . set_bind_group (')
        want = ('call', 'Literal::usize_unsuffixed', [('cast', G, 'usize')])
        oks = sg is not None and sg[0] == 'call' and sg[1].startswith('Literal::') and strip_cast(sg[2][0]) == G and 'pass . set_bind_group ( #' in txt and ', & self . 0 , & [ ] ) ;' in txt
        rep.check(oks, 'C04.R4.set-index', 'set-index', where, f'`set` binds at {E.show(sg, maxdepth=5) if sg else None}; expected the group\'s own number with &self.0 and no offsets',
                  ok_detail='pass.set_bind_group(N, &self.0, &[])')
        rep.check(txt.count('pass . set_bind_group (') == 1, 'C04.R4.set-index', 'set-once', where, 'set() binds more than once', ok_detail='exactly one set_bind_group call')
    # ---- R5 BindGroups / set_bind_groups ---------------------------------------------------------------------------------------------
    mod_ts = E.find_templates(summ, lambda t: t[3] == q and 'pub mod bind_groups {' in E.tmpl_text(t))
    rep.check(len(mod_ts) == 1, 'C04.anchor', 'module-template', where, f'{len(mod_ts)} `pub mod bind_groups` templates', ok_detail='one')
    if mod_ts:
        mt = mod_ts[0]
        import engine_skel as K
        mtxt = K.static_expand(ogp, mt)      # fixed parts (trait, impls, helper-built items) expanded wherever the source builds them
        KEYS = ('mcall', M, 'keys', [])

        def key_star(pred, label):
            ss = []
            E.walk(mt, lambda x: ss.append(x) if x[0] == 'star' and E.find_templates(x[3], pred) else None)
            ss = [s for s in ss if not (s[1] == M and E.find_templates(s[3], lambda y: y is gt))]
            if len(ss) < 1:
                rep.bad('C04.R5', f'{label}-repetition', where, f'no repetition produces {label}', undecided=True)
                return None
            s = ss[0]
            ok = (s[1] in (KEYS, M) if CARRIER['kind'] == 'map' else s[1] == M) and not s[4] and not s[5]
            rep.check(ok, 'C04.R5.all-groups', f'{label}-source', where, f'{label} are generated from {E.show(s[1], maxdepth=4)} with {len(s[4])} filter(s); expected every key of the group map', ok_detail='for group_no in map.keys()')
            return s
        fs = key_star(lambda t: E.tmpl_text(t).startswith('pub #') and "&'a #" in E.tmpl_text(t), 'BindGroups-fields')
        def key_of(s_):
            e_ = ('elem', s_[2], s_[1])
            if CARRIER['kind'] != 'map':
                return ('f', e_, CARRIER['group_field'])
            return ('tf', e_, 0) if s_[1] == M else e_
        if fs is not None:
            k = key_of(fs)
            t = E.find_templates(fs[3], lambda t: True)[0]
            hv = [ident_fmt(x) for x in E.holes(t).values()]
            rep.check(hv == [('bind_group', k), ('BindGroup', k)], 'C04.R5.names', 'BindGroups-field', where, f'BindGroups field is {hv}', ok_detail='pub bind_group<K>: &BindGroup<K>')
        ps = key_star(lambda t: ': & bind_groups :: #' in E.tmpl_text(t), 'set_bind_groups-parameters')
        if ps is not None:
            k = key_of(ps)
            t = E.find_templates(ps[3], lambda t: True)[0]
            hv = [ident_fmt(x) for x in E.holes(t).values()]
            rep.check(hv == [('bind_group', k), ('BindGroup', k)], 'C04.R5.names', 'set_bind_groups-parameter', where, f'parameter is {hv}', ok_detail='bind_group<K>: &bind_groups::BindGroup<K>')
        ss = key_star(lambda t: E.tmpl_text(t).endswith('. set ( pass ) ;'), 'set-calls')
        if ss is not None:
            k = key_of(ss)
            t = E.find_templates(ss[3], lambda t: True)[0]
            hv = [ident_fmt(x) for x in E.holes(t).values()]
            rep.check(hv == [('bind_group', k)] and E.tmpl_text(t) == '#' + list(E.holes(t))[0] + ' . set ( pass ) ;', 'C04.R5.names', 'set-call', where, f'set call is `{E.tmpl_text(t)}` {hv}', ok_detail='bind_group<K>.set(pass);')
            # used once in BindGroups::set (with self.) and once in set_bind_groups
            n_self = mtxt.count('#( self . #')
            rep.check(n_self == 1 and 'pub fn set < P : SetBindGroup > ( & self , pass : & mut P ) { #( self . #' in mtxt, 'C04.R5.set-once', 'BindGroups-set', where, 'BindGroups::set does not call self.<each group>.set(pass) exactly once', ok_detail='one repetition of self.bind_group<K>.set(pass)')
            sbm = _re.search(r'pub fn set_bind_groups < (\w+) : bind_groups :: SetBindGroup > \( (\w+) : & mut (\w+) , #\( #(\w+) \),\*(?: ,)? \) \{ #\( #(\w+) \)\* \}', mtxt)
            okk = sbm is not None and sbm.group(1) == sbm.group(3) and mtxt.count('pub fn set_bind_groups <') == 1
            rep.check(okk, 'C04.R5.set-once', 'set_bind_groups-body', where, 'set_bind_groups does not consist of one parameter list and one list of set calls', ok_detail='one parameter per group, one set call per group')
        # ---- R6 fixed impls -----------------------------------------------------------------------------------------------------------
        for ty in ('ComputePass', 'RenderPass', 'RenderBundleEncoder'):
            m_ = _re.search(r"impl SetBindGroup for wgpu :: " + ty + r" <'_ > \{ fn set_bind_group \( & mut self , (\w+) : u32 , (\w+) : & wgpu :: BindGroup , (\w+) : & \[ wgpu :: DynamicOffset \] ,? \) "
                            r"\{ self \. set_bind_group \( (\w+) , (\w+) , (\w+) \) ;? \} \}", mtxt)
            okf = m_ is not None and m_.group(1, 2, 3) == m_.group(4, 5, 6)
            rep.check(okf, 'C04.R6.set-bind-group-impls', f'impl:{ty}', where, f'SetBindGroup is not implemented for wgpu::{ty} by positional forwarding of (index, bind_group, offsets)', ok_detail='forwards (index, bind_group, offsets)')
        rep.check(mtxt.count('impl SetBindGroup for') == 3, 'C04.R6.set-bind-group-impls', 'impl-count', where, f'{mtxt.count("impl SetBindGroup for")} implementors', ok_detail='exactly three implementors')
    # ---- R7 pipeline layout -------------------------------------------------------------------------------------------------------------
    tops = [tq for tq in ogp.summaries if any(c[0] == tq and c[1] == q for c in ogp.it.inline_calls)]
    n7 = 0
    for tq in tops:
        tf_ = crate.fns[tq]
        twhere = f"{crate.relfile(tf_['file'])} fn {tf_['name']}"
        top = ogp.summaries[tq]
        pl = E.find_templates(top, lambda t: 'bind_group_layouts : & [' in E.tmpl_text(t))
        if not pl:
            continue
        n7 += 1
        pt = pl[0]
        ptxt = E.tmpl_text(pt)
        # `&[#(&#layouts),*]` with elements `bind_groups::..::get_bind_group_layout(device)`, or `&[#(#layouts),*]` with elements that carry the `&` themselves
        amp_outer = 'bind_group_layouts : & [ #( & #' in ptxt
        amp_inner = 'bind_group_layouts : & [ #( #' in ptxt
        rep.check(amp_outer or amp_inner, 'C04.R7.pipeline-layout', f'layout-list:{tq}', twhere,
                  f'bind_group_layouts is not a repetition of references ({ptxt[max(0, ptxt.find("bind_group_layouts")):][:120]})', ok_detail='&[#(&#layouts),*]')
        ss = []
        E.walk(pt, lambda x: ss.append(x) if x[0] == 'star' and E.find_templates(x[3], lambda t: ':: get_bind_group_layout ( device )' in E.tmpl_text(t)) else None)
        if len(ss) != 1:
            rep.bad('C04.R7.pipeline-layout', f'layout-repetition:{tq}', twhere, f'{len(ss)} repetitions produce group layouts', undecided=True)
            continue
        s = ss[0]
        # the map given to the bind group module in this function
        gstars = []
        E.walk(top, lambda x: gstars.append(x) if x[0] == 'star' and E.find_templates(x[3], lambda y: '( wgpu :: BindGroup ) ;' in E.tmpl_text(y)) else None)
        Mtop = gstars[0][1] if gstars else None
        ok = (s[1] == ('mcall', Mtop, 'keys', []) if CARRIER['kind'] == 'map' else s[1] == Mtop) and not s[4] and not s[5]
        rep.check(ok, 'C04.R7.pipeline-layout', f'layout-order:{tq}', twhere,
                  f'the pipeline layout is generated from {E.show(s[1], maxdepth=5)} with {len(s[4])} filter(s); expected every key of the same ordered group map in key order',
                  ok_detail='for group_no in group_map.keys()')
        k = ('elem', s[2], s[1]) if CARRIER['kind'] == 'map' else ('f', ('elem', s[2], s[1]), CARRIER['group_field'])
        t = E.find_templates(s[3], lambda t: True)[0]
        hv = [ident_fmt(x) for x in E.holes(t).values()]
        want_el = ('' if amp_outer else '& ') + 'bind_groups :: #' + list(E.holes(t))[0] + ' :: get_bind_group_layout ( device )'
        if CARRIER['kind'] != 'map' and s[1][0] == 'new' and 'BTreeMap' in str(s[1][1]):
            k = ('tf', ('elem', s[2], s[1]), 0)      # the conversion to records is inlined here: both repetitions range over the ordered map itself
        rep.check(hv == [('BindGroup', k)] and E.tmpl_text(t) == want_el, 'C04.R7.pipeline-layout', f'layout-element:{tq}', twhere,
                  f'layout element is `{E.tmpl_text(t)}` {hv}', ok_detail='bind_groups::BindGroup<K>::get_bind_group_layout(device)')
    rep.floor('pipeline layout template', n7, 1)
    rep.analysed = {'bind_group_function': q, 'top_level': tops}
    # ---- construction of the map (MIR rules shared with C11) ----------------------------------------------------------------------------
    try:
        from rules import c11
        sub = type(rep)(rep.pid, rep.tier)
        c11.run(sub)
        for o in sub.obs:
            if o.rule.startswith(('C11.R2', 'C11.R1.scan-same-list', 'floor')):
                o.rule = 'C04.map-construction/' + o.rule
                rep.obs.append(o)
    except Exception as ex:
        rep.bad('C04.map-construction', 'mir-rules', '', f'cannot evaluate the construction-site rules: {ex!r}', undecided=True)
    # the section reaches the assembled output unconditionally (shared rule, lib/sections.py)
    from sections import check_wiring
    check_wiring(rep, 'C04.section-wiring', ['pub mod bind_groups', 'get_bind_group_layout ( device )'], 'bind-groups-section')


def contains(term, sub):
    found = [False]

    def f(x):
        if x is sub:
            found[0] = True
            return False
    E.walk(term, f)
    return found[0]


def seq_holes(t):
    return [it for it in t[2] if it[0] == 'hole']


def hole_by_regex(t, regex):
    """term of the hole whose name is captured by group 1 of `regex` on the template's text (None if no match)"""
    m = _re.search(regex, E.tmpl_text(t))
    if not m:
        return None
    hs = E.holes(t)
    return hs.get(m.group(1), hs.get('*' + m.group(1)))


def hole_after_seq(t, anchor):
    items = t[2]
    prefix = ''
    for i, it in enumerate(items):
        if it[0] == 'tok':
            prefix = (prefix + ' ' + it[1]).strip()
            if (' ' + prefix).endswith(' ' + anchor) and i + 1 < len(items) and items[i + 1][0] == 'hole':
                return E.plain_idents(items[i + 1][2])
        else:
            prefix = ''
    return None
