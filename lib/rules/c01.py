"""C01 - the generated module is complete Rust that compiles against wgpu 24.

Clauses decided (none of them runs the generator or compiles a *sampled output*; inputs are the generator's source and the pinned
dependency sources only):
  a  compile witness of the output grammar (Engine C): the extracted grammar (all templates, decision tables, repetitions of the
     assembled output, Engine A) is instantiated on hand-made model IRs under many option sets so that the productions occur in
     self-consistent modules, and the resulting text is type-checked by `cargo check` against the real wgpu 24, bytemuck, encase,
     glam and serde crates (nalgebra: stub).  rustc diagnostics are mapped back to the quote! site.  Template coverage is
     measured and has a floor; unreached templates are listed in the evidence.
  c  identifier hygiene: every identifier built from a WGSL name is classified by its conversion chain - identity (safe iff the
     Rust keyword is reserved in WGSL: the keyword list is compared with naga's reserved-word table read from its source),
     affixed by a literal prefix/suffix (safe), or case-mapped without affix (unsafe: `In` -> `in`);
  d  namespace collisions: the item names the output defines are enumerated as families (scope, namespace, prefix, transform,
     suffix); colliding pairs are reported by exact key;
  e  definition/reference closure: struct names referenced by `impl S` / `S::vertex_buffer_layout` range over types for which a
     struct item is emitted (the C08 predicate) - the known exception is keyed.
Known findings (genuine, not repairable without changing the generated API / editing snapshots) are listed in known_findings.json.
Not decided: that no interaction between independently well-typed productions breaks compilation on inputs outside the modelled
worlds (rustc on each concrete output is the only complete oracle, and that is a dynamic technique)."""
import re
import engine_ogp as E
import engine_skel as K
import schema as S
from conc import Diverge, Unbound

RUST_KEYWORDS = ['as', 'break', 'const', 'continue', 'crate', 'else', 'enum', 'extern', 'false', 'fn', 'for', 'if', 'impl', 'in', 'let', 'loop', 'match', 'mod', 'move', 'mut',
                 'pub', 'ref', 'return', 'self', 'Self', 'static', 'struct', 'super', 'trait', 'true', 'type', 'unsafe', 'use', 'where', 'while', 'async', 'await', 'dyn',
                 'abstract', 'become', 'box', 'do', 'final', 'macro', 'override', 'priv', 'typeof', 'unsized', 'virtual', 'yield', 'try', 'gen']


def worlds(tier):
    ws = []
    a = K.build_world_a()
    for opts, r in K.option_sets(tier):
        ws.append((a, opts, r, True))
    rts = K.build_world_a(rts=True)
    for se in (False, True):
        for bv in (False, True):
            ws.append((rts, {'derive_bytemuck_vertex': bv, 'derive_bytemuck_host_shareable': False, 'derive_encase_host_shareable': True, 'derive_serde': se}, 'Glam', True))
    ws.append((rts, {'derive_bytemuck_vertex': False, 'derive_bytemuck_host_shareable': False, 'derive_encase_host_shareable': True, 'derive_serde': False}, 'Rust', True))
    mn = K.build_world_min()
    ws.append((mn, dict(zip(K.OPTION_FIELDS, [False] * 4)), 'Rust', True))
    ws.append((mn, dict(zip(K.OPTION_FIELDS, [True] * 4)), 'Glam', False))
    vo = K.build_world_vertex_only()
    ws.append((vo, dict(zip(K.OPTION_FIELDS, [True, False, False, True])), 'Nalgebra', False))
    ws.append((a, dict(zip(K.OPTION_FIELDS, [False] * 4)), 'Rust', False))
    zoo = K.build_world_leaf_zoo()
    for r in K.REPRS if hasattr(K, 'REPRS') else ('Rust', 'Glam', 'Nalgebra'):
        ws.append((zoo, dict(zip(K.OPTION_FIELDS, [False] * 4)), r, True))
    ws.append((zoo, dict(zip(K.OPTION_FIELDS, [False, False, False, True])), 'Glam', True))
    for kind_ in ('optional', 'required'):
        ow = K.build_world_overrides(kind_)
        ws.append((ow, dict(zip(K.OPTION_FIELDS, [False] * 4)), 'Rust', True))
    ws.append((K.build_world_bare(), dict(zip(K.OPTION_FIELDS, [True, True, False, False])), 'Rust', True))
    vp = K.build_world_vertex_plain()
    ws.append((vp, dict(zip(K.OPTION_FIELDS, [False] * 4)), 'Rust', True))
    ws.append((vp, dict(zip(K.OPTION_FIELDS, [False, False, False, True])), 'Glam', True))
    return ws


def run(rep):
    ogp = E.load()
    sch = S.load()
    rep.explanation = __doc__
    rep.trusted = ['syn parser and the abstract semantics of Engine A; the term evaluator of Engine C', 'rustc + the pinned wgpu/bytemuck/encase/glam/serde crates as the typing oracle',
                   'nalgebra rows only at token level (C06); model IRs cover the modelled resource kinds only']
    q, out = K.find_output_template(ogp)
    rep.floor('template assembling the sections of the output', 1 if out else 0, 1)
    if out is None:
        return
    f = ogp.crate.fns[q]
    where = f"{ogp.crate.relfile(f['file'])} fn {f['name']} (template at {out[1]})"
    all_ids = K.all_template_ids(out)
    # ---- a: skeleton --------------------------------------------------------------------------------------------------------------
    mods = []
    rendered = set()
    n_worlds = 0
    wl = worlds(rep.tier)
    for i, (model, opts, r, embed) in enumerate(wl):
        label = f'{model.name}/{r}/' + ''.join('1' if opts[k] else '0' for k in K.OPTION_FIELDS) + ('' if embed else '/include')
        try:
            text, ev = K.render_world(ogp, q, out, model, opts, r, embed)
        except Diverge as d:
            rep.bad('C01.a.skeleton', f'world-panics:{label}', where, f'the extracted grammar diverges (panic path) on the model world {label}: {d}')
            continue
        except Unbound as u:
            rep.bad('C01.a.skeleton', f'world-undecided:{label}', where, f'cannot instantiate the grammar on the model world {label}: {u}', undecided=True)
            continue
        n_worlds += 1
        rendered |= set(ev.rendered)
        mods.append((label, text))
    rep.floor('model worlds instantiated', n_worlds, len(wl))
    lib = ['#![allow(warnings)]', '// generated by /verif/lib/rules/c01.py from the output grammar of /repo - do not edit']
    spans = []
    for i, (label, text) in enumerate(mods):
        start = sum(x.count('\n') + 1 for x in lib) + 1
        lib.append(f'pub mod w{i} {{ // {label}\n{text}\n}}')
        spans.append((start, label))
    src = '\n'.join(lib) + '\n'
    open(K.os.path.join(K.SKEL_SRC, 'src', 'shader.wgsl'), 'w').write('@fragment fn fs_main() {}\n')
    ok, diags, raw = K.cargo_check(src)
    lines = src.split('\n')
    if not ok and not diags:
        rep.bad('C01.a.skeleton', 'cargo-check', where, f'cargo check of the skeleton failed without diagnostics: {raw[-600:]}', undecided=True)
    seen = set()
    for ln, msg, code in diags:
        # nearest marker at or before the line
        tid, wlabel = '?', '?'
        for j in range(min(ln, len(lines)) - 1, -1, -1):
            m = re.search(r'/\*@([^*]+)\*/', lines[j])
            if m:
                ms = re.findall(r'/\*@([^*]+)\*/', lines[j])
                tid = ms[-1] if j < ln - 1 else ms[0]
                break
        for st, lab in spans:
            if st <= ln:
                wlabel = lab
        key = f'skeleton:{tid}:{code or "syntax"}'
        if key in seen:
            continue
        seen.add(key)
        snippet = lines[ln - 1].strip()[:160] if 0 < ln <= len(lines) else ''
        rep.bad('C01.a.skeleton', key, f'{tid} (quote! site) in model world {wlabel}',
                f'the production does not type-check against the real crates: {msg[:300]} [{code}] at `{snippet}`')
    if ok:
        rep.ok('C01.a.skeleton', 'skeleton:cargo-check', where, f'{len(mods)} instantiated modules ({src.count(chr(10))} lines) type-check against wgpu/bytemuck/encase/glam/serde')
    cov = len(rendered & all_ids)
    rep.info['templates_in_grammar'] = len(all_ids)
    rep.info['templates_instantiated'] = cov
    rep.info['templates_not_instantiated'] = sorted(all_ids - rendered)
    rep.info['model_worlds'] = [l for l, _ in mods]
    rep.floor('templates of the grammar instantiated in some world', cov, int(0.93 * len(all_ids)))
    for tid in sorted(all_ids):
        if tid in rendered:
            rep.ok('C01.a.production', f'production:{tid}', tid, 'instantiated and type-checked' if ok else 'instantiated')
    rep.analysed = {'output_template': out[1], 'templates': len(all_ids), 'worlds': len(mods), 'skeleton_lines': src.count('\n')}
    # ---- c / d / e -------------------------------------------------------------------------------------------------------------------
    hygiene(rep, ogp, sch, out, where)
    if mods:
        a_model = next((m_ for (m_, o_, r_, e_) in wl if m_.name == 'kitchen_sink'), None)
        a_text = next((t_ for l_, t_ in mods if l_.startswith('kitchen_sink/')), None)
        if a_model is not None and a_text is not None:
            collisions(rep, ogp, out, where, a_text, a_model)
    reference_closure(rep, ogp, where)
    derive_limits(rep, ogp, sch, where)
    # the section reaches the assembled output unconditionally (shared rule, lib/sections.py)
    from sections import check_wiring
    check_wiring(rep, 'C01.section-wiring', [''], 'all-sections')


def conversion_chain(term):
    """classify how a WGSL name reaches Ident::new: ('identity'|'affixed'|'case-mapped'|'other', detail)"""
    arg = term[2][0]
    tl = table_literals(arg)
    if tl is not None:
        bad = [x for x in tl if not re.fullmatch(r'[A-Za-z_][A-Za-z0-9_]*', x) or x in RUST_KEYWORDS]
        return ('literal', 'identifier spelled in a constant table of the generator source') if not bad else ('other', f'table literal {bad[0]!r} is not an identifier')
    dyn = [False]
    E.walk(arg, lambda x: dyn.__setitem__(0, True) if x[0] in ('param', 'idx', 'vf', 'unwrap', 'mcall', 'call', 'new', 'acc', 'unknown', 'reccall', 'callv') else None)
    if not dyn[0]:
        return 'literal', 'identifier spelled in the generator source'
    if arg[0] == 'fmt':
        tmpl = arg[1]
        lit = re.sub(r'\{[^}]*\}', '', tmpl)
        if ':?' in tmpl and not lit:
            return 'debug-name', tmpl   # Debug name of an enum variant: an identifier by construction
        if re.search(r'[A-Za-z0-9]_|_[A-Za-z0-9]|[0-9]', lit) or (lit and lit[0].isupper()):
            return 'affixed', tmpl
        lits = [a for a in arg[2] if a[0] == 'lit']
        if lits and re.search(r'[A-Za-z]', str(lits[0][2])):
            return 'affixed', tmpl + ' with literal ' + str(lits[0][2])
        return 'other', tmpl
    if arg[0] == 'mcall' and arg[2] in ('to_snake', 'to_uppercase', 'to_lowercase', 'to_camel'):
        return 'case-mapped', arg[2]
    if arg[0] == 'unwrap' or arg[0] == 'f':
        return 'identity', E.show(arg, maxdepth=3)
    if arg[0] == 'alt':
        return 'identity', E.show(arg, maxdepth=3)
    return 'other', E.show(arg, maxdepth=3)


def table_literals(arg):
    """the string literals an identifier can be when it is one column of a row selected from a constant list of tuples
    (`TABLE.iter().find(|row| ..).map(|(.., name)| Ident::new(name, ..))`); None when the term is anything else"""
    while arg[0] in ('unwrap', 'cast'):
        arg = arg[1]
    if arg[0] != 'tf':
        return None
    base, i = arg[1], arg[2]
    while base[0] == 'unwrap':
        base = base[1]
    src = None
    if base[0] == 'found' and base[1][0] == 'star' and base[1][3][0] == 'elem' and base[1][3][1] == base[1][2]:
        src = base[1][1]
    elif base[0] == 'elem':
        src = base[2]
    if src is None or src[0] != 'tuple' or not src[1]:
        return None
    out = []
    for row in src[1]:
        if row[0] != 'tuple' or i >= len(row[1]) or row[1][i][0] != 'lit' or not isinstance(row[1][i][2], str):
            return None
        out.append(row[1][i][2].strip('"'))
    return out


def hygiene(rep, ogp, sch, out, where):
    # c: identifier sites
    sites = {}

    def f(x):
        if x[0] == 'call' and x[1] == 'Ident::new' and x[2]:
            kind, detail = conversion_chain(x)
            sites.setdefault((kind, detail), 0)
            sites[(kind, detail)] += 1
        if x[0] == 'mcall' and x[2] == 'parse' and x[3] == []:
            sites.setdefault(('identity', 'str::parse::<TokenStream>'), 0)
            sites[('identity', 'str::parse::<TokenStream>')] += 1
    E.walk(out, f)
    rep.info['identifier_sites'] = {f'{k[0]}:{k[1]}': v for k, v in sorted(sites.items())}
    unreserved = [k for k in RUST_KEYWORDS if k not in sch.wgsl_reserved and k not in ('self', 'Self', 'crate', 'super', 'true', 'false')]
    rep.info['rust_keywords_not_reserved_in_wgsl'] = unreserved
    has_identity = any(k[0] == 'identity' for k in sites)
    for kw in unreserved:
        if has_identity:
            rep.bad('C01.c.keyword-identifier', f'kw:{kw}', where,
                    f'`{kw}` is a Rust keyword that naga\'s WGSL front end does not reserve: a struct member / variable / constant / override of that name reaches Ident::new unchanged and the '
                    f'output does not parse (pretty_print panics, or non-compiling text is returned with rustfmt)')
    for (kind, detail), n in sorted(sites.items()):
        if kind == 'case-mapped':
            rep.bad('C01.c.case-mapped-identifier', f'ident:{detail}:no-affix', where,
                    f'{n} identifier site(s) apply `{detail}` to a WGSL name without a literal affix: the result can be a Rust keyword (struct `In` -> parameter `in`) or collide for names '
                    f'that differ only by case')
        elif kind == 'other':
            rep.bad('C01.c.identifier-chain', f'ident:unclassified:{detail[:40]}', where, f'cannot classify the conversion chain `{detail}` of an identifier', undecided=True)
        else:
            rep.ok('C01.c.identifier-chain', f'ident:{kind}:{detail[:50]}', where, f'{n} site(s)')
    rep.floor('identifier construction sites classified', sum(sites.values()), 20)
    # d / e are derived below from an instantiated world (names at module top level) and from the C07/C08 predicates
    return sites


def scan_items(text):
    """top-level items of a rendered module: (kind, name) at brace depth 0"""
    text = re.sub(r'/\*@[^*]*\*/', ' ', text)
    toks = re.findall(r"[A-Za-z_][A-Za-z0-9_]*|'[a-z_]+|[{}();]|::|[^\sA-Za-z0-9_]", text)
    depth = 0
    items = []
    i = 0
    while i < len(toks):
        t = toks[i]
        if t == '{':
            depth += 1
        elif t == '}':
            depth -= 1
        elif depth == 0 and t in ('struct', 'fn', 'const', 'mod', 'trait', 'static', 'type', 'enum') and i + 1 < len(toks) and re.match(r'[A-Za-z_]', toks[i + 1]):
            generic_param = t == 'const' and i > 0 and toks[i - 1] in ('<', ',')
            if not (t == 'const' and toks[i + 1] == '_') and not generic_param:
                items.append((t, toks[i + 1]))
        i += 1
    return items


def collisions(rep, ogp, out, where, world_text, model):
    items = scan_items(world_text)
    model_structs = {ty.fields['name'][1] for _, ty in model.types if ty.fields['name'] is not None}
    model_consts = {c.fields['name'][1] for _, c in model.constants if c.fields['name'] is not None}
    entries = {e.fields['name'] for e in model.entry_points}
    fixed_types = sorted({n for k, n in items if k in ('struct', 'mod', 'trait', 'type', 'enum') and n not in model_structs})
    fixed_values = sorted({n for k, n in items if k in ('fn', 'const', 'static') and n not in model_consts and not any(e in n or e.upper() in n for e in entries)})
    has_user_struct = any(k == 'struct' and n in model_structs for k, n in items)
    has_user_const = any(k == 'const' and n in model_consts for k, n in items)
    rep.info['top_level_fixed_type_names'] = fixed_types
    rep.info['top_level_fixed_value_names'] = fixed_values
    plain = re.sub(r'/\*@[^*]*\*/', ' ', world_text)
    relied = [n for n in ('Vec', 'Option', 'Default', 'String') if re.search(r'(?<![:\w])' + n + r'\b', plain)]
    if has_user_struct:
        for n in fixed_types + relied:
            rep.bad('C01.d.name-collision', f'clash:{{struct}}~{n}', where,
                    f'user structs are emitted at the top level under their own WGSL names, where the output also defines / relies on the unqualified name `{n}`: `struct {n} {{..}}` in the shader makes the module ambiguous / not compile')
    if has_user_const:
        for n in fixed_values + ['Some', 'None']:
            rep.bad('C01.d.name-collision', f'clash:{{const}}~{n}', where,
                    f'user constants are emitted at the top level under their own WGSL names, next to the generated item `{n}`: `const {n} = ..;` in the shader yields a duplicate definition')
        rep.bad('C01.d.name-collision', 'clash:{const}~ENTRY_{UPPER}', where, 'a WGSL constant named like an `ENTRY_<NAME>` constant collides with it')
        rep.bad('C01.d.name-collision', 'clash:{const}~{entry}_entry', where, 'a WGSL constant / function-like name `<entry>_entry` collides with the entry helper of that name')
    # non-injective families: identifier built with to_uppercase / to_snake of a name
    noninj = set()

    def f(x):
        if x[0] == 'call' and x[1] == 'Ident::new' and x[2] and x[2][0][0] == 'fmt':
            for a in x[2][0][2]:
                if a[0] == 'mcall' and a[2] in ('to_uppercase', 'to_lowercase', 'to_snake'):
                    noninj.add(x[2][0][1].replace('{}', '{' + a[2] + '}'))
        if x[0] == 'call' and x[1] == 'Ident::new' and x[2] and x[2][0][0] == 'mcall' and x[2][0][2] in ('to_snake', 'to_uppercase'):
            noninj.add('{' + x[2][0][2] + '}')
    E.walk(out, f)
    for fam in sorted(noninj):
        rep.bad('C01.d.name-collision', f'clash:{fam}~self', where,
                f'identifiers of the family `{fam}` are built with a case mapping that is not injective: two names that differ only by case (`Main` / `main`) give the same identifier (duplicate definition)')


def reference_closure(rep, ogp, where):
    """every struct that gets `impl S {{ VERTEX_ATTRIBUTES }}` (struct argument of a vertex entry: atom B holds) must also get `pub struct S`
    (C08 predicate (not A and B) or C): fails exactly when the struct is also some entry point's result type and not reachable from a variable"""
    try:
        from rules import c08
        from conc import Eval
        pred, atoms = c08.selection_predicate(ogp)
    except Exception as ex:
        rep.bad('C01.e.definition-reference', 'refclosure:undecided', where, f'cannot extract the struct selection predicate: {ex!r}', undecided=True)
        return
    if pred is None:
        rep.bad('C01.e.definition-reference', 'refclosure:undecided', where, 'cannot extract the struct selection predicate', undecided=True)
        return
    for va, vc in ((False, False), (True, False), (False, True), (True, True)):
        leaf = atoms.leaf(True, va, True, vc)
        emitted = Eval(leaf, lenient=False).truth(pred)
        key = 'refclosure:impl-without-struct:vertex-arg∧entry-result' if (va and not vc) else f'refclosure:vertex-arg:A={int(va)},C={int(vc)}'
        rep.check(emitted, 'C01.e.definition-reference', key, where,
                  f'a struct that is a parameter of a vertex entry point [also an entry result={va}, reachable from a variable={vc}] gets `impl S {{ VERTEX_ATTRIBUTES .. }}` and '
                  f'`S::vertex_buffer_layout(..)` references but no `pub struct S` item: valid WGSL such as `@vertex fn vs(v: Shared)` + `@fragment fn fs() -> Shared` yields a module that does not compile',
                  ok_detail='struct item emitted')


def derive_limits(rep, ogp, sch, where):
    import leaf_tables as LT
    from conc import Eval, V
    qs = LT.find_type_fn(ogp)
    if not qs:
        return
    # f64 leaves under the encase derive
    try:
        txt = LT.eval_type(ogp, qs[0], V('naga::TypeInner::Scalar', **{'0': LT.scalar_v('Float', 8)}), 'Rust')
    except Exception:
        txt = None
    eg = sch.encase_glam or {'vectors': {}}
    if txt == 'f64' and 'f64' not in set(eg['vectors'].values()):
        rep.bad('C01.a.derive-limit', 'derive:encase::ShaderType×f64', where,
                'the type table maps f64 members to `f64` / `glam::DVec*` / `glam::DMat*`, for which encase 0.10 has no ShaderType implementation: a host-shareable struct with an f64 member does not '
                'compile when derive_encase_host_shareable is on')
    summ = ogp.summaries[qs[0]]
    has_array = any('TypeInner::Array' in E.show(c, maxdepth=3) for c, _ in summ[1])
    if has_array:
        rep.bad('C01.a.derive-limit', 'derive:serde×array>32', where,
                'fixed arrays are emitted as `[T; N]` for any N and the serde derives do not depend on the member types: serde implements Serialize/Deserialize for arrays up to length 32 only, so '
                '`array<T, 33>` with derive_serde does not compile')


def families(out):
    fams = []
    txts = []
    E.walk(out, lambda x: txts.append(E.tmpl_text(x)) if x[0] == 'tmpl' else None)
    for t in txts:
        for m in re.finditer(r'pub (struct|fn|const|mod|trait) ([A-Za-z_][A-Za-z0-9_]*)', t):
            ns = 'type' if m.group(1) in ('struct', 'mod', 'trait') else 'value'
            scope = 'top'
            fams.append((scope, ns, m.group(2)))
        if re.search(r'pub struct #[a-z_]+ \{', t) and 'derive ( #(' in t:
            fams.append(('top', 'type', '{struct}'))
        if re.match(r'pub const #[a-z_]+ : #', t):
            fams.append(('top', 'value', '{const}'))
    fams.append(('top', 'value', 'ENTRY_{UPPER}'))
    fams.append(('compute', 'value', '{UPPER}_WORKGROUP_SIZE'))
    out_ = []
    for x in fams:
        if x not in out_:
            out_.append(x)
    return out_
