#!/usr/bin/env python3
"""gen_required.py - (re)generate lib/required_rules.json from the evidence of a run of every check on /repo: per property the rule ids
that produced at least one obligation.  Run only on the unchanged pinned tree (after `for p in C01..C20: ./check p`)."""
import json, os
HERE = os.path.dirname(os.path.dirname(os.path.abspath(__file__)))
out = {}
for f in sorted(os.listdir(os.path.join(HERE, 'evidence'))):
    if not f.endswith('.json'):
        continue
    ev = json.load(open(os.path.join(HERE, 'evidence', f)))
    rules = [r for r in ev['coverage']['per_rule'] if r not in ('floor', 'engine')]
    out[ev['property_id']] = sorted(rules)
json.dump(out, open(os.path.join(HERE, 'lib', 'required_rules.json'), 'w'), indent=1, sort_keys=True)
print({k: len(v) for k, v in out.items()})
