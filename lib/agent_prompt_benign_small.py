#!/usr/bin/env python3
"""agent_prompt_benign_small.py <worktree> <n> <theme...>  - prompt of a sub-agent that writes <n> behaviour-preserving refactorings (no property text is
needed: the output of the generator must stay byte-identical for every input)."""
import sys
wt = sys.argv[1]
n = int(sys.argv[2])
theme = ' '.join(sys.argv[3:])
print(f"""You are working on a scratch git worktree of the open-source Rust project wgsl_to_wgpu (a build-time code generator that parses WGSL shaders with naga and emits Rust wgpu bindings). The worktree is at {wt} (library crate in {wt}/wgsl_to_wgpu, an example crate in {wt}/example). Work ONLY inside {wt}. Never read or write /repo or /verif. The sandbox has no network: always pass --offline to cargo and set CARGO_TARGET_DIR={wt}/target for every cargo command. The existing test suite is `cd {wt} && CARGO_TARGET_DIR={wt}/target cargo test --workspace --no-fail-fast --offline` (53 tests + 3 doctests, they pass now; rustfmt is on PATH and some tests use it).

This is robustness research on the project's verification tooling: I need realistic BEHAVIOUR-PRESERVING refactorings of the library's non-test source (files under {wt}/wgsl_to_wgpu/src, outside #[cfg(test)] modules; do not edit tests, snapshots or test data), to find out whether independent checks wrongly raise an alarm on code that is still correct.

Produce {n} DIFFERENT, independent SMALL edits (each 1 to 15 changed lines, each applying on its own to a clean checkout), of the kind a maintainer or a reviewer's suggestion produces in ordinary work: renamed locals or helper functions, swapped independent statements, an inverted `if` with swapped branches, `match` <-> `if let`, an iterator chain <-> a `for` loop, `filter_map` <-> `filter` + `map`, a hoisted or inlined sub-expression, an early return <-> nested `if`, a split or merged `quote!`, a changed but equivalent comparison (`!x.is_empty()` <-> `x.len() > 0`), a clippy-style simplification, `as_ref()` / `clone()` shuffles, a helper function extracted from or inlined into one caller, a `let` moved closer to its use, a closure turned into a `fn`. Spread them over ALL source files and as many different functions as possible. Theme for this batch: {theme}
Each refactoring must
  (a) compile without new warnings, and the whole existing suite must pass unchanged, and
  (b) leave the generator's behaviour EXACTLY unchanged: for every WGSL input and every combination of options the returned text (or the returned error, or the panic) is byte-identical to the unchanged tree, the running time stays of the same order, no new state, no new process or file access, and
  (c) be written in the code base's style, as you would submit it for review.
To convince yourself of (b), write a differential test (e.g. wgsl_to_wgpu/tests/diff.rs, or an example binary) that generates output for a large family of shaders x option combinations (vary: bindings in several groups with sparse / unordered indices, textures and samplers of many kinds, nested structs, arrays, runtime arrays, vertex inputs with builtins, several entry points per stage sharing helper functions in chains and diamonds, overrides with and without @id / defaults, push constants, constants incl. negative / zero / extreme values, invalid shaders, duplicate bindings, group gaps) and compares a hash of every result between the unchanged tree and the refactored tree (record the hashes from the unchanged tree first, e.g. into a file under {wt}/out/, then compare). Only keep refactorings whose hashes are all identical.

Deliver, for refactoring i = 1..{n}, a directory {wt}/out/<i>/ containing:
  - patch.diff : `git diff` of the library source change only (must apply with `git apply` to a clean checkout of this worktree's HEAD)
  - notes.md   : what was refactored and why it is behaviour-preserving, the exact commands you ran, number of (shader x options) cases compared and the outcome
When finished, restore the worktree source to a clean state (git checkout -- . ; remove your test files from the tree; keep only {wt}/out/). Finally reply with a short summary: one paragraph per refactoring.""")
