"""Shared MIR rule: option values travel between crate functions unchanged.

Every call from a crate function to a crate function that takes a `WriteOptions` (by value or by reference) passes the caller's own
`WriteOptions` parameter itself - never a rebuilt / updated copy (`WriteOptions { validate: None, ..options }`), never a default.  Otherwise a
public wrapper or an intermediate helper could switch an option on or off behind the caller's back: a part of the output would change that the
option does not document (C09), validation would silently not run (C17), or the formatter choice would be overridden (C19)."""
from engine_mir import Mir, op_place
from mirutil import cname, canon


def check_option_passthrough(rep, rule, ty='WriteOptions'):
    mir = Mir()
    n = 0
    for cn, cb in sorted(mir.bodies.items()):
        for bb, t in cb.calls():
            callee = cname(t)
            B = mir.bodies.get(callee)
            if B is None or B.kind == 'Closure':
                continue
            for j in range(B.arg_count):
                lty = B.locals[j + 1]
                if ty not in lty or j >= len(t['args']):
                    continue
                n += 1
                a = t['args'][j]
                r = canon(cb, op_place(a)) if op_place(a) else None
                # closures read the options through their captured environment: the root is then local 1 (the closure itself)
                own = r is not None and 1 <= r[0] <= cb.arg_count and (ty in cb.locals[r[0]] or cb.kind == 'Closure') and \
                    all(seg in ('', '&', '*') for seg in [r[1].replace('&', '').replace('*', '')] if cb.kind != 'Closure')
                if not own and r is not None and r[1].replace('&', '').replace('*', '').count('.') >= 1 and r[0] > cb.arg_count:
                    # the options read back out of a context record (`context.options` with `context = ShaderContext::new(&module, options)?`): the
                    # record was built by a crate function that was handed this function's own options (what it stored is judged by the
                    # options-in-record obligations below)
                    try:
                        _, calls_, _ = cb.backward_slice([r[0]])
                    except Exception:
                        calls_ = []
                    for _, c_ in calls_:
                        B2 = mir.bodies.get(cname(c_))
                        if B2 is None or B2.kind == 'Closure':
                            continue
                        for j2 in range(B2.arg_count):
                            if ty in B2.locals[j2 + 1] and j2 < len(c_['args']) and op_place(c_['args'][j2]):
                                r2 = canon(cb, op_place(c_['args'][j2]))
                                if 1 <= r2[0] <= cb.arg_count and ty in cb.locals[r2[0]] and r2[1].replace('&', '').replace('*', '') == '':
                                    own = True
                rep.check(own, rule, f'options-passthrough:{cn}->{callee.split("::")[-1]}', cb.where(bb),
                          f'{cn} does not hand its own `{ty}` parameter unchanged to {callee} (argument root {r}): an option is changed on the way, so the output / the gates '
                          f'no longer follow the options the caller gave', ok_detail=f'{ty} forwarded unchanged')
    # the options may also travel inside a context record (`StructContext { module, options, .. }`): whatever is put into such a record is the
    # function's own parameter, unchanged
    from engine_mir import op_local
    for cn, cb in sorted(mir.bodies.items()):
        for bb, blk in enumerate(cb.blocks):
            for st in blk['stmts']:
                rv = st['rv']
                if rv['rk'] != 'aggregate' or rv['agg'].startswith('closure:') or rv['agg'].split('::')[-1] == ty or rv['agg'].startswith(('tuple', 'array')):
                    continue
                for o in rv.get('ops', []):
                    l = op_local(o)
                    if l is None or ty not in cb.locals[l] or 'Option<' in cb.locals[l]:
                        continue
                    r = canon(cb, op_place(o))
                    own = 1 <= r[0] <= cb.arg_count and (ty in cb.locals[r[0]] or cb.kind == 'Closure')
                    rep.check(own, rule, f'options-in-record:{cn}:{rv["agg"].split("::")[-1]}', cb.where(bb),
                              f'{cn} stores a `{ty}` that is not its own parameter (root {r}) in {rv["agg"]}: the functions reading the options from that record see '
                              f'changed options', ok_detail=f'{ty} stored unchanged')
    rep.floor(f'calls between crate functions that carry a {ty}', n, 2)


def check_one_module(rep, rule):
    """every section is generated from the one module that was parsed (and validated): a crate function that owns a `naga::Module` owns exactly
    one, and every crate-internal call that takes a `&naga::Module` receives that module or the caller's own module parameter"""
    mir = Mir()
    n = 0
    for cn, cb in sorted(mir.bodies.items()):
        owned = [i for i, ty in enumerate(cb.locals) if ty == 'naga::Module' and i > cb.arg_count]
        # temporaries that only carry the value out of a Result (`?`) share their origin with the named local: count distinct producers
        producers = set()
        for i in owned:
            for _, kind, x in cb.defs().get(i, []):
                if kind == 'call':
                    producers.add(('call', x.get('span', {}).get('line'), cname(x)))
                elif kind == 'assign' and x['rv']['rk'] == 'use':
                    ps = cb.rvalue_places(x['rv'])
                    if ps:
                        producers.add(('from', canon(cb, ps[0])[0]))
        calls_out = [c for c in producers if c[0] == 'call']
        if owned:
            n += 1
            roots = {canon(cb, {'l': i, 'p': []})[0] for i in owned}
            parse_calls = [t for _, t in cb.calls() if cname(t).endswith(('wgsl::parse_str', 'Frontend::parse')) or
                           (cname(t) in mir.bodies and mir.bodies[cname(t)].locals[0].replace(' ', '').startswith(('std::result::Result<naga::Module', 'naga::Module')))]
            rep.check(len(parse_calls) <= 1, rule, f'one-module:{cn}', cb.where(),
                      f'{cn} holds modules from {len(parse_calls)} different parse / load calls: sections generated from different modules need not fit together '
                      f'(bindings, stages, structs of one shader and entry points of another)', ok_detail='one parsed module')
        for bb, t in cb.calls():
            callee = cname(t)
            B = mir.bodies.get(callee)
            if B is None or B.kind == 'Closure':
                continue
            for j in range(B.arg_count):
                if B.locals[j + 1].replace(' ', '') not in ('&naga::Module', '&mutnaga::Module') or j >= len(t['args']):
                    continue
                n += 1
    rep.floor('functions owning / passing a naga::Module', n, 1)
