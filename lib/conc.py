"""Finite-domain evaluation of extracted terms (decision tables, templates): a table lookup in the OGP, not an execution of
the generator.  Leaves (the scrutinised IR values) are bound to concrete points of an enumerated domain."""
import re


class Diverge(Exception):
    def __init__(self, kind, line):
        super().__init__(f'{kind} at line {line}')
        self.kind, self.line = kind, line


class Unbound(Exception):
    def __init__(self, term):
        from engine_ogp import show
        super().__init__('unbound: ' + show(term, maxdepth=5))
        self.term = term


class V:
    """concrete enum / struct value"""
    __slots__ = ('path', 'fields')

    def __init__(self, path, **fields):
        self.path = path
        self.fields = fields

    @property
    def name(self):
        return self.path.rsplit('::', 1)[-1]

    def __eq__(self, o):
        # `repr` (the discriminant value of a fieldless enum variant, used by `as` casts) is determined by the variant: not part of the identity
        return isinstance(o, V) and tail2(self.path) == tail2(o.path) and {k: v for k, v in self.fields.items() if k != 'repr'} == {k: v for k, v in o.fields.items() if k != 'repr'}

    def __hash__(self):
        return hash((tail2(self.path), tuple(sorted((k, repr(v)) for k, v in self.fields.items() if k != 'repr'))))

    def __repr__(self):
        if not self.fields:
            return self.name
        return self.name + '{' + ', '.join(f'{k}: {v!r}' for k, v in self.fields.items()) + '}'


class Flags:
    def __init__(self, ty, bits):
        self.ty, self.bits = ty, frozenset(bits)

    def __eq__(self, o):
        return isinstance(o, Flags) and self.bits == o.bits

    def __hash__(self):
        return hash(self.bits)

    def __repr__(self):
        return '|'.join(sorted(self.bits)) or 'empty'

    def __or__(self, o):
        return Flags(self.ty, self.bits | o.bits) if isinstance(o, Flags) else NotImplemented

    def __and__(self, o):
        return Flags(self.ty, self.bits & o.bits) if isinstance(o, Flags) else NotImplemented

    def __xor__(self, o):
        return Flags(self.ty, self.bits ^ o.bits) if isinstance(o, Flags) else NotImplemented

    def __sub__(self, o):
        return Flags(self.ty, self.bits - o.bits) if isinstance(o, Flags) else NotImplemented


def tail2(p):
    return '::'.join(p.split('::')[-2:])


def same_variant(a, b):
    return tail2(a) == tail2(b) or a.split('::')[-1] == b and '::' not in b or b.split('::')[-1] == a and '::' not in a


class Eval:
    def __init__(self, leaf, flag_types=None, lenient=True):
        self.leaf = leaf
        self.flag_types = flag_types or {}
        self.lenient = lenient

    def ev(self, t):
        r = self.leaf(t)
        if r is not None:
            return r[0]
        k = t[0]
        m = getattr(self, 'ev_' + k, None)
        if m is None:
            raise Unbound(t)
        return m(t)

    # conditions
    def ev_true(self, t):
        return True

    def ev_false(self, t):
        return False

    def ev_not(self, t):
        return not self.truth(t[1])

    def ev_and(self, t):
        return all(self.truth(c) for c in t[1])

    def ev_or(self, t):
        return any(self.truth(c) for c in t[1])

    def ev_t(self, t):
        return self.ev(t[1])

    def ev_okcond(self, t):
        return self.truth(t[1])

    def truth(self, c):
        v = self.ev(c)
        if isinstance(v, bool):
            return v
        raise Unbound(c)

    def ev_is(self, t):
        v = self.ev(t[1])
        want = t[2]
        if v is None:
            return want.split('::')[-1] == 'None'
        if isinstance(v, tuple) and v and v[0] == 'some':
            return want.split('::')[-1] == 'Some'
        if isinstance(v, V):
            return same_variant(v.path, want)
        if isinstance(v, bool):
            return str(v).lower() == want
        raise Unbound(t)

    def ev_eq(self, t):
        return self.ev(t[1]) == self.ev(t[2])

    def ev_vf(self, t):
        v = self.ev(t[1])
        if isinstance(v, V):
            if t[3] in v.fields:
                return v.fields[t[3]]
            raise Unbound(t)
        if isinstance(v, tuple) and v and v[0] == 'some':
            return v[1]
        raise Unbound(t)

    def ev_f(self, t):
        v = self.ev(t[1])
        if isinstance(v, V) and t[2] in v.fields:
            return v.fields[t[2]]
        raise Unbound(t)

    def ev_tf(self, t):
        v = self.ev(t[1])
        if isinstance(v, (tuple, list)):
            return v[t[2]]
        raise Unbound(t)

    def ev_unwrap(self, t):
        v = self.ev(t[1])
        if isinstance(v, tuple) and v and v[0] == 'some':
            return v[1]
        if v is None:
            raise Diverge('unwrap on None', 0)
        return v

    def ev_opt(self, t):
        return ('some', self.ev(t[2])) if self.truth(t[1]) else None

    # a lookup in a literal table of the crate (`TABLE.iter().find(|row| row.0 == key)`, `.any(..)`): the rows are values, the element is bound row by row
    def _rows(self, star):
        src = self.ev(star[1])
        if not isinstance(src, (tuple, list)) or (isinstance(src, tuple) and src and src[0] == 'some'):
            raise Unbound(star)
        return list(src)

    def ev_elem(self, t):
        b = getattr(self, '_elems', {})
        if t[1] in b:
            return b[t[1]]
        raise Unbound(t)

    def _selected(self, star):
        if star[0] != 'star' or star[5]:
            raise Unbound(star)
        self.__dict__.setdefault('_elems', {})
        for row in self._rows(star):
            saved = self._elems.get(star[2], self)
            self._elems[star[2]] = row
            try:
                if all(self.truth(c) for c in star[4]):
                    yield row
            finally:
                if saved is self:
                    self._elems.pop(star[2], None)
                else:
                    self._elems[star[2]] = saved

    def ev_found(self, t):
        star = t[1]
        for row in self._selected(star):
            self._elems[star[2]] = row
            try:
                return self.ev(star[3])
            finally:
                self._elems.pop(star[2], None)
        raise Diverge('nothing found', 0)

    def ev_any(self, t):
        star, cond = t[1], t[2]
        for row in self._selected(star):
            self._elems[star[2]] = row
            try:
                if self.truth(cond):
                    return True
            finally:
                self._elems.pop(star[2], None)
        return False

    def ev_lit(self, t):
        if t[1] == 'int':
            return int(t[2])
        if t[1] == 'float':
            return float(t[2])
        return t[2]

    # naga::Scalar constants and constructors (pinned naga source, proc/mod.rs: `impl Scalar`)
    NAGA_SCALARS = {'I32': ('Sint', 4), 'U32': ('Uint', 4), 'F32': ('Float', 4), 'F64': ('Float', 8), 'I64': ('Sint', 8), 'U64': ('Uint', 8), 'BOOL': ('Bool', 1),
                    'ABSTRACT_INT': ('AbstractInt', 8), 'ABSTRACT_FLOAT': ('AbstractFloat', 8)}

    def ev_path(self, t):
        p = t[1]
        segs = p.split('::')
        if len(segs) >= 2 and segs[-2] == 'Scalar' and segs[-1] in self.NAGA_SCALARS and p.replace('crate::', 'naga::').startswith('naga::'):
            k_, w_ = self.NAGA_SCALARS[segs[-1]]
            return V('naga::Scalar', kind=V('naga::ScalarKind::' + k_), width=w_)
        if len(segs) >= 2:
            ty = '::'.join(segs[:-1])
            for ft in self.flag_types:
                if tail2(ft + '::x').split('::')[0] == segs[-2] and segs[-1] in self.flag_types[ft]:
                    return Flags(ft, [segs[-1]])
        return V(p)

    def ev_tuple(self, t):
        return tuple(self.ev(x) for x in t[1])

    def ev_cast(self, t):
        v = self.ev(t[1])
        if isinstance(v, V) and 'repr' in v.fields:
            return v.fields['repr']
        return v

    def ev_bin(self, t):
        a, b = self.ev(t[2]), self.ev(t[3])
        return {'+': lambda: a + b, '-': lambda: a - b, '*': lambda: a * b, '|': lambda: a | b, '&': lambda: a & b, '^': lambda: a ^ b}[t[1]]()

    def ev_struct(self, t):
        return V(t[1], **{k: self.ev(v) for k, v in t[2].items()})

    def ev_alt(self, t):
        for c, v in t[1]:
            if self.truth(c):
                return self.ev(v)
        raise Diverge('no arm matches', 0)

    def ev_diverge(self, t):
        raise Diverge(t[1], t[2])

    def ev_propagate(self, t):
        return None

    def ev_mcall(self, t):
        recv, m, args = t[1], t[2], t[3]
        if m == 'contains':
            r, a = self.ev(recv), self.ev(args[0])
            if isinstance(r, Flags) and isinstance(a, Flags):
                return a.bits <= r.bits
        if m == 'get' and not args:
            return self.ev(recv)
        if m in ('to_string',):
            return str(self.ev(recv))
        if m == 'to_uppercase':
            return str(self.ev(recv)).upper()
        raise Unbound(t)

    def ev_call(self, t):
        p, args = t[1], t[2]
        if p == 'naga::Scalar::float' and len(args) == 1:
            return V('naga::Scalar', kind=V('naga::ScalarKind::Float'), width=self.ev(args[0]))
        if p in ('Ident::new', 'Literal::usize_unsuffixed', 'Literal::u32_unsuffixed', 'Literal::u64_unsuffixed', 'Literal::i32_unsuffixed'):
            v = self.ev(args[0])
            return str(int(v)) if p.startswith('Literal') else str(v)
        if p == 'Literal::string':
            return '"' + str(self.ev(args[0])) + '"'
        raise Unbound(t)

    def ev_fmt(self, t):
        tmpl, vals, named = t[1], list(t[2]), dict(t[3])
        pos = [0]

        def sub(m):
            name, spec = m.group(1), m.group(2) or ''
            if name:
                v = self.ev(named[name]) if name in named else '?'
            else:
                v = self.ev(vals[pos[0]])
                pos[0] += 1
            if isinstance(v, V):
                return v.name
            return str(v)
        return re.sub(r'\{([A-Za-z_][A-Za-z0-9_]*)?(:[^}]*)?\}', sub, tmpl)

    # templates -> token text
    def ev_tmpl(self, t):
        return self.render(t[2])

    def render(self, items):
        out = []
        for it in items:
            if it[0] == 'tok':
                out.append(it[1])
            elif it[0] == 'hole':
                try:
                    v = self.ev(it[2])
                except Unbound:
                    if not self.lenient:
                        raise
                    v = '#' + it[1]
                out.append(self.tokens(v))
            else:
                out.append('#( ' + self.render(it[1]) + ' )' + it[2] + '*')
        return ' '.join(x for x in out if x != '')

    def tokens(self, v):
        if isinstance(v, bool):
            return 'true' if v else 'false'
        if v is None:
            return ''
        if isinstance(v, tuple) and v and v[0] == 'some':
            return self.tokens(v[1])
        if isinstance(v, V):
            return v.path.replace('::', ' :: ')
        return str(v)


# ---- parse struct-expression token text ------------------------------------------------------------------------------------
def parse_expr_text(text):
    """'a :: B { x : c :: D , y : true }' -> ('a::B', {'x': ('c::D', None), 'y': ('true', None)})  ;  tuple-struct args under key '0','1'.."""
    toks = text.split()
    pos = [0]

    def peek():
        return toks[pos[0]] if pos[0] < len(toks) else None

    def take():
        pos[0] += 1
        return toks[pos[0] - 1]

    def expr():
        if peek() == '&':
            take()
        head = []
        while peek() is not None and peek() not in ('{', '}', '(', ')', ',', ':', '[', ']'):
            head.append(take())
        name = ''.join(head)
        fields = None
        if peek() == '{':
            take()
            fields = {}
            while peek() != '}':
                if peek() == '..':
                    take()
                    fields['..'] = expr()
                    continue
                fname = take()
                if peek() in (',', '}'):
                    fields[fname] = (fname, None)   # shorthand `field,`
                else:
                    if take() != ':':
                        raise ValueError('expected : after field ' + fname)
                    fields[fname] = expr()
                if peek() == ',':
                    take()
            take()
        elif peek() == '(':
            take()
            fields = {}
            i = 0
            while peek() != ')':
                fields[str(i)] = expr()
                i += 1
                if peek() == ',':
                    take()
            take()
        return (name, fields)
    r = expr()
    if pos[0] != len(toks):
        raise ValueError('trailing tokens: ' + ' '.join(toks[pos[0]:pos[0] + 6]))
    return r
