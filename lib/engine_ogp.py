"""Engine A: syn-based abstract interpreter of the generator -> "output grammar with provenance" (OGP).

Every expression of every non-test function of the crate is evaluated to a symbolic *term* (nested tuples):

  ('param', fn, name)                 function parameter
  ('f', base, name)                   field access            ('tf', base, i)   tuple / array component
  ('idx', base, index)                indexing (arena lookup)
  ('vf', scrut, variant, field)       field bound by a pattern of `variant` on `scrut`
  ('elem', id, source) / ('pos', id)  element / position of an iteration
  ('star', source, id, body, conds, flat)   iteration pipeline: for elem in source if conds -> body
  ('opt', cond, val)                  Option: Some(val) if cond else None
  ('alt', [(cond, val), ...])         first-match conditional value (if / match / early return)
  ('tmpl', id, items)                 quote! template; items: ('tok', s) | ('hole', name, term) | ('rep', items, sep)
  ('call', path, [args])              uninterpreted function call (Ident::new, Literal::usize_unsuffixed, ...)
  ('mcall', recv, method, [args])     uninterpreted method call
  ('fmt', template, [args])           format!
  ('lit', kind, value) ('path', p) ('tuple', [..]) ('struct', path, {f: v}) ('cast', v, ty) ('bin', op, a, b) ('un', op, v)
  ('unwrap', v)  ('acc', id)  ('new', kind, id)  ('closure', ...)  ('diverge', kind, line)  ('unknown', why, line)
conditions:
  ('is', scrut, variant) ('eq', a, b) ('not', c) ('and', [..]) ('or', [..]) ('true',) ('false',) ('t', term) ('alt', ...)

Side effects are recorded per function: pushes onto accumulators (with path condition and loop context), calls of
recursive (not inlined) crate functions, assignments through references, panics.  References, derefs, clones and
`as_ref`-style adapters are transparent."""
import json, os, subprocess, sys
from common import VERIF, SRC, WORK, Lock, run, tree_hash

sys.setrecursionlimit(20000)
SYNDUMP_DIR = os.path.join(VERIF, 'tools', 'syndump')
SYNDUMP = os.path.join(SYNDUMP_DIR, 'target', 'release', 'syndump')

TRUE = ('true',)
FALSE = ('false',)


def build_syndump():
    src = os.path.join(SYNDUMP_DIR, 'src', 'main.rs')
    if os.path.exists(SYNDUMP) and os.path.getmtime(SYNDUMP) >= os.path.getmtime(src):
        return
    with Lock('syndump'):
        rc, out = run('cargo build --release --offline', cwd=SYNDUMP_DIR)
        if rc != 0:
            raise RuntimeError('cannot build syndump:\n' + out[-3000:])


def dump_files(paths):
    build_syndump()
    p = subprocess.run([SYNDUMP] + list(paths), stdout=subprocess.PIPE, stderr=subprocess.PIPE, text=True)
    if p.returncode != 0:
        raise RuntimeError('syndump failed: ' + p.stderr[-2000:])
    return json.loads(p.stdout)['files']


# ---------------------------------------------------------------------------------------------------------------------


def same_identifier(t):
    """`if KEYWORDS.contains(&x) { Ident::new_raw(x, ..) } else { Ident::new(x, ..) }` denotes the identifier x on both branches (a raw
    identifier r#x *is* the identifier x): the choice collapses to Ident::new(x).  (new_raw panics on crate / self / super / Self / _, all
    of which WGSL reserves.)"""
    if t[0] != 'alt' or len(t[1]) < 2:
        return t
    vals = [v for _, v in t[1]]
    if all(v[0] == 'call' and v[1] in ('Ident::new', 'Ident::new_raw') and v[2] for v in vals) and len({repr(v[2][0]) for v in vals}) == 1 \
            and any(v[1] == 'Ident::new_raw' for v in vals):
        return ('call', 'Ident::new', vals[0][2][:1])
    return t



def alpha_key(t):
    """canonical text of a term modulo the names of bound iteration variables (two inlinings of one helper give alpha-equivalent terms) and
    modulo the environment object of closure literals (compared by their syntax)"""
    import json as _json
    ids = {}

    def scrub(x):
        if isinstance(x, dict):
            return {k: scrub(v) for k, v in x.items() if k != 'line'}
        if isinstance(x, list):
            return [scrub(v) for v in x]
        return x

    def go(x):
        if isinstance(x, tuple):
            if x and x[0] == 'closure':
                return 'closure<' + _json.dumps(scrub(x[1]), sort_keys=True) + '>'
            if x and x[0] in ('elem', 'pos', 'accvar') and len(x) > 1 and isinstance(x[1], str):
                return '(' + x[0] + ',' + ids.setdefault(x[1], f'#{len(ids)}') + ',' + ','.join(go(y) for y in x[2:]) + ')'
            if x and x[0] in ('star', 'fold') and len(x) > 2 and isinstance(x[2], str):
                src = go(x[1])
                return '(' + x[0] + ',' + src + ',' + ids.setdefault(x[2], f'#{len(ids)}') + ',' + ','.join(go(y) for y in x[3:]) + ')'
            return '(' + ','.join(go(y) for y in x) + ')'
        if isinstance(x, list):
            return '[' + ','.join(go(y) for y in x) + ']'
        if isinstance(x, dict):
            return '{' + ','.join(f'{k}:{go(v)}' for k, v in sorted(x.items())) + '}'
        return repr(x)
    return go(t)


BOOL_METHODS = ('any', 'all', 'contains', 'contains_key', 'is_some', 'is_none', 'is_empty', 'is_ok', 'is_err', 'starts_with', 'ends_with', 'eq', 'ne',
                'is_some_and', 'is_none_or', 'insert_bool')


def boolish(e):
    """syntactically evident boolean operand (used to read `a & b` / `a | b` on booleans as and / or; bit-flag unions are paths and calls)"""
    k = e.get('k')
    if k == 'Paren':
        return boolish(e['expr'])
    if k == 'Unary' and e.get('op') == '!':
        return True
    if k == 'Binary':
        return e['op'] in ('&&', '||', '==', '!=', '<', '>', '<=', '>=') or (e['op'] in ('&', '|') and (boolish(e['l']) or boolish(e['r'])))
    if k == 'Macro' and e.get('name') == 'matches':
        return True
    if k == 'MethodCall':
        return e.get('method') in BOOL_METHODS
    if k == 'Lit':
        return e.get('ty') == 'bool'
    return False

# ---- work lists as recursion ------------------------------------------------------------------------------------------------------------
# `let mut W = SEEDS; while let Some(x) = W.pop() { BODY }` where BODY touches W only through `W.push(e)` / `W.extend(it)` and never leaves
# the loop (`break`, `return`, `?`) processes exactly the elements a recursive function `f(x) { BODY[W.push(e) := f(e); continue := return] }`
# visits when called on every seed: the same set of elements, in a different order.  The rewrite is done on the syntax tree before the crate
# is interpreted, so that the rules written for recursive closures (C08 and its adopters) judge the synthetic function; the order of the
# visits is not used by any rule over a recursive SCC (recursive calls are never inlined).  Anything outside this exact shape is left alone.
WL_POPS = ('pop', 'pop_front', 'pop_back')
WL_PUSHES = ('push', 'push_back', 'push_front')


def _mentions(node, name):
    if isinstance(node, dict):
        if node.get('k') == 'Path' and node.get('path', {}).get('segs') == [name]:
            return True
        return any(_mentions(v, name) for v in node.values())
    if isinstance(node, list):
        return any(_mentions(v, name) for v in node)
    return False


def _has_kind(node, kinds, stop=()):
    if isinstance(node, dict):
        if node.get('k') in kinds:
            return True
        if node.get('k') in stop:
            return False
        return any(_has_kind(v, kinds, stop) for v in node.values())
    if isinstance(node, list):
        return any(_has_kind(v, kinds, stop) for v in node)
    return False


def _path(name, line):
    return {'k': 'Path', 'line': line, 'path': {'segs': [name], 'generics': []}, 'qself': None}


def _pident(name, line):
    return {'k': 'PIdent', 'line': line, 'name': name, 'by_ref': False, 'mut': False, 'sub': None}


def _names(node, kind, out):
    if isinstance(node, dict):
        if node.get('k') == kind:
            out.add(node['name'] if kind == 'PIdent' else (node['path']['segs'][0] if len(node.get('path', {}).get('segs', [])) == 1 else None))
        for v in node.values():
            _names(v, kind, out)
    elif isinstance(node, list):
        for v in node:
            _names(v, kind, out)


def normalise_worklists(fn):
    """rewrite the work-list loops of one function item in place; returns the synthetic recursive function items"""
    import copy
    made = []

    def let_type(st):
        if st.get('ty'):
            return st['ty']
        i = st.get('init') or {}
        if i.get('k') == 'Call' and i['func'].get('k') == 'Path':
            segs = i['func']['path']['segs']
            if len(segs) >= 2 and segs[-1] in ('new', 'default', 'with_capacity') and segs[-2] in ('HashSet', 'BTreeSet', 'HashMap', 'BTreeMap', 'Vec'):
                return segs[-2] + ' < _ >'
        return '_'

    def scope_types():
        tys = {}
        for prm in fn.get('params', []):
            if prm['pat'].get('k') == 'PIdent':
                tys[prm['pat']['name']] = prm['ty']

        def lets(node):
            if isinstance(node, dict):
                if node.get('k') == 'Let' and node['pat'].get('k') == 'PIdent':
                    t = let_type(node)
                    tys.setdefault(node['pat']['name'], ('& mut ' + t) if node['pat'].get('mut') and not t.lstrip().startswith('&') else t)
                for v in node.values():
                    lets(v)
            elif isinstance(node, list):
                for v in node:
                    lets(v)
        lets(fn['body'])
        return tys

    def rewrite_body(node, W, syn, caps, top=True):
        """returns the rewritten node, or raises ValueError when W is used in any other way"""
        if isinstance(node, list):
            return [rewrite_body(v, W, syn, caps, top) for v in node]
        if not isinstance(node, dict):
            return node
        k = node.get('k')
        ln = node.get('line', 0)
        if k == 'MethodCall' and node['recv'].get('k') == 'Path' and node['recv']['path']['segs'] == [W]:
            if node['method'] in WL_PUSHES and len(node['args']) == 1 and not _mentions(node['args'][0], W):
                return {'k': 'Call', 'line': ln, 'func': _path(syn, ln), 'args': [rewrite_body(node['args'][0], W, syn, caps, top)] + [_path(c, ln) for c in caps]}
            if node['method'] == 'extend' and len(node['args']) == 1 and not _mentions(node['args'][0], W):
                call = {'k': 'Call', 'line': ln, 'func': _path(syn, ln), 'args': [_path('__wl_next', ln)] + [_path(c, ln) for c in caps]}
                return {'k': 'For', 'line': ln, 'pat': _pident('__wl_next', ln), 'expr': rewrite_body(node['args'][0], W, syn, caps, top),
                        'body': {'k': 'Block', 'line': ln, 'stmts': [{'k': 'ExprStmt', 'line': ln, 'expr': call, 'semi': True}]}}
            raise ValueError('other use of the work list')
        if k == 'Path' and node.get('path', {}).get('segs') == [W]:
            raise ValueError('other use of the work list')
        if k == 'Continue' and top:
            return {'k': 'Return', 'line': ln, 'expr': None}
        if k in ('For', 'While', 'Loop'):
            return {kk: rewrite_body(v, W, syn, caps, False) for kk, v in node.items()}
        if k == 'Closure':
            return {kk: rewrite_body(v, W, syn, caps, False) for kk, v in node.items()}
        return {kk: rewrite_body(v, W, syn, caps, top) for kk, v in node.items()}

    def in_block(block):
        stmts = block.get('stmts', [])
        for i, st in enumerate(stmts):
            w = st.get('expr') if st.get('k') == 'ExprStmt' else None
            if not (w and w.get('k') == 'While' and w['cond'].get('k') == 'LetCond'):
                continue
            c = w['cond']
            pe = c['expr']
            if not (pe.get('k') == 'MethodCall' and pe['method'] in WL_POPS and not pe['args'] and pe['recv'].get('k') == 'Path' and len(pe['recv']['path']['segs']) == 1):
                continue
            W = pe['recv']['path']['segs'][0]
            pat = c['pat']
            if not (pat.get('k') == 'PTupleStruct' and pat['path']['segs'][-1] == 'Some' and len(pat['elems']) == 1 and pat['elems'][0].get('k') == 'PIdent'):
                continue
            x = pat['elems'][0]['name']
            js = [j for j in range(i) if stmts[j].get('k') == 'Let' and stmts[j]['pat'].get('k') == 'PIdent' and stmts[j]['pat']['name'] == W and stmts[j].get('init')]
            if not js:
                continue
            j = js[-1]
            if any(_mentions(stmts[m], W) for m in range(j + 1, i)) or any(_mentions(stmts[m], W) for m in range(i + 1, len(stmts))):
                continue
            body = w['body']
            # leaving the loop early abandons the pending elements: not a closure
            if _has_kind(body, ('Return', 'Try')) or _has_kind(body, ('Break',), stop=('For', 'While', 'Loop')):
                continue
            used = set()
            _names(body, 'Path', used)
            bound = set()
            _names(body, 'PIdent', bound)
            tys = scope_types()
            caps = sorted(n for n in used if n and n in tys and n != W and n != x and n not in bound)
            syn = f"{fn['name']}__worklist{w.get('line', 0)}"
            try:
                nb = rewrite_body(copy.deepcopy(body), W, syn, caps)
            except ValueError:
                continue
            ln = w.get('line', 0)
            sfn = {'k': 'Fn', 'line': ln, 'name': syn, 'generics': '', 'vis': '', 'attrs': [], 'cfg_test': False, 'ret': '', 'body': nb, 'synthetic_of': fn['name'],
                   'params': [{'pat': _pident(x, ln), 'ty': 'Handle < _ >'}] + [{'pat': _pident(cn, ln), 'ty': tys[cn]} for cn in caps]}
            made.append(sfn)
            stmts[j]['pat'] = dict(stmts[j]['pat'], mut=False)
            init = stmts[j]['init']
            if init.get('k') == 'Macro' and init.get('name') == 'vec' and init.get('args') and not any(_mentions(a_, W) for a_ in init['args']) and j == i - 1:
                # `let mut W = vec![a, b]; while let ..`: the seeds are spelled out - one call each (in the list's order)
                seq = [{'k': 'ExprStmt', 'line': ln, 'semi': True,
                        'expr': {'k': 'Call', 'line': ln, 'func': _path(syn, ln), 'args': [copy.deepcopy(a_)] + [_path(cn, ln) for cn in caps]}} for a_ in init['args']]
                stmts[i] = {'k': 'ExprStmt', 'line': ln, 'semi': True, 'expr': {'k': 'Block', 'line': ln, 'stmts': seq}}
                continue
            call = {'k': 'Call', 'line': ln, 'func': _path(syn, ln), 'args': [_path('__wl_seed', ln)] + [_path(cn, ln) for cn in caps]}
            stmts[i] = {'k': 'ExprStmt', 'line': ln, 'semi': True,
                        'expr': {'k': 'For', 'line': ln, 'pat': _pident('__wl_seed', ln), 'expr': _path(W, ln),
                                 'body': {'k': 'Block', 'line': ln, 'stmts': [{'k': 'ExprStmt', 'line': ln, 'expr': call, 'semi': True}]}}}

    def walk_blocks(node):
        if isinstance(node, dict):
            if node.get('k') == 'Block':
                in_block(node)
            for v in list(node.values()):
                walk_blocks(v)
        elif isinstance(node, list):
            for v in node:
                walk_blocks(v)
    if fn.get('body'):
        walk_blocks(fn['body'])
    return made


# an unsuffixed integer literal of a non-negative quantity prints the same decimal text whichever of these constructors makes it and through
# whichever value-preserving cast the quantity gets there: one normal form, Literal::usize_unsuffixed(x as usize).  Narrowing or sign-changing
# forms (u8 / u16 / i8 / i16 / i32 / isize ..) stay as written and are judged by the rules.
WIDE_UNSUFFIXED = ('usize_unsuffixed', 'u32_unsuffixed', 'u64_unsuffixed', 'u128_unsuffixed', 'i64_unsuffixed', 'i128_unsuffixed')
WIDE_CASTS = ('usize', 'u32', 'u64', 'u128', 'i64', 'i128')


def unsuffixed(x, ctor='usize_unsuffixed'):
    if ctor == 'usize_unsuffixed' and x[0] != 'cast':
        return ('call', 'Literal::usize_unsuffixed', [x])       # a usize quantity (a length, a count) printed as it is
    while x[0] == 'cast' and x[2] in WIDE_CASTS:
        x = x[1]
    return ('call', 'Literal::usize_unsuffixed', [('cast', x, 'usize')])


class Crate:
    """items of the crate, organised by module, with use-tables for path resolution"""

    def __init__(self, src_dir=None):
        self.src = src_dir or SRC
        self.mods = {}      # 'crate', 'crate::bindgroup' -> {'uses': {alias: path}, 'items': [...], 'file': path}
        self.fns = {}       # qualified name -> fn item (with 'mod', 'file')
        self.structs = {}
        self.enums = {}
        self.statics = []
        self.consts = {}    # qualified name -> const item (module-level)
        self.extern_alias = {}
        self.synthetic = {}   # synthetic recursive function (work list as recursion) -> the function it was cut out of
        self._load()

    def _load(self):
        root = os.path.join(self.src, 'lib.rs')
        files = sorted(os.path.join(self.src, f) for f in os.listdir(self.src) if f.endswith('.rs'))
        dumped = dump_files(files)
        self.dumped = dumped
        self._add_mod('crate', dumped[root], root, dumped)

    def _add_mod(self, name, items, file, dumped):
        uses = {}
        m = {'uses': uses, 'items': items, 'file': file, 'globs': []}
        self.mods[name] = m
        for it in items:
            if it.get('cfg_test'):
                continue
            k = it['k']
            if k == 'Use':
                for u in it['uses']:
                    if u['alias'] == '*':
                        m['globs'].append(u['path'])
                    else:
                        uses[u['alias']] = u['path']
            elif k == 'ExternCrate':
                if it.get('rename'):
                    self.extern_alias[it['rename']] = it['name']
            elif k == 'Mod':
                sub = f"{name}::{it['name']}"
                if it['items'] is not None:
                    self._add_mod(sub, it['items'], file, dumped)
                else:
                    f = os.path.join(self.src, it['name'] + '.rs')
                    if f in dumped:
                        self._add_mod(sub, dumped[f], f, dumped)
            elif k == 'Fn':
                q = f"{name}::{it['name']}"
                it['mod'], it['file'], it['qname'] = name, file, q
                self.fns[q] = it
                for sf in normalise_worklists(it):
                    sq = f"{name}::{sf['name']}"
                    sf['mod'], sf['file'], sf['qname'] = name, file, sq
                    self.fns[sq] = sf
                    self.synthetic[sq] = q
            elif k == 'Impl':
                if it.get('trait'):
                    # also the impls without methods (`impl ControlFlow for Leaf {}`: every method is the provided one)
                    self.__dict__.setdefault('impl_pairs', set()).add((name, strip_generics(it['self_ty'].replace(' ', '')), it['trait'].replace(' ', '')))
                for f in it['fns']:
                    if f.get('cfg_test'):
                        continue
                    ty = strip_generics(it['self_ty'].replace(' ', ''))
                    q = f"{name}::{ty}::{f['name']}" if not it['trait'] else f"{name}::<{ty} as {it['trait'].replace(' ', '')}>::{f['name']}"
                    f['mod'], f['file'], f['qname'], f['impl_of'] = name, file, q, ty
                    self.fns[q] = f
            elif k == 'Trait':
                self.__dict__.setdefault('traits', {})[f"{name}::{it['name']}"] = it
                # provided (default) methods of a crate trait: rustc names them `<module>::<Trait>::<method>`
                for f in it.get('fns') or []:
                    if f.get('cfg_test'):
                        continue
                    q = f"{name}::{it['name']}::{f['name']}"
                    f['mod'], f['file'], f['qname'], f['impl_of'], f['trait_default'] = name, file, q, it['name'], it['name']
                    self.fns[q] = f
            elif k == 'Struct':
                self.structs[f"{name}::{it['name']}"] = it
            elif k == 'Enum':
                self.enums[f"{name}::{it['name']}"] = it
            elif k == 'Static':
                self.statics.append((name, it))
                if not it.get('mut') and it.get('expr') is not None and 'Cell' not in it.get('ty', '') and 'Mutex' not in it.get('ty', '') and \
                        'Atomic' not in it.get('ty', '') and 'Lock' not in it.get('ty', ''):
                    # an immutable static without interior mutability is a named value like a constant (`static VERTEX_FORMATS: &[Row] = &[..]`)
                    it['mod'] = name
                    self.consts[f"{name}::{it['name']}"] = it
            elif k == 'Const':
                it['mod'] = name
                self.consts[f"{name}::{it['name']}"] = it

    def call_graph(self):
        if getattr(self, '_cg', None) is not None:
            return self._cg
        g = {q: set() for q in self.fns}

        def bound_names(node, out):
            if isinstance(node, dict):
                if node.get('k') == 'PIdent':
                    out.add(node['name'])
                for v in node.values():
                    bound_names(v, out)
            elif isinstance(node, list):
                for v in node:
                    bound_names(v, out)

        def scan(node, q, mod):
            if isinstance(node, dict):
                if node.get('k') == 'MethodCall':
                    ty = self.static_type(node['recv'], q)
                    mq = self.method_of(ty, node['method']) if ty else None
                    if not mq:
                        mq = self.method_at(self.fns[q]['file'], node.get('line'), node['method'])
                    if mq:
                        g[q].add(mq)
                if node.get('k') == 'Call' and node['func'].get('k') == 'Path':
                    segs = node['func']['path']['segs']
                    p = self.resolve(mod, segs)
                    if p in self.fns and not (len(segs) == 1 and segs[0] in locals_of[q]):
                        g[q].add(p)
                if node.get('k') == 'Path' and 'path' in node:
                    segs = node['path']['segs']
                    p = self.resolve(mod, segs)
                    if p in self.fns and not (len(segs) == 1 and segs[0] in locals_of[q]):
                        g[q].add(p)
                for v in node.values():
                    scan(v, q, mod)
            elif isinstance(node, list):
                for v in node:
                    scan(v, q, mod)
        locals_of = {}
        for q, f in self.fns.items():
            names = set()
            bound_names(f['body'], names)
            bound_names(f['params'], names)
            locals_of[q] = names
        for q, f in self.fns.items():
            scan(f['body'], q, f['mod'])
        self._cg = g
        # strongly connected components
        index, low, onst, st, comp = {}, {}, set(), [], {}
        counter = [0]

        def visit(v):
            index[v] = low[v] = counter[0]
            counter[0] += 1
            st.append(v)
            onst.add(v)
            for w in g[v]:
                if w not in index:
                    visit(w)
                    low[v] = min(low[v], low[w])
                elif w in onst:
                    low[v] = min(low[v], index[w])
            if low[v] == index[v]:
                members = []
                while True:
                    w = st.pop()
                    onst.discard(w)
                    members.append(w)
                    if w == v:
                        break
                for w in members:
                    comp[w] = frozenset(members)
        for v in g:
            if v not in index:
                visit(v)
        self.scc = comp
        return g

    def is_newtype(self, path):
        """a crate tuple struct with exactly one field whose ordering / equality are derived and whose Display (if any) prints that field: a
        value of it behaves like the wrapped value (`GroupIndex(pub u32)` for a bind group number) - the constructor and `.0` are read as the
        identity.  Anything hand-written about it (Ord, PartialEq, a Display that prints something else) makes it opaque."""
        cache = self.__dict__.setdefault('_newtypes', {})
        if path in cache:
            return cache[path]
        st = self.structs.get(path)
        ok = bool(st) and len(st.get('fields', [])) == 1 and st['fields'][0].get('name') == '0'
        if ok:
            mod_, short_ = path.rsplit('::', 1)
            for q, f in self.fns.items():
                if q.startswith(f'{mod_}::<{short_} as '):
                    tr = q[len(f'{mod_}::<{short_} as '):].split('>::')[0]
                    if tr.split('::')[-1] == 'Display':
                        b = f.get('body', {}).get('stmts', [])
                        m_ = b[0].get('expr') if len(b) == 1 and b[0].get('k') == 'ExprStmt' else None
                        plain = bool(m_) and m_.get('k') == 'Macro' and m_.get('name') == 'write' and len(m_.get('args') or []) == 3 and \
                            m_['args'][1].get('k') == 'Lit' and m_['args'][1].get('v') == '{}' and m_['args'][2].get('k') == 'Field' and m_['args'][2].get('member') == '0' and \
                            m_['args'][2]['base'].get('k') == 'Path' and m_['args'][2]['base']['path']['segs'] == ['self']
                        ok = ok and plain
                    elif tr.split('::')[-1].split('<')[0] in ('Ord', 'PartialOrd', 'PartialEq', 'Eq', 'Hash'):
                        ok = False      # hand-written comparison: not the wrapped value's
                    elif any(k_.startswith(mod_ + '::') and k_.rsplit('::', 1)[-1] == tr.split('::')[-1].split('<')[0] for k_ in self.__dict__.get('traits', {})):
                        ok = False      # implements a trait of the crate: its type selects behaviour (a strategy object), it is not just its field
        cache[path] = ok
        return ok

    def context_struct(self, mod, ty_text):
        """the crate struct named by a parameter type if it is a context record: a struct with named fields one of which is the module or the
        write options (e.g. `StructContext { module, options, layouter, global_variable_types }`)"""
        t = self.crate_type_in(mod, ty_text)
        st = self.structs.get(t) if t else None
        if not st:
            return None
        import re as _re
        ftys = [_re.sub(r"'\w+\s*", '', fl['ty']).replace(' ', '') for fl in st.get('fields', []) if fl.get('name')]
        # .. or a bundle of the call's own text arguments (`ShaderSource { wgsl_source: &str, wgsl_include_path: Option<&str> }`)
        return t if any(x.endswith('Module') or 'WriteOptions' in x or x in ('&str', 'Option<&str>') for x in ftys) else None

    def receives(self, q, sub):
        """function q is handed a value whose type mentions `sub`: as a parameter, or as a field of a parameter that is a crate struct"""
        f = self.fns[q]
        for p_ in f['params']:
            ty = p_['ty'].replace(' ', '')
            if sub in ty:
                return True
            # .. or of a crate struct mentioned anywhere in the parameter's type (`Option<&PushConstants>`, `&[VertexInput]`)
            import re as _re
            for nm_ in set(_re.findall(r'[A-Za-z_][A-Za-z0-9_]*', p_['ty'])):
                t = self.resolve(f['mod'], [nm_])
                st = self.structs.get(t)
                if st and any(sub in fl['ty'].replace(' ', '') for fl in st.get('fields', [])):
                    return True
        return False

    def method_at(self, file, line, name):
        """the crate method that the method call `.name(..)` starting on `line` of `file` resolves to, taken from the resolved MIR (Engine B's
        call facts: rustc's own method resolution) - for receivers whose type is not evident from the syntax (closure parameters, elements of an
        iteration, values returned by library calls).  None unless exactly one crate function of that name is called from that line."""
        idx = self.__dict__.get('_mir_methods')
        if idx is None:
            idx = {}
            try:
                from engine_mir import Mir
                from crossval import norm
                mir = Mir()
                # methods of trait impls (`impl TypeExt for naga::Type`) are named differently by the two engines: match them by definition site
                by_site = {(self.relfile(f_['file']), f_.get('line'), f_['name']): q_ for q_, f_ in self.fns.items() if f_.get('impl_of')}
                for n, b in mir.bodies.items():
                    for _, t in b.calls():
                        callee = t['callee'] or t['raw']
                        sp = t.get('span') or {}
                        if (t.get('self_ty') or '').startswith('dyn ') or not t.get('callee'):
                            continue        # dynamic dispatch / a bounded type parameter: which implementation runs is not decided at this call site
                        if callee in mir.bodies and mir.bodies[callee].kind != 'Closure' and not sp.get('exp') and sp.get('file'):
                            q = 'crate::' + norm(callee)
                            if q not in self.fns:
                                dsp = mir.bodies[callee].j.get('span') or {}
                                q = by_site.get((dsp.get('file'), dsp.get('line'), callee.rsplit('::', 1)[-1]))
                            if q in self.fns and self.fns[q].get('impl_of'):
                                idx.setdefault((sp['file'], sp['line'], q.rsplit('::', 1)[-1]), set()).add(q)
            except Exception:
                idx = {}
            self._mir_methods = idx
        qs = idx.get((self.relfile(file), line, name), ())
        return next(iter(qs)) if len(qs) == 1 else None

    def method_of(self, ty, name):
        """qualified name of method `name` of crate type `ty` (qualified struct / enum path), or None"""
        q = f'{ty}::{name}'
        f = self.fns.get(q)
        return q if f is not None and f.get('impl_of') else None

    def crate_type_in(self, mod, ty_text):
        """the crate struct / enum named by a type text like `&mut Collector<'_>` (references and generic arguments ignored), or None"""
        t = strip_generics(ty_text.replace(' ', '')).lstrip('&')
        if t.startswith("'"):
            t = t.split(' ', 1)[-1]
        while t.startswith('mut'):
            t = t[3:]
        t = t.lstrip('&')
        if not t or not (t[0].isalpha() or t[0] == '_'):
            return None
        p = self.resolve(mod, t.split('::'))
        return p if p in self.structs or p in self.enums else None

    def static_type(self, node, q):
        """crate type of a receiver expression, where it is evident from the source: `self`, a parameter with a declared crate type, a local
        initialised by a struct literal / an associated function of a crate type, a field of such a value with a declared crate type"""
        f = self.fns[q]
        mod = f['mod']
        k = node.get('k')
        if k in ('Ref', 'Paren') and 'expr' in node:
            return self.static_type(node['expr'], q)
        if k == 'Unary' and node.get('op') == '*':
            return self.static_type(node['expr'], q)
        if k == 'Path' and len(node['path']['segs']) == 1:
            nm = node['path']['segs'][0]
            if nm == 'self' and f.get('impl_of'):
                return self.resolve(mod, [f['impl_of']])
            for p in f['params']:
                if p['pat'].get('name') == nm:
                    return self.crate_type_in(mod, p['ty'])
            return self.local_types(q).get(nm)
        if k == 'StructLit':
            ty = self.resolve(mod, node['path']['segs'])
            if node['path']['segs'] == ['Self'] and f.get('impl_of'):
                ty = self.resolve(mod, [f['impl_of']])
            return ty if ty in self.structs or ty in self.enums else None
        if k == 'Closure':
            return self.static_type(node['body'], q)
        if k == 'Block' and node.get('stmts'):
            last = node['stmts'][-1]
            if last.get('k') == 'ExprStmt' and not last.get('semi'):
                return self.static_type(last['expr'], q)
            return None
        if k == 'MethodCall' and node['method'] in ('or_insert', 'or_insert_with', 'unwrap_or', 'unwrap_or_else', 'get_or_insert', 'get_or_insert_with') and node['args']:
            # `map.entry(k).or_insert_with(|| Record { .. })`: the value has the type of the default
            return self.static_type(node['args'][0], q)
        if k == 'Field':
            bt = self.static_type(node['base'], q)
            st = self.structs.get(bt) if bt else None
            if st:
                for fl in st.get('fields', []):
                    if fl.get('name') == node['member']:
                        return self.crate_type_in(bt.rsplit('::', 1)[0], fl['ty'])
        return None

    def local_types(self, q):
        cache = self.__dict__.setdefault('_local_types', {})
        if q in cache:
            return cache[q]
        f = self.fns[q]
        out = {}
        dup = set()

        def visit(node):
            if isinstance(node, dict):
                if node.get('k') == 'Let' and node['pat'].get('k') == 'PIdent' and node.get('init') is not None:
                    nm, init, ty = node['pat']['name'], node['init'], None
                    while init.get('k') in ('Ref', 'Paren'):
                        init = init['expr']
                    if init.get('k') == 'StructLit':
                        ty = self.resolve(f['mod'], init['path']['segs'])
                        if ty == 'Self' or init['path']['segs'] == ['Self']:
                            ty = self.resolve(f['mod'], [f['impl_of']]) if f.get('impl_of') else None
                    elif init.get('k') == 'Call' and init['func'].get('k') == 'Path' and len(init['func']['path']['segs']) >= 2:
                        head = self.resolve(f['mod'], init['func']['path']['segs'][:-1])
                        fq = f"{head}::{init['func']['path']['segs'][-1]}"
                        if (head in self.structs or head in self.enums) and fq in self.fns and strip_generics(self.fns[fq].get('ret', '').replace(' ', '').replace('->', '')) in ('Self', head.split('::')[-1]):
                            ty = head
                    if ty in self.structs or ty in self.enums:
                        if nm in out and out[nm] != ty:
                            dup.add(nm)
                        out[nm] = ty
                    elif nm in out:
                        dup.add(nm)
                for v in node.values():
                    visit(v)
            elif isinstance(node, list):
                for v in node:
                    visit(v)
        visit(f['body'])
        for nm in dup:
            out.pop(nm, None)
        cache[q] = out
        return out

    def same_recursive_component(self, a, b):
        self.call_graph()
        ca = self.scc.get(a)
        return ca is not None and b in ca and (len(ca) > 1 or a in self._cg[a])

    def relfile(self, f):
        return os.path.relpath(f, os.path.dirname(os.path.dirname(self.src)))

    def resolve(self, mod, segs):
        """canonical path string of a path written in module `mod`"""
        segs = list(segs)
        if not segs:
            return ''
        first = segs[0]
        m = self.mods.get(mod)
        if first == 'crate':
            return '::'.join(segs)
        if first == 'self':
            return '::'.join([mod] + segs[1:])
        if first == 'super':
            return self.resolve(mod.rsplit('::', 1)[0], segs[1:]) if '::' in mod else '::'.join(segs[1:])
        if first == 'Self':
            return '::'.join(segs)
        if m and first in m['uses']:
            base = m['uses'][first]
            bsegs = base.split('::')
            if bsegs[0] in ('crate', 'self', 'super'):
                base = self.resolve(mod if bsegs[0] != 'crate' else 'crate', bsegs)
            elif f'{mod}::{bsegs[0]}' in self.mods:
                base = f'{mod}::{base}'   # `use child_module::item;`
            return '::'.join([base] + segs[1:])
        # item of this module or of the crate root
        for scope in (mod, 'crate'):
            q = f'{scope}::{first}'
            if q in self.fns or q in self.structs or q in self.enums or q in self.mods or q in self.consts:
                return '::'.join([scope] + segs)
        return '::'.join(segs)


# ---------------------------------------------------------------------------------------------------------------------
# quote! templates
def strip_generics(ty):
    """`Collector<'_, T>` -> `Collector`"""
    out, depth = [], 0
    for ch in ty:
        if ch == '<':
            depth += 1
        elif ch == '>':
            depth -= 1
        elif depth == 0:
            out.append(ch)
    return ''.join(out)


def tok_text(t):
    if t['t'] == 'g':
        close = {'(': ')', '{': '}', '[': ']', '': ''}[t['d']]
        return t['d'] + ' ' + toks_text(t['s']) + ' ' + close
    return str(t['v'])


def toks_text(ts):
    out = []
    i = 0
    while i < len(ts):
        t = ts[i]
        if t['t'] == 'p':
            s = t['v']
            while t.get('joint') and i + 1 < len(ts) and ts[i + 1]['t'] == 'p':
                i += 1
                t = ts[i]
                s += t['v']
            if s.endswith("'") and t.get('joint') and i + 1 < len(ts) and ts[i + 1]['t'] == 'i':
                # lifetime: the quote and the identifier form one token
                i += 1
                s += ts[i]['v']
            out.append(s)
        else:
            out.append(tok_text(t))
        i += 1
    return ' '.join(x for x in out if x != '')


def items_text(items):
    out = []
    for it in items:
        if it[0] == 'tok':
            out.append(it[1])
        elif it[0] == 'hole':
            out.append('#' + it[1])
        else:
            out.append('#( ' + items_text(it[1]) + ' )' + it[2] + '*')
    return ' '.join(x for x in out if x)


def conj_atoms(c):
    if c == TRUE:
        return []
    if c[0] == 'and':
        return [a for x in c[1] for a in conj_atoms(x)]
    return [c]


def decision_list(t):
    """canonical decision list of a (possibly nested) alt: [(atoms, value)] in order; an exhaustive inner alt is flattened in place, arms after an
    unconditional arm are dropped and arms that yield the same value as the unconditional arm directly following them are merged into it"""
    out = []

    def go(x, pre):
        if x[0] == 'alt' and x[1] and (not pre or exhaustive_alt(x)):
            for c, v in x[1]:
                go(v, pre + conj_atoms(c))
                if c == TRUE:
                    break
        else:
            out.append((pre, x))
    go(t, [])
    out = [([norm_atom(a) for a in c], v) for c, v in out]
    out = simplify_decisions(out)
    for i, (c, v) in enumerate(out):
        if not c:
            out = out[:i + 1]
            break
    while len(out) >= 2 and not out[-1][0] and out[-2][1] == out[-1][1]:
        del out[-2]
    return out


def _bool_atoms(c, out):
    """atomic conditions of a boolean term (through and / or / not / t / okcond and boolean-valued alts)"""
    if c in (TRUE, FALSE):
        return
    k = c[0]
    if k in ('and', 'or'):
        for x in c[1]:
            _bool_atoms(x, out)
    elif k in ('not', 'okcond'):
        _bool_atoms(c[1], out)
    elif k == 'alt':
        for a, b in c[1]:
            _bool_atoms(a, out)
            _bool_atoms(b, out)
    else:
        a = norm_atom(c)
        a = a[1] if a[0] == 'not' else a
        if a not in out:
            out.append(a)


def _truth(c, asg):
    if c == TRUE:
        return True
    if c == FALSE:
        return False
    k = c[0]
    if k == 'and':
        return all(_truth(x, asg) for x in c[1])
    if k == 'or':
        return any(_truth(x, asg) for x in c[1])
    if k == 'not':
        return not _truth(c[1], asg)
    if k == 'okcond':
        return _truth(c[1], asg)
    if k == 'alt':
        for a, b in c[1]:
            if _truth(a, asg):
                return _truth(b, asg)
        return False
    a = norm_atom(c)
    if a[0] == 'not':
        return not asg[repr(a[1])]
    return asg[repr(a)]


def _select(t, asg):
    while t[0] == 'alt':
        for c, v in t[1]:
            if _truth(c, asg):
                t = v
                break
        else:
            return ('no-arm',)
    return t


def same_decision(a, b, limit=12):
    """two (nested) choices select the same value under every assignment of their atomic conditions (conditions may themselves be boolean
    choices: `match opt { Some(x) => .., None => .. }` over an Option that was itself computed by a match); falls back to comparing the
    canonical decision lists when there are more than `limit` atoms"""
    atoms = []
    for t in (a, b):
        st = [t]
        while st:
            x = st.pop()
            if x[0] == 'alt':
                for c, v in x[1]:
                    _bool_atoms(c, atoms)
                    st.append(v)
    if len(atoms) > limit:
        return decision_list(a) == decision_list(b)
    import itertools
    keys = [repr(x) for x in atoms]
    for bits in itertools.product((False, True), repeat=len(keys)):
        asg = dict(zip(keys, bits))
        if _select(a, asg) != _select(b, asg):
            return False
    return True


def exhaustive_alt(x):
    """the conditions of the arms cover every case (propositionally, over the normalised atoms)"""
    arms = [[norm_atom(a) for a in conj_atoms(c)] for c, _ in x[1]]
    if any(not a for a in arms):
        return True
    base = []
    for c in arms:
        for a in c:
            b = a[1] if a[0] == 'not' else a
            if b not in base:
                base.append(b)
    if len(base) > 10:
        return False
    import itertools
    for bits in itertools.product((False, True), repeat=len(base)):
        w = dict(zip(range(len(base)), bits))
        if not any(all(((not w[base.index(a[1])]) if a[0] == 'not' else w[base.index(a)]) for a in c) for c in arms):
            return False
    return True


def norm_atom(a):
    if a[0] == 'is' and a[2] in ('None', 'Option::None'):
        return ('not', ('t', ('is_some', a[1])))
    if a[0] == 'is' and a[2] in ('Some', 'Option::Some'):
        return ('t', ('is_some', a[1]))
    if a[0] == 'not' and a[1][0] == 'not':
        return norm_atom(a[1][1])
    if a[0] == 'not':
        return ('not', norm_atom(a[1]))
    return a


def simplify_decisions(arms):
    """drop atoms implied by the failure of all earlier arms (propositional, by enumeration over the atoms; skipped beyond 10 atoms)"""
    base = []
    for c, _ in arms:
        for a in c:
            b = a[1] if a[0] == 'not' else a
            if b not in base:
                base.append(b)
    if len(base) > 10 or not base:
        return arms
    import itertools
    worlds = [dict(zip(range(len(base)), bits)) for bits in itertools.product((False, True), repeat=len(base))]

    def holds(a, w):
        return (not w[base.index(a[1])]) if a[0] == 'not' else w[base.index(a)]
    out = []
    for c, v in arms:
        c = list(c)
        live = [w for w in worlds if all(not all(holds(a, w) for a in pc) for pc, _ in out)]
        changed = True
        while changed:
            changed = False
            for a in list(c):
                rest = [x for x in c if x is not a]
                if all(holds(a, w) for w in live if all(holds(x, w) for x in rest)):
                    c = rest
                    changed = True
                    break
        out.append((c, v))
    return out


def cond_facts(c, pos=None, neg=None):
    """atomic conditions that must hold (pos) / must not hold (neg) when condition c is true"""
    if pos is None:
        pos, neg = [], []
    if c[0] == 'okcond':
        cond_facts(c[1], pos, neg)
    elif c[0] == 'and':
        for x in c[1]:
            cond_facts(x, pos, neg)
    elif c[0] == 'not':
        inner = c[1]
        if inner[0] == 'not':
            cond_facts(inner[1], pos, neg)
        elif inner[0] == 'alt':
            flip = lambda b: FALSE if b == TRUE else TRUE if b == FALSE else ('not', b)
            cond_facts(('alt', [(a, flip(b)) for a, b in inner[1]]), pos, neg)
        elif inner[0] == 'or':
            for x in inner[1]:
                neg.append(x)
        else:
            neg.append(inner)   # atoms, and conjunctions as a whole
    elif c[0] == 'alt':
        live = [(i, a, b) for i, (a, b) in enumerate(c[1]) if b != FALSE]
        if len(live) == 1:
            i, a, b = live[0]
            for a2, _ in c[1][:i]:
                if a2 != TRUE:
                    cond_facts(('not', a2), pos, neg)
            if a != TRUE:
                cond_facts(a, pos, neg)
            if b != TRUE:
                cond_facts(b, pos, neg)
    elif c not in (TRUE, FALSE):
        pos.append(c)
    return pos, neg


def cond_under(c, pos, neg, depth=0):
    """truth of condition c under known facts: True / False / None (unknown)"""
    if c == TRUE:
        return True
    if c == FALSE:
        return False
    if depth > 30:
        return None
    if any(c == f for f in pos):
        return True
    if any(c == f for f in neg):
        return False
    k = c[0]
    if k == 'okcond':
        return cond_under(c[1], pos, neg, depth + 1)
    if k == 'not':
        r = cond_under(c[1], pos, neg, depth + 1)
        return None if r is None else not r
    if k == 'and':
        rs = [cond_under(x, pos, neg, depth + 1) for x in c[1]]
        if any(r is False for r in rs):
            return False
        return True if all(r is True for r in rs) else None
    if k == 'or':
        rs = [cond_under(x, pos, neg, depth + 1) for x in c[1]]
        if any(r is True for r in rs):
            return True
        return False if all(r is False for r in rs) else None
    if k == 'alt':
        for a, b in c[1]:
            ra = cond_under(a, pos, neg, depth + 1)
            if ra is True:
                return cond_under(b, pos, neg, depth + 1)
            if ra is None:
                return None
        return None
    if k == 'is':
        # a value has exactly one variant
        for f in pos:
            if f[0] == 'is' and f[1] == c[1] and f[2] != c[2]:
                return False
    return None


def prune(term, pos, neg, memo=None, depth=0):
    """simplify conditional values under known facts"""
    if not pos and not neg:
        return term
    if memo is None:
        memo = {}
    if not isinstance(term, tuple) or not term or depth > 60:
        return term
    if id(term) in memo:
        return memo[id(term)]
    k = term[0]
    if k in ('closure', 'tmpl', 'star', 'elem', 'param', 'lit', 'path'):
        r = term
    elif k == 'alt':
        arms = []
        r = None
        for c, v in term[1]:
            truth = cond_under(c, pos, neg)
            if truth is True:
                arms.append((TRUE, prune(v, pos, neg, memo, depth + 1)))
                break
            if truth is False:
                continue
            arms.append((c, prune(v, pos, neg, memo, depth + 1)))
            if c == TRUE:
                break
        if len(arms) == 1 and arms[0][0] == TRUE:
            r = arms[0][1]
        elif not arms:
            r = term
        else:
            r = ('alt', arms)
    elif isinstance(k, str):
        r = tuple(prune(x, pos, neg, memo, depth + 1) if isinstance(x, tuple) else
                  ([prune(y, pos, neg, memo, depth + 1) if isinstance(y, tuple) else y for y in x] if isinstance(x, list) else x) for x in term)
    else:
        r = tuple(prune(x, pos, neg, memo, depth + 1) if isinstance(x, tuple) else x for x in term)
    memo[id(term)] = r
    return r


class Env:
    """lexically scoped environment: `let` defines in the innermost scope, mutation of an existing local writes through to
    the scope that defines it (so effects inside `if`/`match`/loop bodies survive the block)"""
    __slots__ = ('d', 'parent')

    def __init__(self, parent=None, d=None):
        self.d = d if d is not None else {}
        self.parent = parent

    def child(self):
        return Env(self)

    def __contains__(self, k):
        e = self
        while e is not None:
            if k in e.d:
                return True
            e = e.parent
        return False

    def __getitem__(self, k):
        e = self
        while e is not None:
            if k in e.d:
                return e.d[k]
            e = e.parent
        raise KeyError(k)

    def get(self, k, default=None):
        e = self
        while e is not None:
            if k in e.d:
                return e.d[k]
            e = e.parent
        return default

    def __setitem__(self, k, v):
        self.d[k] = v

    def assign(self, k, v):
        e = self
        while e is not None:
            if k in e.d:
                e.d[k] = v
                return
            e = e.parent
        self.d[k] = v


class Interp:
    NO_INLINE = set()

    def __init__(self, crate):
        self.c = crate
        self.accs = {}       # id -> {'entries': [ {cond, val, loops, line} ], 'fn':..., 'name':...}
        self.effects = {}    # fn qname -> [ {kind, cond, loops, ...} ]
        self.next_id = 0
        self.stack = []
        self.frames = []
        self.summaries = {}
        self.unknowns = []
        self.templates = {}
        self.inline_calls = []   # (caller, callee, line)
        self.field_types = {}
        import schema       # a failure to read the pinned naga sources is an engine failure, never a silently weaker analysis
        for sname, fields in schema.load().structs.items():
            if sname.startswith('naga::'):
                for fname, fty in fields:
                    self.field_types.setdefault(fname, set()).add(fty)
        if not self.field_types:
            raise RuntimeError('no struct fields read from the pinned naga source')

    # --- helpers ---------------------------------------------------------------------------------------------------
    def resolve(self, segs):
        segs = list(segs)
        if segs and segs[0] == 'Self' and self.frames and self.frame.get('self_ty'):
            segs = self.frame['self_ty'].split('::') + segs[1:]
        uses = self.frame.get('uses') if self.frames else None
        if uses and segs and segs[0] in uses:
            segs = uses[segs[0]].split('::') + segs[1:]
        r = self.c.resolve(self.frame['mod'], segs)
        if len(segs) == 1 and r == segs[0] and segs[0][:1].isupper():
            # a name that nothing declares: a variant brought in by a glob import of an enum (`use wgpu::VertexFormat::*;` in the block or the module)
            globs = list(self.frame.get('globs') or []) + list((self.c.mods.get(self.frame['mod']) or {}).get('globs') or [])
            for g in globs:
                gp = self.c.resolve(self.frame['mod'], g.split('::'))
                vs = None
                if gp in self.c.enums:
                    vs = [v_['name'] for v_ in self.c.enums[gp].get('variants', [])]
                else:
                    try:
                        import schema
                        en = schema.load().enums.get(gp)
                        vs = list(en) if en else None
                    except Exception:
                        vs = None
                if vs and segs[0] in vs:
                    return gp + '::' + segs[0]
        return r

    const_busy = set()

    def fresh(self, prefix):
        self.next_id += 1
        return f'{prefix}{self.next_id}'

    def unknown(self, why, node):
        u = ('unknown', why, node.get('line', 0) if isinstance(node, dict) else 0, self.frames[-1]['fn'] if self.frames else '')
        self.unknowns.append(u)
        return u

    @property
    def frame(self):
        return self.frames[-1]

    def pathcond(self):
        cs = [c for c in self.frame['conds']]
        if not cs:
            return TRUE
        return ('and', list(cs)) if len(cs) > 1 else cs[0]

    def effect(self, kind, **kw):
        e = {'kind': kind, 'cond': self.pathcond(), 'loops': list(self.frame['loops']), 'fn': self.frame['fn']}
        e['in'] = self.frame['callee']
        e.update(kw)
        if kind == 'diverge':
            prev = self.effects.get(self.frames[0]['fn'], [])
            if prev and prev[-1]['kind'] == 'diverge' and prev[-1].get('line') == e.get('line') and prev[-1]['in'] == e['in'] and prev[-1]['cond'] == e['cond']:
                return prev[-1]         # the same exit seen twice (as a statement and as the value of its block)
        self.effects.setdefault(self.frames[0]['fn'], []).append(e)
        return e

    # --- functions -----------------------------------------------------------------------------------------------------
    def summarize(self, q):
        """abstract value of a function applied to its own symbolic parameters"""
        if q in self.summaries:
            return self.summaries[q]
        f = self.c.fns[q]
        args = []
        for p in list(f['params']):
            nm = p['pat'].get('name', '_')
            cs = self.c.context_struct(f['mod'], p['ty']) if nm not in ('self', '_') and not p.get('synthetic') else None
            if cs:
                # a parameter that is a context record (a crate struct carrying the module / the options next to derived tables): its fields are
                # read as parameters of their own (`context.module` is "the module parameter" of this function, `context.options` its options),
                # so that the rules find module and options by type whether they arrive one by one or bundled
                fields = {}
                for fl in self.c.structs[cs].get('fields', []):
                    if not fl.get('name'):
                        continue
                    sn = f"{nm}.{fl['name']}"
                    fields[fl['name']] = ('param', q, sn)
                    if not any(pp['pat'].get('name') == sn for pp in f['params']):
                        f['params'].append({'pat': {'k': 'PIdent', 'line': f.get('line', 0), 'name': sn, 'by_ref': False, 'mut': False, 'sub': None}, 'ty': fl['ty'], 'synthetic': True})
                args.append(('struct', cs, fields))
            elif not p.get('synthetic'):
                args.append(('param', q, nm))
        self.summaries[q] = None
        v = self.call_fn(q, args, top=True)
        self.summaries[q] = v
        return v

    def call_fn(self, q, args, top=False, line=0):
        f = self.c.fns[q]
        if q in self.stack or (self.frames and self.c.same_recursive_component(self.frame['callee'], q)):
            e = ('reccall', q, list(args))
            if self.frames:
                self.effect('reccall', callee=q, args=list(args), line=line)
            return e
        self.stack.append(q)
        fr = {'fn': q if top or not self.frames else self.frames[-1]['fn'], 'callee': q, 'conds': [] if top or not self.frames else list(self.frame['conds']),
              'loops': [] if top or not self.frames else list(self.frame['loops']), 'returns': [], 'mod': f['mod'], 'env_stack': []}
        self.frames.append(fr)
        env = Env()
        if f.get('impl_of'):
            fr['self_ty'] = self.c.resolve(f['mod'], [f['impl_of']])
        fr['param_types'] = {p['pat'].get('name'): p['ty'].replace(' ', '') for p in f['params'] if p['pat'].get('name')}
        for p, a in zip(f['params'], args):
            self.bind(p['pat'], a, env)
        fr['nconds0'] = len(fr['conds'])
        fr['nloops0'] = len(fr['loops'])
        val = self.block(f['body'], env)
        if val[0] == 'acc':
            saved = fr['conds']
            fr['conds'] = fr['conds'][:fr['nconds0']]
            val = self.acc_view(val)
            fr['conds'] = saved
        self.frames.pop()
        self.stack.pop()
        if fr['returns']:
            val = ('alt', fr['returns'] + [(TRUE, val)])
        return val

    # --- patterns ------------------------------------------------------------------------------------------------------
    def is_cond(self, scrut, variant):
        """`scrut` matches enum variant `variant`; decided statically when the scrutinee is a constant variant (or a choice of them)"""
        def tail2(p):
            return '::'.join(p.split('::')[-2:])
        if scrut[0] == 'path' and '::' in scrut[1] and '::' in variant:
            return TRUE if tail2(scrut[1]) == tail2(variant) else FALSE
        if scrut[0] == 'alt' and scrut[1] and all(v[0] in ('path', 'diverge') for _, v in scrut[1]) and '::' in variant:
            return ('alt', [(c, (TRUE if v[0] == 'path' and tail2(v[1]) == tail2(variant) else FALSE)) for c, v in scrut[1]])
        return ('is', scrut, variant)

    def pat_binds(self, pat):
        k = pat['k']
        if k == 'PIdent':
            return not (pat['sub'] is None and self.is_variant_ident(pat['name']))
        for key in ('elems', 'cases'):
            if key in pat and any(self.pat_binds(p) for p in pat[key]):
                return True
        if k == 'PStruct':
            return any(self.pat_binds(f['pat']) for f in pat['fields'])
        return False

    def is_variant_ident(self, name):
        return name[:1].isupper() and name not in ('Self',)

    def constructed(self, v, depth=0):
        """the value is spelled out by the crate's own code: a variant of a crate enum (with or without payload), possibly inside Ok / Err, or a
        choice of such values - patterns on it are decided here instead of staying symbolic (an intermediate representation such as
        `enum BindingResource { Buffer, Texture { dim, .. }, Sampler { .. } }` built by one function and matched by another)"""
        if v[0] in ('ok', 'err'):
            return depth < 3 and (v[0] == 'err' or self.constructed(v[1], depth + 1) or True)
        if v[0] == 'path':
            return v[1].rsplit('::', 1)[0] in self.c.enums
        if v[0] == 'struct':
            return v[1].rsplit('::', 1)[0] in self.c.enums
        if v[0] == 'alt' and depth < 3:
            vals = [x for _, x in v[1] if x[0] != 'diverge']
            return bool(vals) and all(self.constructed(x, depth + 1) for x in vals)
        return False

    def bool_alt(self, arms):
        """a choice whose alternatives are all TRUE / FALSE with exactly one TRUE: the condition of that alternative (and not of the earlier ones,
        except those that exclude it anyway: another variant of the same scrutinee)"""
        if all(m in (TRUE, FALSE) for _, m in arms):
            ts = [i for i, (_, m) in enumerate(arms) if m == TRUE]
            if not ts:
                return FALSE
            if len(ts) == 1:
                i = ts[0]
                ci = arms[i][0]
                pre = []
                for c, _ in arms[:i]:
                    if c[0] == 'is' and ci[0] == 'is' and c[1] == ci[1] and c[2] != ci[2]:
                        continue
                    pre.append(self.neg(c))
                cs = pre + ([ci] if ci != TRUE else [])
                return TRUE if not cs else cs[0] if len(cs) == 1 else ('and', cs)
        return ('alt', arms)

    def static_match(self, pat, v, env):
        """match a pattern against a constructed value (see `constructed`): the condition (TRUE / FALSE / a choice of them) with the pattern's
        variables bound in env, or None when the pattern / value pair is not of that kind"""
        k = pat['k']
        if v[0] == 'alt':
            conds, envs = [], []
            for c, x in v[1]:
                if x[0] == 'diverge':
                    conds.append((c, FALSE))
                    envs.append({})
                    continue
                e2 = Env()
                m = self.static_match(pat, x, e2)
                if m is None:
                    return None
                conds.append((c, m))
                envs.append(e2.d if hasattr(e2, 'd') else {})
            names = []
            for e2 in envs:
                for n_ in e2:
                    if n_ not in names:
                        names.append(n_)
            for n_ in names:
                arms = [(('and', [c, m]) if m != TRUE else c, e2[n_]) for (c, m), e2 in zip(conds, envs) if n_ in e2 and m != FALSE]
                env[n_] = arms[0][1] if len(arms) == 1 else ('alt', arms[:-1] + [(TRUE, arms[-1][1])])
            return self.bool_alt(conds + [(TRUE, FALSE)])
        if k == 'PWild':
            return TRUE
        if k == 'PIdent' and not (pat['sub'] is None and self.is_variant_ident(pat['name']) and pat['name'] not in env):
            env[pat['name']] = v
            return TRUE if pat['sub'] is None else self.static_match(pat['sub'], v, env)
        if k == 'PTupleStruct' and pat['path']['segs'][-1] in ('Ok', 'Err') and v[0] in ('ok', 'err') and len(pat['elems']) == 1:
            if (pat['path']['segs'][-1] == 'Ok') != (v[0] == 'ok'):
                return FALSE
            inner = pat['elems'][0]
            if self.constructed(v[1]) and inner['k'] in ('PStruct', 'PPath', 'PTupleStruct', 'PIdent', 'PWild', 'POr'):
                return self.static_match(inner, v[1], env)
            return self.bind(inner, v[1], env)
        if k in ('PPath', 'PIdent', 'PStruct', 'PTupleStruct') and v[0] in ('path', 'struct'):
            segs = pat['path']['segs'] if k != 'PIdent' else [pat['name']]
            want = self.resolve(segs)
            have = v[1]
            if have.rsplit('::', 1)[0] not in self.c.enums:
                return None
            same_enum = want.rsplit('::', 1)[0] == have.rsplit('::', 1)[0] or want.rsplit('::', 1)[0].split('::')[-1] in ('Self',)
            if not same_enum and want.split('::')[-2:-1] != have.split('::')[-2:-1]:
                return None
            if want.split('::')[-1] != have.split('::')[-1]:
                return FALSE
            conds = []
            if k == 'PStruct' and v[0] == 'struct':
                for f in pat['fields']:
                    if f['name'] not in v[2]:
                        return None
                    c = self.bind(f['pat'], v[2][f['name']], env)
                    if c != TRUE:
                        conds.append(c)
            elif k == 'PTupleStruct' and v[0] == 'struct':
                for i, e_ in enumerate(pat['elems']):
                    if str(i) not in v[2]:
                        return None
                    c = self.bind(e_, v[2][str(i)], env)
                    if c != TRUE:
                        conds.append(c)
            return TRUE if not conds else conds[0] if len(conds) == 1 else ('and', conds)
        if k == 'POr':
            cs = [self.static_match(cs_, v, env) for cs_ in pat['cases']]
            if any(c is None for c in cs):
                return None
            return TRUE if TRUE in cs else FALSE if all(c == FALSE for c in cs) else ('or', cs)
        return None

    def bind(self, pat, scrut, env):
        """bind pattern variables, return the condition under which the pattern matches"""
        k = pat['k']
        if k in ('PTupleStruct', 'PStruct', 'PPath') and scrut[0] in ('alt', 'ok', 'err', 'struct') and self.constructed(scrut):
            r = self.static_match(pat, scrut, env)
            if r is not None:
                return r
        if scrut[0] == 'alt' and ((k == 'PTupleStruct' and pat['path']['segs'][-1] in ('Some', 'None')) or (k in ('PIdent', 'PPath') and
                                                                                                        (pat.get('name') == 'None' or pat.get('path', {}).get('segs', [''])[-1] == 'None'))):
            oc, ov = self.as_opt(scrut, assume_option=True)
            if oc is not None:
                scrut = ('opt', oc, ov)
        if scrut[0] == 'opt' and ((k == 'PIdent' and pat['name'] == 'None' and pat['sub'] is None) or (k == 'PPath' and pat['path']['segs'][-1] == 'None')):
            return self.neg(scrut[1])
        if k == 'PIdent':
            if pat['sub'] is None and self.is_variant_ident(pat['name']) and pat['name'] not in env:
                return self.is_cond(scrut, self.resolve([pat['name']]))
            env[pat['name']] = scrut
            if pat['sub'] is not None:
                return self.bind(pat['sub'], scrut, env)
            return TRUE
        if k in ('PWild', 'PRest'):
            return TRUE
        if k == 'PPath':
            p_ = self.resolve(pat['path']['segs'])
            # a named constant in pattern position (`(ScalarKind::Bool, naga::BOOL_WIDTH) => ..`) compares with its value
            ce = self.c.consts.get(p_, {}).get('expr') if p_ in self.c.consts else None
            if ce is None and p_.startswith(('naga::', 'wgpu::')) and p_.count('::') == 1 and p_.rsplit('::', 1)[-1].isupper():
                ce = self.library_consts().get(p_)
            if isinstance(ce, dict) and ce.get('k') == 'Lit':
                return ('eq', scrut, self.lit(ce))
            return self.is_cond(scrut, p_)
        if k == 'PTupleStruct':
            v = self.resolve(pat['path']['segs'])
            conds = [('is', scrut, v)]
            if v in ('Some', 'std::option::Option::Some', 'Option::Some') and scrut[0] == 'opt':
                conds = [scrut[1]]
                fp, fn_ = cond_facts(scrut[1])
                sub = [prune(scrut[2], fp, fn_)]
            else:
                sub = None
            for i, e in enumerate(pat['elems']):
                st = sub[i] if sub else (('unwrap', scrut) if v in ('Some', 'Ok') else ('vf', scrut, v, str(i)))
                c = self.bind(e, st, env)
                if c != TRUE:
                    conds.append(c)
            return conds[0] if len(conds) == 1 else ('and', conds)
        if k == 'PStruct':
            v = self.resolve(pat['path']['segs'])
            if v in self.c.structs:
                # destructuring a crate struct is irrefutable: plain field projections
                conds = []
                for f in pat['fields']:
                    c = self.bind(f['pat'], self.field(scrut, f['name']), env)
                    if c != TRUE:
                        conds.append(c)
                return TRUE if not conds else conds[0] if len(conds) == 1 else ('and', conds)
            conds = [('is', scrut, v)]
            for f in pat['fields']:
                c = self.bind(f['pat'], ('vf', scrut, v, f['name']), env)
                if c != TRUE:
                    conds.append(c)
            return conds[0] if len(conds) == 1 else ('and', conds)
        if k == 'PSlice' and not pat['elems']:
            # `[]`: the sequence is empty - the complement of `[first, rest @ ..]`
            return self.neg(('is', ('mcall', scrut, 'split_first', []), 'Some'))
        if k == 'PSlice' and len(pat['elems']) == 2 and pat['elems'][1].get('k') in ('PIdent', 'PRest') and \
                (pat['elems'][1]['k'] == 'PRest' or (pat['elems'][1].get('sub') or {}).get('k') == 'PRest'):
            # `[first, rest @ ..]` is `Some((first, rest)) = seq.split_first()`
            sf = ('mcall', scrut, 'split_first', [])
            conds = [('is', sf, 'Some')]
            c = self.bind(pat['elems'][0], ('tf', ('unwrap', sf), 0), env)
            if c != TRUE:
                conds.append(c)
            if pat['elems'][1]['k'] == 'PIdent':
                env[pat['elems'][1]['name']] = ('tf', ('unwrap', sf), 1)
            return conds[0] if len(conds) == 1 else ('and', conds)
        if k in ('PTuple', 'PSlice'):
            conds = []
            if scrut[0] == 'elem':
                body = self.elem_body(scrut)
                if body is not None and body[0] == 'tuple':
                    scrut = body
            for i, e in enumerate(pat['elems']):
                comp = scrut[1][i] if scrut[0] == 'tuple' and i < len(scrut[1]) else self.field(scrut, str(i)) if scrut[0] == 'found' else ('tf', scrut, i)
                if scrut[0] == 'alt' and pat['k'] == 'PTuple':
                    # `let (a, b) = match x { Some((p, q)) => (Some(p), Some(q)), None => (None, None) }`: each component is the choice of that
                    # component; a choice between Some(..) and None is the Option it spells out
                    comp = self.field(scrut, str(i))
                    oc, ov = self.as_opt(comp)
                    if oc is not None:
                        pos_, neg_ = cond_facts(oc)
                        comp = ('opt', prune(oc, [], []), prune(ov, pos_, neg_))
                c = self.bind(e, comp, env)
                if c != TRUE:
                    conds.append(c)
            if not conds:
                return TRUE
            return conds[0] if len(conds) == 1 else ('and', conds)
        if k == 'PLit':
            return ('eq', scrut, self.lit(pat['lit']))
        if k == 'POr':
            return ('or', [self.bind(cs, scrut, env) for cs in pat['cases']])
        return ('t', self.unknown('pattern ' + k, pat))

    def lit(self, l):
        if l.get('suffix') and l['ty'] in ('int', 'float'):
            return ('lit', l['ty'], l['v'], l['suffix'])      # `0f64`: a Rust value of that primitive type (quote! prints it with its suffix)
        return ('lit', l['ty'], l['v'])

    # --- conditions ----------------------------------------------------------------------------------------------------
    def cond(self, e, env):
        k = e['k']
        if k == 'Unary' and e['op'] == '!':
            return self.neg(self.cond(e['expr'], env))
        if k == 'Binary' and e['op'] in ('&', '|') and (boolish(e['l']) or boolish(e['r'])):
            # non-short-circuit and / or of two boolean operands
            e = dict(e, op={'&': '&&', '|': '||'}[e['op']])
        if k == 'Binary' and e['op'] in ('&&', '||'):
            a = self.cond(e['l'], env)
            # bindings of `if let` on the left are visible on the right
            b = self.cond(e['r'], env)
            return ('and', [a, b]) if e['op'] == '&&' else ('or', [a, b])
        if k == 'Binary' and e['op'] in ('==', '!='):
            c = ('eq', self.expr(e['l'], env), self.expr(e['r'], env))
            return c if e['op'] == '==' else ('not', c)
        if k == 'LetCond':
            s = self.expr(e['expr'], env)
            return self.bind(e['pat'], s, env)
        if k == 'Macro' and e['name'] == 'matches' and 'm_expr' in e:
            s = self.expr(e['m_expr'], env)
            env2 = env.child()
            c = self.bind(e['m_pat'], s, env2)
            if e['m_guard'] is not None:
                c = ('and', [c, self.cond(e['m_guard'], env2)])
            return c
        if k == 'Lit' and e['ty'] == 'bool':
            return TRUE if e['v'] else FALSE
        v = self.expr(e, env)
        return self.as_cond(v)

    def as_cond(self, v):
        if v[0] in ('is', 'eq', 'not', 'and', 'or', 'true', 'false', 't', 'okcond'):
            return v
        if v[0] == 'lit' and v[1] == 'bool':
            return TRUE if v[2] else FALSE
        if v[0] == 'alt':
            return ('alt', [(c, self.as_cond(x)) for c, x in v[1]])
        return ('t', v)

    def neg(self, c):
        if c == TRUE:
            return FALSE
        if c == FALSE:
            return TRUE
        if c[0] == 'not':
            return c[1]
        return ('not', c)

    # --- blocks / statements ---------------------------------------------------------------------------------------------
    def block(self, b, env):
        env = env.child()
        val = ('tuple', [])
        stmts = b['stmts']
        for st in stmts:
            if st['k'] == 'ItemStmt' and st['item'].get('k') == 'Use':
                for u in st['item']['uses']:
                    if u['alias'] != '*':
                        self.frame.setdefault('uses', {})[u['alias']] = u['path']
                    elif u['path'] not in self.frame.setdefault('globs', []):
                        self.frame['globs'].append(u['path'])
        for st in stmts:
            if st['k'] == 'ItemStmt' and st['item'].get('k') == 'Const' and st['item'].get('expr') is not None:
                env[st['item']['name']] = self.expr(st['item']['expr'], Env())       # a constant sees no locals
        for i, st in enumerate(stmts):
            k = st['k']
            if k == 'Let':
                if st['init'] is None:
                    continue
                self.frame['let_ty'] = (st.get('ty') or '').replace(' ', '')
                try:
                    v = self.expr(st['init'], env, let_name=st['pat'].get('name') if st['pat']['k'] == 'PIdent' else None,
                                  let_mut=st['pat'].get('mut', False))
                finally:
                    self.frame['let_ty'] = ''
                lt = (st.get('ty') or '').replace(' ', '')
                if 'Punctuated<' in lt and lt.rstrip('>').endswith(('Token![,]', 'Comma', 'token::Comma')) and v[0] in ('star', 'tuple', 'acc'):
                    # syn's Punctuated<T, Token![,]> collected from a sequence prints its elements separated by commas (no trailing comma):
                    # interpolating it is `#(#xs),*`
                    v = ('punct', v, ',')
                c = self.bind(st['pat'], v, env)
                if st.get('else') is not None and c != TRUE:
                    # let-else: diverging branch, then the rest of the block runs under the pattern's condition
                    self.frame['conds'].append(self.neg(c))
                    self.expr(st['else'], env.child())
                    self.frame['conds'].pop()
                    self.frame['conds'].append(c)
            elif k == 'ExprStmt':
                last = i == len(stmts) - 1 and not st['semi']
                v = self.expr(st['expr'], env, stmt=not last)
                if last:
                    val = v
                elif v[0] == 'diverge':
                    if v[1] not in ('return', 'break', 'continue'):
                        self.effect('diverge', what=v[1], line=v[2])
                    val = v
                    break   # the rest of the block is unreachable
            elif k == 'ItemStmt':
                it = st['item']
                if it.get('k') == 'Use':
                    for u in it['uses']:
                        if u['alias'] != '*':
                            self.frame.setdefault('uses', {})[u['alias']] = u['path']
        return val

    def with_cond(self, c, fn):
        self.frame['conds'].append(c)
        try:
            return fn()
        finally:
            self.frame['conds'].pop()

    # --- expressions -----------------------------------------------------------------------------------------------------
    def expr(self, e, env, let_name=None, let_mut=False, stmt=False):
        k = e['k']
        m = getattr(self, 'e_' + k, None)
        if m is None:
            return self.unknown('expression kind ' + k, e)
        if k in ('Call', 'Macro', 'MethodCall'):
            return m(e, env, let_name=let_name, let_mut=let_mut)
        return m(e, env)

    def e_Path(self, e, env, **kw):
        segs = e['path']['segs']
        if len(segs) == 1 and segs[0] in env:
            return env[segs[0]]
        p = self.resolve(segs)
        if p in ('None', 'std::option::Option::None', 'Option::None'):
            return ('opt', FALSE, ('tuple', []))
        if p in self.c.consts and self.c.consts[p].get('expr') is not None and p not in self.const_busy:
            it = self.c.consts[p]
            self.const_busy.add(p)
            saved = self.frame['mod']
            self.frame['mod'] = it['mod']
            try:
                return self.expr(it['expr'], Env())
            finally:
                self.frame['mod'] = saved
                self.const_busy.discard(p)
        if p.startswith(('naga::', 'wgpu::')) and p.rsplit('::', 1)[-1].isupper() and p.count('::') == 1:
            lc = self.library_consts()
            if p in lc:
                return self.lit(lc[p])
        return ('path', p)

    def library_consts(self):
        """public literal constants of the pinned naga / wgpu-types sources (Engine D)"""
        if getattr(self, '_libconsts', None) is None:
            try:
                import schema
                self._libconsts = dict(getattr(schema.load(), 'consts', {}) or {})
            except Exception:
                self._libconsts = {}
        return self._libconsts

    def e_Lit(self, e, env, **kw):
        return self.lit(e)

    def e_Ref(self, e, env, **kw):
        return self.expr(e['expr'], env)

    def e_Unary(self, e, env, **kw):
        if e['op'] == '*':
            return self.expr(e['expr'], env)
        if e['op'] == '!':
            return self.neg(self.cond(e['expr'], env))
        return ('un', e['op'], self.expr(e['expr'], env))

    def e_Binary(self, e, env, **kw):
        if e['op'] in ('&&', '||', '==', '!=') or (e['op'] in ('&', '|') and (boolish(e['l']) or boolish(e['r']))):
            return self.cond(e, env)
        if e['op'].endswith('=') and e['op'] not in ('<=', '>='):
            op = e['op'][:-1]
            return self.e_Assign({'k': 'Assign', 'line': e['line'], 'l': e['l'], 'r': {'k': 'Binary', 'line': e['line'], 'op': op, 'l': e['l'], 'r': e['r']}}, env)
        return ('bin', e['op'], self.expr(e['l'], env), self.expr(e['r'], env))

    def e_Cast(self, e, env, **kw):
        return ('cast', self.expr(e['expr'], env), e['ty'].replace(' ', ''))

    def e_Field(self, e, env, **kw):
        if e.get('member') == '0' and self.frame.get('callee') in self.c.fns:
            bty = self.c.static_type(e['base'], self.frame['callee'])
            if bty and self.c.is_newtype(bty):
                return self.expr(e['base'], env)      # `.0` of a transparent newtype: the value itself
        b = self.expr(e['base'], env)
        return self.field(b, e['member'])

    def elem_body(self, el):
        """the value an element of a pipeline equals: for an element of map(...)/filter_map(...) results (possibly sorted or
        de-duplicated afterwards, possibly flattened) the body of the producing iteration, with its loop variables standing for
        the iteration that produced this element"""
        src = el[2]
        while src[0] == 'reorder':
            src = src[1]
        if src[0] != 'star':
            return None
        body = src[3]
        if src[5]:
            inner = body
            while inner[0] == 'reorder':
                inner = inner[1]
            if inner[0] == 'star':
                return inner[3]
            return None
        if body == ('elem', src[2], src[1]):
            return None
        return body

    def field(self, b, name):
        if b[0] == 'struct' and name in b[2]:
            return b[2][name]
        if b[0] == 'found' and b[1][0] == 'star' and b[1][3][0] in ('tuple', 'struct') and not b[1][5]:
            # a component of the first selected element of a mapped sequence (`records.first()?.1.size`): that component computed from the first
            # selected element of the underlying sequence
            st_ = b[1]
            inner_ = self.field(st_[3], name)
            if not (inner_[0] in ('f', 'tf') and inner_[1] == st_[3]):
                first_ = ('found', ('star', st_[1], st_[2], ('elem', st_[2], st_[1]), st_[4], False), b[2])
                return self.subst_elem(inner_, st_[2], first_)
        if b[0] == 'elem':
            body = self.elem_body(b)
            if body is not None and body[0] in ('struct', 'tuple', 'alt'):
                r = self.field(body, name)
                if r[0] not in ('f', 'tf') or r[1] != body:
                    return r
        if b[0] == 'alt':
            arms = [(c, self.field(v, name)) for c, v in b[1]]
            if arms and arms[-1][0] == TRUE and all(v == arms[0][1] for _, v in arms):
                return arms[0][1]       # every arm of a total choice yields the same value for this field
            return ('alt', arms)
        if name.isdigit():
            if b[0] == 'tuple' and int(name) < len(b[1]):
                return b[1][int(name)]
            return ('tf', b, int(name))
        return ('f', b, name)

    def e_Index(self, e, env, **kw):
        return ('idx', self.expr(e['base'], env), self.expr(e['index'], env))

    def e_Tuple(self, e, env, **kw):
        return ('tuple', [self.expr(x, env) for x in e['elems']])

    def e_Array(self, e, env, **kw):
        return ('tuple', [self.expr(x, env) for x in e['elems']])

    def e_Repeat(self, e, env, **kw):
        return ('repeat', self.expr(e['expr'], env), self.expr(e['len'], env))

    def e_Range(self, e, env, **kw):
        return ('range', self.expr(e['from'], env) if e['from'] else None, self.expr(e['to'], env) if e['to'] else None, e['limits'])

    def e_StructLit(self, e, env, **kw):
        p = self.resolve(e['path']['segs'])
        if p in ('syn::Index', 'Index') and any(f['name'] == 'index' for f in e['fields']):
            # syn::Index { index, span } prints the unsuffixed decimal literal `index`
            return unsuffixed([self.expr(f['expr'], env) for f in e['fields'] if f['name'] == 'index'][0])
        vals = {f['name']: self.expr(f['expr'], env) for f in e['fields']}
        decl = self.c.structs.get(p)
        if decl:
            # a growable list kept in a field of a crate record (a builder: `Self { derives: vec![..] }` then `self.derives.push(..)` in chained
            # setters): the list literal becomes an accumulator, so that later pushes through the record are seen
            vec_fields = {fl.get('name') for fl in decl.get('fields', []) if fl.get('ty', '').replace(' ', '').startswith('Vec<')}
            for fn_ in vec_fields & set(vals):
                ent = self.list_entries(vals[fn_])
                if ent is not None:
                    aid = self.fresh('acc')
                    pc = self.pathcond()
                    self.accs[aid] = {'entries': [{'cond': c_ if pc == TRUE else (pc if c_ == TRUE else ('and', [pc, c_])), 'val': v_, 'loops': list(self.frame['loops']),
                                                   'line': e['line'], 'fn': self.frame['callee']} for c_, v_ in ent],
                                      'fn': self.frame['fn'], 'name': fn_, 'line': e['line']}
                    vals[fn_] = ('acc', aid)
        return ('struct', p, vals)

    def list_entries(self, v, cond=TRUE, depth=0):
        """[(condition, element)] of a list literal or a conditional choice of list literals (`if c { vec![a, b] } else { vec![a] }`), else None"""
        if v[0] == 'tuple':
            return [(cond, x) for x in v[1]]
        if v[0] == 'alt' and depth < 4:
            out, prior = [], []
            for c, x in v[1]:
                cc = [cond] if cond != TRUE else []
                cc += [self.neg(p_) for p_ in prior] + ([c] if c != TRUE else [])
                sub = self.list_entries(x, TRUE if not cc else cc[0] if len(cc) == 1 else ('and', cc), depth + 1)
                if sub is None:
                    return None
                out.extend(sub)
                prior.append(c)
            return out
        return None

    def e_Block(self, e, env, **kw):
        return self.block(e, env)

    def e_Closure(self, e, env, **kw):
        return ('closure', e, env.child(), self.frame['mod'], self.frame['callee'])

    def e_Return(self, e, env, **kw):
        v = self.expr(e['expr'], env) if e['expr'] else ('tuple', [])
        # path condition relative to the function frame that is being evaluated
        fr = self.frame
        cs = fr['conds'][fr.get('nconds0', 0):]
        c = TRUE if not cs else (cs[0] if len(cs) == 1 else ('and', list(cs)))
        fr['returns'].append((c, v))
        if fr.get('for_ids'):
            # leaves the function from inside a `for` loop: the remaining elements are not visited
            self.effect('exit', what='return', line=e['line'], for_loops=list(fr['for_ids']), unit=(v == ('tuple', [])))
        return ('diverge', 'return', e['line'])

    def e_Try(self, e, env, **kw):
        if e['expr'].get('k') == 'MethodCall' and e['expr'].get('method') == 'try_for_each':
            # `iter.try_for_each(|x| ..)?` is `for x in iter { ..? }`: the only way to stop early is the error that leaves the function
            self.frame['propagated_try_for_each'] = e['expr'].get('line')
        v = self.expr(e['expr'], env)
        fr = self.frame
        cs = fr['conds'][fr.get('nconds0', 0):]
        oc, ov = self.as_opt(v)
        if oc is not None and v[0] != 'opt':
            v = ('opt', oc, ov)
        ok = v[1] if v[0] == 'opt' else ('t', ('is_ok', v))
        c = self.neg(ok)
        pc = c if not cs else ('and', list(cs) + [c])
        if c != FALSE:
            fr['returns'].append((pc, ('propagate', v)))
        # everything after `?` runs only when it succeeded
        fr['conds'].append(('okcond', ok) if ok not in (TRUE, FALSE) else ok)
        fr.setdefault('try_conds', 0)
        if v[0] == 'opt':
            pos, neg = cond_facts(ok)
            return prune(v[2], pos, neg)
        return ('unwrap', v)

    def e_If(self, e, env, **kw):
        env2 = env.child()
        c = self.cond(e['cond'], env2)
        n0 = len(self.frame['conds'])
        self.frame['conds'].append(c)
        a = self.block(e['then'], env2)
        del self.frame['conds'][n0:]
        self.frame['conds'].append(self.neg(c))
        if e['else'] is not None:
            b = self.expr(e['else'], env.child())
        else:
            b = ('tuple', [])
        del self.frame['conds'][n0:]
        if a[0] == 'diverge' and a[1] != 'return':
            self.effect_at(c, 'diverge', what=a[1], line=a[2])
        if b[0] == 'diverge' and b[1] != 'return':
            self.effect_at(self.neg(c), 'diverge', what=b[1], line=b[2])
        if a[0] == 'diverge' and a[1] in ('return', 'panic', 'todo', 'unimplemented', 'unreachable', 'continue', 'break') and e['else'] is None:
            # code after `if c { return .. }` / `if c { panic!() }` runs under !c
            self.frame['conds'].append(self.neg(c))
        arms = [(c, a)]
        if b[0] == 'alt':
            arms += b[1]
        else:
            arms.append((TRUE, b))
        return ('alt', arms)

    def effect_at(self, c, kind, **kw):
        self.frame['conds'].append(c)
        self.effect(kind, **kw)
        self.frame['conds'].pop()

    def e_Match(self, e, env, **kw):
        s = self.expr(e['expr'], env)
        arms = []
        prior = []
        expanded = []
        for a in e['arms']:
            if a['pat']['k'] == 'POr' and self.pat_binds(a['pat']):
                for case in a['pat']['cases']:
                    expanded.append({'pat': case, 'guard': a['guard'], 'body': a['body'], 'line': a['line'], 'k': 'Arm'})
            else:
                expanded.append(a)
        for a in expanded:
            env2 = env.child()
            c = self.bind(a['pat'], s, env2)
            if a['guard'] is not None:
                c = ('and', [c, self.cond(a['guard'], env2)])
            n0 = len(self.frame['conds'])
            full = c if not prior else ('and', [self.neg(p) for p in prior] + [c])
            self.frame['conds'].append(full)
            v = self.expr(a['body'], env2)
            del self.frame['conds'][n0:]
            if v[0] == 'diverge' and v[1] != 'return':
                self.effect_at(full, 'diverge', what=v[1], line=v[2])
            arms.append((c, v))
            prior.append(c)
        if s[0] == 'mcall' and s[2] == 'try_into' and not s[3] and len(arms) == 2 and arms[1][1][0] == 'diverge' and arms[1][1][1] in ('panic', 'unreachable') and \
                arms[0][1][0] == 'call' and arms[0][1][1] == 'Literal::usize_unsuffixed' and arms[0][1][2] == [('unwrap', s)]:
            # `match v.try_into() { Ok(v) => Literal::usize_unsuffixed(v), Err(_) => panic!(..) }`: the checked form of `v as usize` (the literal
            # takes a usize, so that is what the conversion targets); the panic on overflow is recorded above
            return ('call', 'Literal::usize_unsuffixed', [('cast', s[1], 'usize')])
        return ('alt', arms)

    def assigned_locals(self, node, out):
        if isinstance(node, dict):
            if node.get('k') == 'Assign' and node['l'].get('k') == 'Path' and len(node['l']['path']['segs']) == 1:
                out.add(node['l']['path']['segs'][0])
            if node.get('k') == 'Binary' and node.get('op', '').endswith('=') and node['op'] not in ('==', '!=', '<=', '>=') and node['l'].get('k') == 'Path' \
                    and len(node['l']['path']['segs']) == 1:
                out.add(node['l']['path']['segs'][0])
            if node.get('k') == 'Closure':
                return
            for v in node.values():
                self.assigned_locals(v, out)
        elif isinstance(node, list):
            for v in node:
                self.assigned_locals(v, out)

    def e_For(self, e, env, **kw):
        src = self.expr(e['expr'], env)
        return self.for_over(e, src, env)

    def for_over(self, e, src, env):
        # the iterated value is a choice of lists (`for b in nested_blocks(stmt)` with a helper that matches on the statement): the loop runs
        # over the list of the arm that applies
        if src[0] == 'alt' and src[1] and all(v[0] in ('tuple', 'star', 'alt', 'reorder', 'diverge') or (v[0] == 'new' and v[1] == 'Vec') for _, v in src[1]):
            prior = []
            for c, v in src[1]:
                full = c if not prior else ('and', [self.neg(p) for p in prior] + [c])
                prior.append(c)
                if v[0] == 'diverge' or (v[0] == 'tuple' and not v[1]) or v[0] == 'new':
                    continue
                self.frame['conds'].append(full)
                try:
                    self.for_over(e, v, env)
                finally:
                    self.frame['conds'].pop()
            return ('tuple', [])
        # a literal list (`for b in [accept, reject]`): the body runs once per element, no loop frame needed
        if src[0] == 'tuple' and 0 < len(src[1]) <= 8 and not self.assigned_in(e['body'], env):
            for el in src[1]:
                env2 = env.child()
                self.bind(e['pat'], el, env2)
                n0 = len(self.frame['conds'])
                self.block_in(e['body'], env2)
                del self.frame['conds'][n0:]
            return ('tuple', [])
        eid = self.fresh('e')
        src, body0, conds = self.as_pipeline(src, eid)
        env2 = env.child()
        c = self.bind(e['pat'], body0, env2)
        # locals that are updated in the loop body carry a value from iteration to iteration: a fold
        names = set()
        self.assigned_locals(e['body'], names)
        names = {n for n in names if n in env}
        before = {n: env[n] for n in names}
        for n in names:
            env2[n] = ('accvar', eid, n)
        self.frame['loops'].append((eid, src, conds))
        n0 = len(self.frame['conds'])
        self.frame.setdefault('loop_bases', []).append(n0)
        self.frame.setdefault('for_ids', []).append(eid)
        n_eff0 = len(self.effects.get(self.frames[0]['fn'], []))
        self.block_in(e['body'], env2)
        self.frame['for_ids'].pop()
        # a `break` / value-less `return` somewhere in the body ends the iteration early: whatever this loop builds (pushes, repetitions) covers
        # only a prefix of the source - recorded as a selection condition of the loop, so that every rule demanding an unfiltered source sees it
        for x_ in self.effects.get(self.frames[0]['fn'], [])[n_eff0:]:
            if x_['kind'] == 'exit' and eid in x_.get('for_loops', ()) and x_.get('unit'):
                conds.append(('t', ('unknown', 'early-exit', x_['line'], x_['what'])))
                break
        del self.frame['conds'][n0:]   # conditions introduced by `continue` / `break` guards end with the loop body
        self.frame['loop_bases'].pop()
        self.frame['loops'].pop()
        for n in sorted(names):
            step = env2.d.get(n)
            if step is not None and step != ('accvar', eid, n):
                env.assign(n, ('fold', src, eid, list(conds), before[n], ('accvar', eid, n), step))
        return ('tuple', [])

    def assigned_in(self, body, env):
        names = set()
        self.assigned_locals(body, names)
        return {n for n in names if n in env}

    def block_in(self, b, env):
        """execute a block in the given scope (no new child scope), so that the loop machinery can read the updated locals"""
        stmts = b['stmts']
        for i, st in enumerate(stmts):
            k = st['k']
            if k == 'Let':
                if st['init'] is None:
                    continue
                v = self.expr(st['init'], env, let_name=st['pat'].get('name') if st['pat']['k'] == 'PIdent' else None, let_mut=st['pat'].get('mut', False))
                c = self.bind(st['pat'], v, env)
                if st.get('else') is not None and c != TRUE:
                    self.frame['conds'].append(self.neg(c))
                    self.expr(st['else'], env.child())
                    self.frame['conds'].pop()
                    self.frame['conds'].append(c)
            elif k == 'ExprStmt':
                v = self.expr(st['expr'], env, stmt=True)
                if v[0] == 'diverge':
                    if v[1] not in ('return', 'break', 'continue'):
                        self.effect('diverge', what=v[1], line=v[2])
                    break
        return ('tuple', [])

    def e_While(self, e, env, **kw):
        self.frame['loops'].append((self.fresh('w'), ('unknown', 'while', e['line'], ''), []))
        self.block(e['body'], env.child())
        self.frame['loops'].pop()
        # a local that is reassigned in the body carries a value from iteration to iteration; `while` / `loop` recurrences are not summarised:
        # afterwards its value is unknown (never the value after one iteration)
        for n in sorted(self.assigned_in(e['body'], env)):
            env.assign(n, ('unknown', 'loop-carried', e['line'], n))
        return ('tuple', [])

    def e_Loop(self, e, env, **kw):
        return self.e_While(e, env)

    def e_Break(self, e, env, **kw):
        if self.frame.get('for_ids'):
            self.effect('exit', what='break', line=e['line'], for_loops=self.frame['for_ids'][-1:], unit=True)
        return ('diverge', 'break', e['line'])

    def e_Continue(self, e, env, **kw):
        return ('diverge', 'continue', e['line'])

    def e_Assign(self, e, env, **kw):
        tgt = self.expr(e['l'], env)
        val = self.expr(e['r'], env)
        self.effect('assign', target=tgt, value=val, line=e['line'])
        if e['l']['k'] == 'Path' and len(e['l']['path']['segs']) == 1:
            name = e['l']['path']['segs'][0]
            old = env.get(name)
            bases = self.frame.get('loop_bases') or []
            cs = self.frame['conds'][bases[-1]:] if bases else self.frame['conds'][self.frame.get('nconds0', 0):]
            pc = TRUE if not cs else (cs[0] if len(cs) == 1 else ('and', list(cs)))
            env.assign(name, val if pc == TRUE or old is None else ('alt', [(pc, val), (TRUE, old)]))
        return ('tuple', [])

    def e_Other(self, e, env, **kw):
        return self.unknown('unsupported syntax: ' + e.get('text', '')[:60], e)

    def e_LetCond(self, e, env, **kw):
        return self.cond(e, env)

    # --- macros ----------------------------------------------------------------------------------------------------------
    def e_Macro(self, e, env, let_name=None, let_mut=False):
        n = e['name']
        if n in ('quote', 'parse_quote', 'quote_spanned') and e.get('tokens') is not None:
            # syn::parse_quote!(tokens) parses the quoted tokens into a syntax node that prints as those tokens; quote_spanned!(span=> tokens) only
            # sets the span
            if n == 'quote_spanned':
                toks_ = e['tokens']
                for i_, t_ in enumerate(toks_):
                    if t_.get('t') == 'p' and t_.get('v') == '=' and i_ + 1 < len(toks_) and toks_[i_ + 1].get('t') == 'p' and toks_[i_ + 1].get('v') == '>':
                        e = dict(e, tokens=toks_[i_ + 2:])
                        break
            return self.quote(e, env)
        if n == 'format_ident':
            # quote's format_ident!(fmt, args..) is Ident::new(&format!(fmt, args..), Span::call_site()) (its `span = ..` argument only moves the span;
            # Ident arguments are formatted without a raw prefix, like their text)
            e2 = dict(e, name='format', args=[a for a in (e.get('args') or []) if not (a.get('k') == 'Assign')])
            return ('call', 'Ident::new', [self.e_Macro(e2, env)])
        if n == 'format':
            args = e.get('args') or []
            tmpl = args[0]['v'] if args and args[0]['k'] == 'Lit' else '?'
            vals = [self.expr(a, env) for a in args[1:]]
            # normal form: every placeholder positional (`{}` / `{:spec}`), captured identifiers and positional arguments in order
            import re
            ordered = []
            nxt = [0]

            def sub(mm):
                nm, spec = mm.group(1), mm.group(2) or ''
                if nm and not nm.isdigit():
                    ordered.append(env.get(nm, ('path', nm)))
                elif nm and nm.isdigit():
                    ordered.append(vals[int(nm)] if int(nm) < len(vals) else ('unknown', 'format index', e['line'], ''))
                else:
                    ordered.append(vals[nxt[0]] if nxt[0] < len(vals) else ('unknown', 'format arg', e['line'], ''))
                    nxt[0] += 1
                return '{' + spec + '}'
            norm = re.sub(r'\{([A-Za-z_][A-Za-z0-9_]*|[0-9]+)?(:[^}]*)?\}', sub, tmpl.replace('{{', '\x00').replace('}}', '\x01')).replace('\x00', '{{').replace('\x01', '}}')
            # a placeholder filled with a string literal (`format!("{prefix}{name}{suffix}")` in a helper called with "ENTRY_" and "") is that text
            if any(isinstance(o_, tuple) and o_[0] == 'lit' and o_[1] == 'str' for o_ in ordered):
                parts, kept, k_ = re.split(r'(\{\{|\}\}|\{[^{}]*\})', norm), [], 0
                for i_, pt in enumerate(parts):
                    if pt.startswith('{') and pt.endswith('}') and pt not in ('{{', '}}'):
                        o_ = ordered[k_]
                        k_ += 1
                        if pt == '{}' and isinstance(o_, tuple) and o_[0] == 'lit' and o_[1] == 'str' and isinstance(o_[2], str):
                            parts[i_] = o_[2].replace('{', '{{').replace('}', '}}')
                        else:
                            kept.append(o_)
                norm, ordered = ''.join(parts), kept
                if not ordered and '{' not in norm:
                    return ('lit', 'str', norm)
            if norm == '{}' and len(ordered) == 1:
                return ordered[0]       # format!("{}", x) is the text of x (to_string() is an identity on text in this domain, see IDENTITY)
            return ('fmt', norm, ordered, [])
        if n in ('panic', 'todo', 'unimplemented', 'unreachable'):
            return ('diverge', n, e['line'])
        if n == 'matches':
            return self.cond(e, env)
        if n == 'vec':
            args = e.get('args') or []
            if let_name is not None and let_mut:
                aid = self.fresh('acc')
                self.accs[aid] = {'entries': [], 'fn': self.frame['fn'], 'name': let_name, 'line': e['line']}
                for a in args:
                    self.accs[aid]['entries'].append({'cond': self.pathcond(), 'val': self.expr(a, env), 'loops': list(self.frame['loops']), 'line': e['line']})
                return ('acc', aid)
            return ('tuple', [self.expr(a, env) for a in args])
        if n == 'assert' and (e.get('args') or []):
            # assert!(cond, ..) is `if !cond { panic!(..) }`
            c = self.cond(e['args'][0], env)
            self.effect_at(self.neg(c), 'diverge', what='panic', line=e['line'])
            self.frame['conds'].append(c)       # what follows runs under the asserted condition
            return ('tuple', [])
        if n in ('eprintln', 'println', 'eprint', 'print', 'debug_assert', 'assert', 'assert_eq', 'debug_assert_eq'):
            if n.startswith(('assert', 'debug_assert')):
                self.effect('diverge', what=n, line=e['line'])
            return ('tuple', [])
        if n == 'include_str':
            return ('call', 'include_str!', [self.expr(a, env) for a in (e.get('args') or [])])
        return self.unknown('macro ' + n, e)

    def quote(self, e, env):
        tid = f"{self.c.relfile(self.c.fns[self.frame['callee']]['file'])}:{e['line']}"
        items = self.tmpl_items(e['tokens'], env, e)
        t = ('tmpl', tid, items, self.frame['callee'])
        self.templates.setdefault(tid, {'fn': self.frame['callee'], 'line': e['line'], 'text': self.tmpl_text(items)})
        return t

    def dispatch_constructed(self, recv, m, e, env):
        """a method called on a value the crate's own code spelled out as a choice of values of crate types (strategy objects behind `&dyn Trait` /
        `Box<dyn Trait>`, or an enum of unit structs): under each condition the implementation for that alternative's type runs"""
        def type_of(x):
            if x[0] == 'path' and x[1] in self.c.structs:
                return x[1]
            if x[0] == 'struct' and x[1] in self.c.structs:
                return x[1]
            return None

        def impl_for(ty):
            mod, short = ty.rsplit('::', 1)
            inh = self.c.method_of(ty, m)
            if inh:
                return inh
            c_ = [q for q in self.c.fns if q.startswith(f'{mod}::<{short} as ') and q.endswith('>::' + m)]
            if len(c_) == 1:
                return c_[0]
            # a provided method of the only crate trait the type implements that has one of this name
            pairs = self.c.__dict__.get('impl_pairs', set())
            c_ = [q for q in self.c.fns if self.c.fns[q].get('trait_default') and q.endswith('::' + m) and
                  (any(q2.startswith(f'{mod}::<{short} as {self.c.fns[q]["trait_default"]}>') for q2 in self.c.fns) or
                   any(ty_ == short and tr_.split('::')[-1].split('<')[0] == self.c.fns[q]['trait_default'] for _, ty_, tr_ in pairs))]
            return c_[0] if len(c_) == 1 else None

        def ok(x, depth=0):
            if x[0] == 'alt' and depth < 6:
                return all(ok(y, depth + 1) for _, y in x[1])
            if x[0] == 'diverge':
                return True
            ty = type_of(x)
            return ty is not None and impl_for(ty) is not None and impl_for(ty) not in self.stack
        if not ok(recv) or (recv[0] != 'alt' and type_of(recv) is None):
            return None
        if recv[0] != 'alt' and self.c.method_of(type_of(recv), m):
            return None
        args = [self.expr(a, env) for a in e['args']]

        def go(x):
            if x[0] == 'alt':
                out, n0 = [], len(self.frame['conds'])
                for c, y in x[1]:
                    self.frame['conds'].append(c)          # the implementation runs under the condition of its alternative (and not of the earlier ones)
                    out.append((c, go(y)))
                    self.frame['conds'].pop()
                    self.frame['conds'].append(self.neg(c))
                del self.frame['conds'][n0:]
                return ('alt', out)
            if x[0] == 'diverge':
                return x
            q = impl_for(type_of(x))
            self.inline_calls.append((self.frame['callee'], q, e['line']))
            return self.call_fn(q, [x] + args, line=e['line'])
        return go(recv)

    def tokens_of(self, v, node):
        """a value of a crate type with a hand-written `impl ToTokens` interpolated into a template: the tokens its `to_tokens` appends"""
        leaves = []

        def collect(x, depth=0):
            if x[0] == 'alt' and depth < 6:
                for _, y in x[1]:
                    collect(y, depth + 1)
            elif x[0] == 'opt' and depth < 6:
                collect(x[2], depth + 1)
            elif x[0] != 'diverge':
                leaves.append(x)
        collect(v)
        tys = set()
        for x in leaves:
            if x[0] == 'path' and x[1].rsplit('::', 1)[0] in self.c.enums:
                tys.add(x[1].rsplit('::', 1)[0])
            elif x[0] == 'struct' and (x[1] in self.c.structs or x[1].rsplit('::', 1)[0] in self.c.enums):
                tys.add(x[1] if x[1] in self.c.structs else x[1].rsplit('::', 1)[0])
            else:
                return v
        if len(tys) != 1:
            return v
        ty = tys.pop()
        mod, short = ty.rsplit('::', 1)
        q = f'{mod}::<{short} as ToTokens>::to_tokens'
        if q not in self.c.fns:
            q = f'{mod}::<{short} as quote::ToTokens>::to_tokens'
        if q not in self.c.fns or q in self.stack:
            return v
        aid = self.fresh('acc')
        self.accs[aid] = {'entries': [], 'fn': self.frame['fn'], 'name': '__tokens', 'line': node.get('line', 0), 'ts': True,
                          'site': f"{self.c.relfile(self.c.fns[q]['file'])}:{self.c.fns[q].get('line', 0)}", 'callee': q}
        self.inline_calls.append((self.frame['callee'], q, node.get('line', 0)))
        self.call_fn(q, [v, ('acc', aid)], line=node.get('line', 0))
        return self.acc_view(('acc', aid))

    def synthetic_tmpl(self, toks, env, e):
        tid = f"{self.c.relfile(self.c.fns[self.frame['callee']]['file'])}:{e['line']}"
        items = self.tmpl_items(toks, env, e)
        self.templates.setdefault(tid, {'fn': self.frame['callee'], 'line': e['line'], 'text': self.tmpl_text(items)})
        return ('tmpl', tid, items, self.frame['callee'])

    def acc_view(self, v):
        """a Vec filled by exactly one `push` inside one finished loop is the same list as the corresponding iterator chain:
        present it as the equivalent iteration pipeline so that `for`-loop and iterator-chain formulations give one grammar"""
        if v[0] != 'acc':
            return v
        if self.accs[v[1]].get('ts'):
            return self.ts_view(v)
        ent = self.accs[v[1]]['entries']
        cur = {l[0] for l in self.frame['loops']}
        if len(ent) != 1:
            return v
        e = ent[0]
        loops = [l for l in e['loops'] if l[0] not in cur]
        if len(loops) != 1:
            return v
        eid, src, conds = loops[0]
        # conditions under which the push happens, relative to the loop (drop what already held when the loop started)
        outer = self.frame['conds']
        extra = [c for c in (e['cond'][1] if e['cond'][0] == 'and' else [e['cond']]) if c != TRUE and not any(c == o for o in outer)]
        flat = []
        for c in extra:
            if c[0] == 'and':
                flat.extend(c[1])
            else:
                flat.append(c)
        flat = [c for c in flat if not any(c == o or (o[0] == 'and' and c in o[1]) for o in outer)]
        return ('star', src, eid, e['val'], list(conds) + flat, bool(e.get('flat')))

    def ts_view(self, v):
        """a TokenStream built by appending (`extend`) is the template that interpolates the appended pieces in order: a piece appended
        inside a finished loop becomes a repetition `#(#piece)*`, a piece appended under a condition an optional hole"""
        a = self.accs[v[1]]
        cur = {l[0] for l in self.frame['loops']}
        outer = self.frame['conds']
        items = []
        for i, e in enumerate(a['entries']):
            loops = [l for l in e['loops'] if l[0] not in cur]
            extra = [c for c in (e['cond'][1] if e['cond'][0] == 'and' else [e['cond']]) if c != TRUE and not any(c == o for o in outer)]
            flat = []
            for c in extra:
                flat.extend(c[1] if c[0] == 'and' else [c])
            flat = [c for c in flat if not any(c == o or (o[0] == 'and' and c in o[1]) for o in outer)]
            if len(loops) > 1:
                return v
            if len(loops) == 1:
                eid, src, conds = loops[0]
                items.append(('rep', [('hole', f'piece{i}', ('star', src, eid, e['val'], list(conds) + flat, bool(e.get('flat'))))], ''))
            elif e.get('flat'):
                items.append(('rep', [('hole', f'piece{i}', e['val'])], ''))
            else:
                val = e['val'] if not flat else ('opt', flat[0] if len(flat) == 1 else ('and', flat), e['val'])
                items.append(('hole', f'piece{i}', val))
        self.templates.setdefault(a['site'], {'fn': a['callee'], 'line': a['line'], 'text': self.tmpl_text(items)})
        return ('tmpl', a['site'], items, a['callee'])

    def tmpl_items(self, ts, env, node):
        items = []
        i = 0
        buf = []

        def flush():
            if buf:
                items.append(('tok', toks_text(buf)))
                buf.clear()
        while i < len(ts):
            t = ts[i]
            if t['t'] == 'p' and t['v'] == '#' and i + 1 < len(ts):
                nx = ts[i + 1]
                if nx['t'] == 'i':
                    flush()
                    v = env.get(nx['v'])
                    if v is None:
                        v = self.unknown('quote hole #' + nx['v'] + ' not bound', node)
                    v = self.acc_view(v)
                    v = self.tokens_of(v, node)
                    if v[0] == 'punct':
                        items.append(('rep', [('hole', nx['v'], self.acc_view(v[1]))], v[2]))
                    else:
                        items.append(('hole', nx['v'], v))
                    i += 2
                    continue
                if nx['t'] == 'g' and nx['d'] == '(':
                    # repetition  #( ... ) sep *
                    j = i + 2
                    sep = []
                    while j < len(ts) and not (ts[j]['t'] == 'p' and ts[j]['v'] == '*'):
                        sep.append(ts[j])
                        j += 1
                    if j < len(ts):
                        flush()
                        inner = self.tmpl_items(nx['s'], env, node)
                        items.append(self.lockstep_rep(inner, toks_text(sep), node))
                        i = j + 1
                        continue
            if t['t'] == 'g':
                flush()
                inner = self.tmpl_items(t['s'], env, node)
                close = {'(': ')', '{': '}', '[': ']', '': ''}[t['d']]
                items.append(('tok', t['d']))
                items.extend(inner)
                items.append(('tok', close))
                i += 1
                continue
            buf.append(t)
            i += 1
        flush()
        return items

    def lockstep_rep(self, inner, sep, node):
        """`#( .. #a .. #b .. ),*` with two or more interpolated sequences advances them in lockstep (quote zips them).  When all of them are
        element-wise images of one source with the same selection (e.g. the two halves of an `unzip()`), the repetition is one iteration over
        that source producing the inner template per element - the form `#(#items),*` with `items` a sequence of templates has."""
        holes_ = [it for it in inner if it[0] == 'hole']
        # (a single interpolated sequence with fixed tokens around each element - `#(#name: wgpu::VertexStepMode,)*` - is the same thing with one
        # sequence; the plain `#(#items)sep*` is left as it is)
        if not holes_ or (len(holes_) < 2 and len(inner) == 1) or any(it[0] == 'rep' for it in inner) or not all(h[2][0] == 'star' and not h[2][5] for h in holes_):
            return ('rep', inner, sep)
        if len(holes_) == 1 and holes_[0][2][3][0] in ('tmpl', 'alt', 'opt'):
            return ('rep', inner, sep)      # fixed tokens around a sequence of templates (`#(self.#calls)*`): left as written
        eid = self.fresh('e')
        pipes = [self.as_pipeline(h[2], eid) for h in holes_]
        s0, _, c0 = pipes[0]
        for sx, bx, cx in pipes[1:]:
            if alpha_key((s0, c0)) != alpha_key((sx, cx)):
                return ('rep', inner, sep)
        bodies = {id(h): b for h, (_, b, _) in zip(holes_, pipes)}
        new_inner = [('hole', it[1], bodies[id(it)]) if it[0] == 'hole' else it for it in inner]
        callee = self.frame['callee']
        tid = f"{self.c.relfile(self.c.fns[callee]['file'])}:{node.get('line', 0)}:rep{len(self.templates)}"
        self.templates.setdefault(tid, {'fn': callee, 'line': node.get('line', 0), 'text': self.tmpl_text(new_inner)})
        star = ('star', s0, eid, ('tmpl', tid, new_inner, callee), list(c0), False)
        return ('rep', [('hole', '__lockstep', star)], sep)

    def tmpl_text(self, items):
        return items_text(items)

    # --- calls -----------------------------------------------------------------------------------------------------------
    def e_Call(self, e, env, let_name=None, let_mut=False):
        f = e['func']
        args = [self.expr(a, env) for a in e['args']]
        if f['k'] == 'Path':
            segs = f['path']['segs']
            if len(segs) == 1 and segs[0] in env:
                callee = env[segs[0]]
                if callee[0] == 'closure':
                    return self.apply(callee, args)
                return self.call_value(callee, args)
            p = self.resolve(segs)
            if p in self.c.fns:
                self.inline_calls.append((self.frame['callee'], p, e['line']))
                return self.call_fn(p, args, line=e['line'])
            last = segs[-1]
            if last == 'new' and len(args) == 1 and len(segs) >= 2 and segs[-2] in ('Box', 'Rc', 'Arc'):
                return args[0]      # a smart pointer to the value: the value (ownership is not modelled)
            if args and '::' in p and p.rsplit('::', 1)[0] in self.c.enums and p not in self.c.fns and \
                    any(v_['name'] == last for v_ in self.c.enums[p.rsplit('::', 1)[0]].get('variants', [])):
                # a tuple variant of a crate enum: a constructed value with positional fields
                return ('struct', p, {str(i_): a_ for i_, a_ in enumerate(args)})
            if len(args) == 1 and p in self.c.structs and self.c.is_newtype(p):
                return args[0]      # transparent newtype: the wrapped value
            if args and p in self.c.structs and [fl.get('name') for fl in self.c.structs[p].get('fields', [])] == [str(i_) for i_ in range(len(args))]:
                return ('struct', p, {str(i_): a_ for i_, a_ in enumerate(args)})      # a tuple struct of the crate: positional fields
            if last in ('from', 'try_from') and len(args) == 1 and len(segs) >= 2:
                tyq = self.resolve(segs[:-1])
                if tyq in self.c.enums or tyq in self.c.structs:
                    mod_, short_ = tyq.rsplit('::', 1)
                    tr_ = 'From<' if last == 'from' else 'TryFrom<'
                    impls = [fq for fq in self.c.fns if fq.startswith(f'{mod_}::<{short_} as {tr_}') and fq.endswith('>::' + last)]
                    if len(impls) == 1:
                        self.inline_calls.append((self.frame['callee'], impls[0], e['line']))
                        return self.call_fn(impls[0], args, line=e['line'])
            if p in ('Some', 'Option::Some', 'std::option::Option::Some'):
                return ('opt', TRUE, args[0])
            if p in ('Ok', 'Result::Ok'):
                return ('ok', args[0])
            if p in ('Err', 'Result::Err'):
                return ('err', args[0])
            if last in ('new', 'with_capacity', 'default') and len(segs) >= 2 and segs[-2] in ('Vec', 'HashSet', 'BTreeMap', 'HashMap', 'BTreeSet', 'VecDeque') and \
                    (not args or last == 'with_capacity'):
                if segs[-2] == 'Vec' and let_name is not None and let_mut:
                    aid = self.fresh('acc')
                    self.accs[aid] = {'entries': [], 'fn': self.frame['fn'], 'name': let_name, 'line': e['line']}
                    return ('acc', aid)
                if segs[-2] == 'Vec' and last in ('new', 'default') and not let_mut:
                    return ('tuple', [])       # an empty Vec that is not bound mutably stays empty
                return ('new', segs[-2], self.fresh('c'), tuple(l[0] for l in self.frame['loops']), self.frame['callee'])
            if last in ('new', 'default') and len(segs) >= 2 and segs[-2] == 'TokenStream' and not args and let_name is not None and let_mut:
                # a token stream that is appended to (`ts.extend(quote!(..))`): an accumulator whose view is a synthetic template
                aid = self.fresh('acc')
                self.accs[aid] = {'entries': [], 'fn': self.frame['fn'], 'name': let_name, 'line': e['line'], 'ts': True,
                                  'site': f"{self.c.relfile(self.c.fns[self.frame['callee']]['file'])}:{e['line']}", 'callee': self.frame['callee']}
                return ('acc', aid)
            if last in ('new', 'default') and len(segs) >= 2 and segs[-2] == 'TokenStream' and not args:
                return self.synthetic_tmpl([], env, e)        # the empty token stream is quote!()
            if last == 'from_iter' and len(segs) >= 2 and segs[-2] == 'TokenStream' and len(args) == 1:
                # TokenStream::from_iter(xs) concatenates the streams: quote!(#(#xs)*)
                env2 = env.child()
                env2['__ts_items'] = args[0]
                toks = [{'t': 'p', 'v': '#'}, {'t': 'g', 'd': '(', 's': [{'t': 'p', 'v': '#'}, {'t': 'i', 'v': '__ts_items'}]}, {'t': 'p', 'v': '*'}]
                return self.synthetic_tmpl(toks, env2, e)
            if p in ('std::iter::once', 'core::iter::once', 'iter::once') and len(args) == 1:
                return ('tuple', [args[0]])
            if last == 'new' and len(segs) >= 2 and segs[-2] == 'Ident':
                return ('call', 'Ident::new', args[:1])
            if last == 'new_raw' and len(segs) >= 2 and segs[-2] == 'Ident':
                return ('call', 'Ident::new_raw', args[:1])
            if last in ('call_site',) and len(segs) >= 2 and segs[-2] == 'Span':
                return ('call', 'Span::call_site', [])
            if len(segs) >= 2 and segs[-2] == 'Literal' and not p.startswith('naga::'):
                if last in WIDE_UNSUFFIXED and len(args) == 1:
                    return unsuffixed(args[0], last)
                return ('call', 'Literal::' + last, args)
            if len(segs) >= 2 and segs[-2] == 'LitInt' and last == 'new' and args and args[0][0] == 'mcall' and args[0][2] == 'to_string' and not args[0][3]:
                # syn::LitInt::new(&n.to_string(), span): the unsuffixed decimal literal n
                return unsuffixed(args[0][1], 'u32_unsuffixed')
            if len(segs) >= 2 and segs[-2] == 'LitStr' and last == 'new' and args:
                return ('call', 'Literal::string', args[:1])      # syn::LitStr::new(s, span) prints the string literal of s
            if len(segs) >= 2 and segs[-2] == 'Index' and last == 'from' and len(args) == 1 and p.startswith(('syn::', 'Index::')):
                # syn::Index::from(n) prints the unsuffixed decimal literal n (it asserts n < u32::MAX)
                return unsuffixed(args[0])
            return ('call', p, args)
        callee = self.expr(f, env)
        if callee[0] == 'closure':
            return self.apply(callee, args)
        return self.call_value(callee, args)

    def callable_choices(self, fn):
        """a callable read out of a literal table (`TABLE.iter().find(|row| row.0 == key).map(|row| (row.1)(..))`, `TABLE[i].1`) or chosen by a
        conditional: [(condition, crate function / closure)], first match wins, or None"""
        if fn[0] == 'alt':
            out = []
            for c, v in fn[1]:
                if v[0] == 'diverge':
                    continue
                if not ((v[0] == 'path' and v[1] in self.c.fns) or v[0] == 'closure'):
                    return None
                out.append((c, v))
            return out or None
        path = []
        x = fn
        while x[0] in ('tf', 'f') and len(path) < 3:
            path.append(x[2])
            x = x[1]
        if x[0] in ('unwrap',):
            x = x[1]
        if x[0] == 'found' and x[1][0] == 'star' and x[1][1][0] == 'tuple' and x[1][3] == ('elem', x[1][2], x[1][1]) and not x[1][5] and len(x[1][1][1]) <= 32:
            rows, eid, conds = x[1][1][1], x[1][2], x[1][4]
            out = []
            for r in rows:
                cell = r
                for k in reversed(path):
                    if cell[0] == 'tuple' and isinstance(k, int) and k < len(cell[1]):
                        cell = cell[1][k]
                    elif cell[0] == 'struct' and k in cell[2]:
                        cell = cell[2][k]
                    else:
                        return None
                if not ((cell[0] == 'path' and cell[1] in self.c.fns) or cell[0] == 'closure'):
                    return None
                cs = [self.subst_elem(c, eid, r) for c in conds]
                out.append((TRUE if not cs else cs[0] if len(cs) == 1 else ('and', cs), cell))
            return out or None
        return None

    def call_value(self, fn, args):
        """apply a callable value: closure literal, or the path of a crate function passed as a value"""
        if fn[0] == 'closure':
            return self.apply(fn, args)
        ch = self.callable_choices(fn) if fn[0] in ('alt', 'tf', 'f') else None
        if ch:
            out, n0 = [], len(self.frame['conds'])
            for c, v in ch:
                self.frame['conds'].append(c)
                out.append((c, self.call_value(v, args)))
                self.frame['conds'].pop()
                self.frame['conds'].append(self.neg(c))
            del self.frame['conds'][n0:]
            # no row matches: the lookup yields nothing and the unwrap / index panics
            return ('alt', out + [(TRUE, ('diverge', 'panic', 0))]) if fn[0] != 'alt' else ('alt', out)
        if fn[0] == 'path' and fn[1] in self.c.fns:
            self.inline_calls.append((self.frame['callee'], fn[1], 0))
            return self.call_fn(fn[1], args)
        if fn[0] == 'path' and args and fn[1] not in self.c.fns and len(fn[1].split('::')) == 2 and \
                fn[1].split('::')[0] in ('str', 'String', 'char', 'u8', 'u16', 'u32', 'u64', 'usize', 'i8', 'i16', 'i32', 'i64', 'isize', 'f32', 'f64', 'bool') and \
                fn[1].split('::')[1] not in ('max', 'min', 'from', 'new'):
            # a method of a primitive / string type passed as a function (`case: impl Fn(&str) -> String` called with `str::to_uppercase`): x.method(..)
            return self.e_MethodCall_value(args[0], fn[1].split('::')[1], args[1:])
        if fn[0] == 'path' and len(args) == 2 and fn[1].split('::')[-1] in ('max', 'min') and \
                fn[1].rsplit('::', 1)[0].split('::')[-1] in ('usize', 'u32', 'u64', 'i32', 'i64', 'u8', 'u16', 'Ord', 'cmp'):
            return ('mcall', args[0], fn[1].split('::')[-1], [args[1]])        # `usize::max` / `std::cmp::max` passed as a function: a.max(b)
        return ('callv', fn, args)

    def e_MethodCall_value(self, recv, m, args):
        """the value of `recv.m(args)` for already evaluated operands, for the methods that need no syntax (identity-like and plain library methods)"""
        if m in self.IDENTITY and not args:
            return recv
        return ('mcall', recv, m, list(args))

    def apply_detached(self, clo, args):
        """apply a closure term outside any function evaluation (used by rules to read off what a key / comparison closure computes)"""
        fr = {'fn': '$detached', 'callee': '$detached', 'conds': [], 'loops': [], 'returns': [], 'mod': clo[3], 'env_stack': [], 'nconds0': 0}
        self.frames.append(fr)
        try:
            return self.apply(clo, args)
        finally:
            self.frames.pop()
            self.effects.pop('$detached', None)
            for k_ in list(self.effects):
                if any(e_.get('in') == '$detached' for e_ in self.effects[k_]):
                    self.effects[k_] = [e_ for e_ in self.effects[k_] if e_.get('in') != '$detached']

    def apply(self, clo, args):
        """apply a closure term to argument terms"""
        _, node, cenv, mod = clo[:4]
        creator = clo[4] if len(clo) > 4 else None
        env = cenv.child()
        conds = []
        for p, a in zip(node['params'], args):
            c = self.bind(p, a, env)
            if c != TRUE:
                conds.append(c)
        fr = self.frame
        saved_mod = fr['mod']
        fr['mod'] = mod
        # what the closure's body does belongs to the function that wrote it (its templates, the calls it makes), not to the helper that applies it
        # (`stage_entries(module, stage, |entry_point| ..)`) - the compiler, too, attributes a closure to its creator
        saved_callee = fr['callee']
        if creator is not None and creator in self.c.fns and fr.get('fn') != '$detached':
            fr['callee'] = creator
        # closures have their own `return`/`?` scope
        saved_for, fr['for_ids'] = fr.get('for_ids', []), []
        saved_returns, saved_n0 = fr['returns'], fr.get('nconds0', 0)
        fr['returns'], fr['nconds0'] = [], len(fr['conds'])
        n0 = len(fr['conds'])
        v = self.expr(node['body'], env)
        del fr['conds'][n0:]
        if fr['returns']:
            v = ('alt', fr['returns'] + [(TRUE, v)])
        fr['returns'], fr['nconds0'] = saved_returns, saved_n0
        fr['for_ids'] = saved_for
        fr['mod'] = saved_mod
        fr['callee'] = saved_callee
        return v

    LIST_MUTATORS = ('pop', 'swap', 'swap_remove', 'drain', 'split_off', 'rotate_left', 'rotate_right', 'fill', 'resize', 'append', 'retain_mut',
                     'extend_from_slice', 'insert', 'remove', 'clear', 'retain')
    IDENTITY = {'as_ref', 'as_mut', 'as_deref', 'clone', 'cloned', 'copied', 'to_owned', 'iter', 'into_iter', 'iter_mut',
                'borrow', 'as_str', 'deref', 'by_ref', 'to_vec', 'as_slice', 'collect', 'into', 'as_bytes', 'borrow_mut',
                'to_token_stream', 'into_token_stream', 'peekable'}

    def as_pipeline(self, v, eid):
        """view a term as iteration pipeline: (source, body, conds)"""
        if v[0] == 'star':
            return v[1], self.rename_elem(v[3], v[2], eid), [self.rename_elem(c, v[2], eid) for c in v[4]]
        return v, ('elem', eid, v), []

    def rename_elem(self, t, old, new):
        if old == new:
            return t
        memo = {}

        def go(x):
            if isinstance(x, tuple):
                if id(x) in memo:
                    return memo[id(x)]
                if x and x[0] in ('elem', 'pos') and x[1] == old:
                    r = (x[0], new) + tuple(go(y) for y in x[2:])
                elif x and x[0] == 'closure':
                    r = x
                else:
                    r = tuple(go(y) for y in x)
                memo[id(x)] = r
                return r
            if isinstance(x, list):
                return [go(y) for y in x]
            if isinstance(x, dict):
                return {k: go(v) for k, v in x.items()}
            return x
        return go(t)

    def subst_elem(self, t, eid, new):
        """replace the element term of loop `eid` by `new` (used when an element escapes its loop: find / find_map)"""
        memo = {}

        def go(x):
            if isinstance(x, tuple):
                if id(x) in memo:
                    return memo[id(x)]
                if x and x[0] == 'elem' and x[1] == eid:
                    r = new
                elif x and x[0] == 'closure':
                    r = x
                else:
                    r = tuple(go(y) for y in x)
                memo[id(x)] = r
                return r
            if isinstance(x, list):
                return [go(y) for y in x]
            if isinstance(x, dict):
                return {k: go(v) for k, v in x.items()}
            return x
        return go(t)

    def e_MethodCall(self, e, env, let_name=None, let_mut=False):
        m = e['method']
        recv = self.expr(e['recv'], env)
        # method of a crate type (receiver type evident from the value or from the source) ------------------------------------------
        rty = None
        if recv[0] == 'struct':
            rty = recv[1]
        elif recv[0] == 'param' and recv[2] == 'self' and self.c.fns.get(recv[1], {}).get('impl_of'):
            rty = self.c.resolve(self.c.fns[recv[1]]['mod'], [self.c.fns[recv[1]]['impl_of']])
        elif self.frame['callee'] in self.c.fns:
            rty = self.c.static_type(e['recv'], self.frame['callee'])
        mq = self.c.method_of(rty, m) if rty else None
        if not mq and self.frame['callee'] in self.c.fns:
            mq = self.c.method_at(self.c.fns[self.frame['callee']]['file'], e.get('line'), m)
        if not mq and self.frame['callee'] in self.c.fns and self.c.fns[self.frame['callee']].get('trait_default') and \
                e['recv'].get('k') == 'Path' and e['recv']['path']['segs'] == ['self']:
            # inside a provided method of a crate trait, `self.m()` is the trait's own method m: its single implementation in the crate (the
            # body is compiled once, generically - there is no resolved instance to ask)
            tr = self.c.fns[self.frame['callee']]['trait_default']
            mod_ = self.c.fns[self.frame['callee']]['mod']
            cands = [q_ for q_ in self.c.fns if q_.startswith(mod_ + '::<') and q_.endswith(f' as {tr}>::{m}')] + \
                    ([f'{mod_}::{tr}::{m}'] if f'{mod_}::{tr}::{m}' in self.c.fns else [])
            if len(cands) == 1:
                mq = cands[0]
        if mq and self.c.fns[mq]['params'] and self.c.fns[mq]['params'][0]['pat'].get('name') == 'self':
            args = [self.expr(a, env) for a in e['args']]
            self.inline_calls.append((self.frame['callee'], mq, e['line']))
            return self.call_fn(mq, [recv] + args, line=e['line'])
        if not mq and recv[0] in ('alt', 'path', 'struct'):
            d = self.dispatch_constructed(recv, m, e, env)
            if d is not None:
                return d
        # side effects on accumulators / collections -----------------------------------------------------------------
        if m in ('to_tokens',) and len(e['args']) == 1:
            # `x.to_tokens(tokens)` appends the tokens of x to the stream: tokens.extend(x)
            tgt = self.expr(e['args'][0], env)
            if tgt[0] == 'acc' and self.accs[tgt[1]].get('ts'):
                v = self.tokens_of(self.acc_view(recv), e)
                self.accs[tgt[1]]['entries'].append({'cond': self.pathcond(), 'val': v, 'loops': list(self.frame['loops']), 'line': e['line'],
                                                      'fn': self.frame['callee'], 'flat': v[0] in ('star', 'reorder', 'acc')})
                return ('tuple', [])
        if m in ('first', 'next') and not e['args'] and recv[0] == 'star' and not recv[5]:
            # the first element of a selection is what `find` with that selection yields
            _, src_, eid_, body_, conds_, _ = recv
            c_ = TRUE if not conds_ else conds_[0] if len(conds_) == 1 else ('and', list(conds_))
            return ('opt', ('t', ('any', ('star', src_, eid_, ('elem', eid_, src_), [], False), c_)), ('found', recv, eid_))
        if m == 'push' and recv[0] == 'acc':
            v = self.expr(e['args'][0], env)
            self.accs[recv[1]]['entries'].append({'cond': self.pathcond(), 'val': v, 'loops': list(self.frame['loops']), 'line': e['line'],
                                                  'fn': self.frame['callee']})
            return ('tuple', [])
        if m == 'extend' and recv[0] == 'acc' and len(e['args']) == 1:
            v = self.acc_view(self.expr(e['args'][0], env))
            ts = self.accs[recv[1]].get('ts')
            self.accs[recv[1]]['entries'].append({'cond': self.pathcond(), 'val': v, 'loops': list(self.frame['loops']), 'line': e['line'],
                                                  'fn': self.frame['callee'], 'flat': (v[0] in ('star', 'reorder', 'acc')) if ts else True})
            return ('tuple', [])
        if m == 'retain' and recv[0] in ('acc', 'star', 'reorder') and len(e['args']) == 1 and e['recv']['k'] == 'Path' and len(e['recv']['path']['segs']) == 1:
            # `list.retain(|x| seen.insert(key(x)))` with a set created for the purpose: an order-preserving removal of every repeated key
            clo = self.expr(e['args'][0], env)
            if isinstance(clo, tuple) and clo and clo[0] == 'closure':
                A = ('param', '$key', 'a')
                try:
                    r = self.apply_detached(clo, [A])
                except Exception:
                    r = None
                if r is not None and r[0] == 't':
                    r = r[1]
                if r is not None and r[0] == 'mcall' and r[2] == 'insert' and len(r[3]) == 1 and r[1][0] == 'new' and r[1][1] in ('HashSet', 'BTreeSet') and \
                        r[1][3] == tuple(l[0] for l in self.frame['loops']) and r[1][4] == self.frame['callee']:
                    new = ('reorder', self.acc_view(recv), 'dedup_all_by_key', [clo, r[1]], self.pathcond())
                    env.assign(e['recv']['path']['segs'][0], new)
                    return ('tuple', [])
        if m == 'retain' and len(e['args']) == 1 and e['recv']['k'] == 'Path' and len(e['recv']['path']['segs']) == 1 and \
                len(self.frame['loops']) == self.frame.get('nloops0', 0) and len(self.frame['conds']) == self.frame.get('nconds0', 0) and \
                e['args'][0].get('k') == 'Closure' and recv[0] not in ('unknown', 'new', 'mcall', 'call', 'callv', 'diverge', 'lit'):
            # `list.retain(|x| keep(x))` with a side-effect-free predicate, outside any loop or branch of its function: from here on the variable denotes the
            # elements that satisfy it, in their order - the sequence `.filter(keep)` yields
            n0_ = len(self.effects.get(self.frames[0]['fn'], []))
            filt = self.iter_method('filter', self.acc_view(recv), e['args'], env, e)
            if filt[0] == 'star' and len(self.effects.get(self.frames[0]['fn'], [])) == n0_:
                env.assign(e['recv']['path']['segs'][0], filt)
                return ('tuple', [])
        if m in ('push', 'insert', 'extend', 'push_str', 'remove', 'clear', 'retain', 'update') or \
                (m in self.LIST_MUTATORS and recv[0] in ('acc', 'star', 'reorder', 'tuple')):
            args = [self.expr(a, env) for a in e['args']]
            self.effect('mutate', method=m, target=recv, args=args, line=e['line'])
            if recv[0] in ('acc', 'star', 'reorder') and e['recv']['k'] == 'Path' and len(e['recv']['path']['segs']) == 1 and \
                    not (m in ('push', 'extend') and recv[0] == 'acc'):
                # a list that was built by pushes / an iterator chain is altered in place afterwards (remove, retain, pop, clear, insert ..): the
                # variable no longer denotes the plain sequence - keep the alteration visible to every rule that looks at it
                env.assign(e['recv']['path']['segs'][0], ('mcall', self.acc_view(recv), m, args))
            return ('mcall', recv, m, args)
        if m in ('sort_by_key', 'dedup_by_key', 'sort', 'sort_by', 'dedup', 'reverse', 'sort_unstable', 'sort_unstable_by_key', 'truncate', 'dedup_by'):
            args = [self.expr(a, env) for a in e['args']]
            recv = self.acc_view(recv)
            new = ('reorder', recv, m, args, self.pathcond())
            if e['recv']['k'] == 'Path' and len(e['recv']['path']['segs']) == 1:
                env.assign(e['recv']['path']['segs'][0], new)
            return ('tuple', [])
        if m == 'collect' and not e['args']:
            # collecting into a set / map is not the identity on the sequence (order, duplicates): keep it visible to the rules
            target = (e.get('turbofish') or '').replace(' ', '') or (self.frame.get('let_ty', '') if let_name is not None else '')
            for kind in ('HashSet', 'BTreeSet', 'HashMap', 'BTreeMap', 'IndexSet', 'IndexMap'):
                if kind in target:
                    return ('mcall', recv, 'collect_into_' + kind, [])
        if m == 'flatten' and not e['args'] and recv[0] == 'tuple' and recv[1]:
            # `[Some(a), cond.then(|| b), Some(c)].into_iter().flatten()`: the elements that are present, in order - a list built by conditional pushes
            ents = []
            for x_ in recv[1]:
                oc, ov = self.as_opt(x_)
                if oc is None:
                    ents = None
                    break
                if oc != FALSE:
                    ents.append((oc, ov))
            if ents is not None:
                aid = self.fresh('acc')
                self.accs[aid] = {'entries': [], 'fn': self.frame['fn'], 'name': '__flatten', 'line': e['line']}
                base_ = self.pathcond()
                for oc, ov in ents:
                    c_ = oc if base_ == TRUE else (base_ if oc == TRUE else ('and', [base_, oc]))
                    self.accs[aid]['entries'].append({'cond': c_, 'val': ov, 'loops': list(self.frame['loops']), 'line': e['line'], 'fn': self.frame['callee']})
                return ('acc', aid)
        if m in self.IDENTITY and not e['args']:
            return recv
        if m in ('unwrap', 'expect'):
            if recv[0] == 'opt':
                return recv[2]
            return ('unwrap', recv)
        if m == 'ok':
            return recv
        if m == 'ok_or' and len(e['args']) == 1:
            # `opt.ok_or(err)` is `match opt { Some(v) => Ok(v), None => Err(err) }`
            oc, ov = self.as_opt(recv)
            if oc is not None:
                return ('alt', [(oc, ('ok', ov)), (TRUE, ('err', self.expr(e['args'][0], env)))])
        if m in ('is_some', 'is_none') and recv[0] == 'alt':
            oc, ov = self.as_opt(recv)
            if oc is not None:
                recv = ('opt', oc, ov)
        if m == 'is_some':
            return recv[1] if recv[0] == 'opt' else ('t', ('is_some', recv))
        if m == 'is_none':
            return self.neg(recv[1]) if recv[0] == 'opt' else ('not', ('t', ('is_some', recv)))
        # closures ---------------------------------------------------------------------------------------------------------
        args_nodes = e['args']
        if m == 'map_or_else' and len(args_nodes) == 2 and self.is_optionish(recv, e['recv']):
            # opt.map_or_else(d, f) is opt.map(f).unwrap_or_else(d)
            mapped = self.opt_method('map', recv, args_nodes[1:], env)
            return self.unwrap_or(mapped, self.apply(self.expr(args_nodes[0], env), []))
        if m in ('map', 'filter', 'filter_map', 'flat_map', 'any', 'all', 'find', 'for_each', 'position', 'inspect', 'and_then', 'unwrap_or_else',
                 'map_err', 'find_map', 'map_or', 'is_some_and', 'then', 'or_else', 'take_while', 'skip_while', 'max_by_key', 'min_by_key', 'try_for_each', 'map_while'):
            if m in ('map', 'and_then', 'map_or', 'is_some_and', 'filter') and self.is_optionish(recv, e['recv']) and \
                    not (m == 'filter' and recv[0] in ('star', 'acc', 'reorder', 'tuple')):
                return self.opt_method(m, recv, args_nodes, env)
            if m in ('unwrap_or_else', 'or_else'):
                d = self.apply(self.expr(args_nodes[0], env), [])
                return self.unwrap_or(recv, d)
            if m == 'map_err':
                return recv
            if m == 'then':
                v = self.apply(self.expr(args_nodes[0], env), [])
                return ('opt', self.as_cond(recv), v)
            return self.iter_method(m, recv, args_nodes, env, e)
        if m == 'fold' and len(args_nodes) == 2:
            init = self.expr(args_nodes[0], env)
            fn = self.expr(args_nodes[1], env)
            eid = self.fresh('e')
            src, body, conds = self.as_pipeline(recv, eid)
            accvar = ('accvar', eid, 'acc')
            self.frame['loops'].append((eid, src, conds))
            try:
                # an accumulator that is a collection mutated in place and handed back: apply the closure to the collection itself so that the
                # mutations are recorded on it (inside the loop); otherwise a genuine fold
                probe_marks = (len(self.effects.get(self.frames[0]['fn'], [])),)
                r = self.call_value(fn, [init if init[0] == 'new' else accvar, body])
            finally:
                self.frame['loops'].pop()
            if init[0] == 'new' and r == init:
                return init
            if init[0] == 'new':
                return ('mcall', recv, 'fold', [init, r])
            return ('fold', src, eid, list(conds), init, accvar, r)
        args = [self.expr(a, env) for a in args_nodes]
        if m == 'unwrap_or':
            return self.unwrap_or(recv, args[0])
        if m == 'then_some' and len(args) == 1:
            return ('opt', self.as_cond(recv), args[0])
        if m == 'unzip' and recv[0] == 'star':
            return ('tuple', [('star', recv[1], recv[2], self.field(recv[3], '0'), recv[4], recv[5]), ('star', recv[1], recv[2], self.field(recv[3], '1'), recv[4], recv[5])])
        if m == 'unzip':
            c, v = self.as_opt(recv)
            if c is not None:
                pos, neg = cond_facts(c)
                v = prune(v, pos, neg)
                return ('tuple', [('opt', c, self.field(v, '0')), ('opt', c, self.field(v, '1'))])
            return ('mcall', recv, m, args)
        if m == 'partition' and len(args) == 1 and args[0][0] == 'closure':
            # (elements satisfying the predicate, the others), each in the original order
            outs = []
            for negate in (False, True):
                eid = self.fresh('e')
                src, body, conds = self.as_pipeline(recv, eid)
                self.frame['loops'].append((eid, src, conds))
                try:
                    c = self.as_cond(self.call_value(args[0], [body]))
                finally:
                    self.frame['loops'].pop()
                outs.append(('star', src, eid, body, conds + [self.neg(c) if negate else c], recv[5] if recv[0] == 'star' else False))
            return ('tuple', outs)
        if m == 'enumerate':
            eid = self.fresh('e')
            src, body, conds = self.as_pipeline(recv, eid)
            return ('star', src, eid, ('tuple', [('pos', eid), body]), conds, False)
        if m == 'zip' and len(args) == 1 and recv[0] == 'tuple' and args[0][0] == 'tuple' and len(recv[1]) == len(args[0][1]) <= 16:
            # two literal lists of the same length (`[&struct_name].into_iter().zip([layout.size])`): the list of pairs
            return ('tuple', [('tuple', [a_, b_]) for a_, b_ in zip(recv[1], args[0][1])])
        if m == 'zip' and len(args) == 1 and not (recv[0] == 'star' and recv[5]) and not (args[0][0] == 'star' and args[0][5]):
            # two sequences produced from the same source with the same selection (e.g. a list and a list mapped from it, or two mappings of one
            # list): position i of both stems from the same element, so the pairs are one iteration with a pair as body
            eid = self.fresh('e')
            sx, bx, cx = self.as_pipeline(recv, eid)
            sy, by, cy = self.as_pipeline(args[0], eid)

            def over_map(src, body, conds):
                # iterating map.keys() / map.values() visits the entries of the map in the same order as iterating the map: the element is the
                # key / the value of the entry at that position
                if src[0] == 'mcall' and src[2] in ('keys', 'values') and not src[3]:
                    comp = ('tf', ('elem', eid, src[1]), 0 if src[2] == 'keys' else 1)
                    return src[1], self.subst_elem(body, eid, comp), [self.subst_elem(c_, eid, comp) for c_ in conds]
                return src, body, conds
            if sx != sy:
                sx, bx, cx = over_map(sx, bx, cx)
                sy, by, cy = over_map(sy, by, cy)
            if alpha_key((sx, cx)) == alpha_key((sy, self.subst_elem(cy, eid, ('elem', eid, sx)))):
                by = self.subst_elem(by, eid, ('elem', eid, sx))
                return ('star', sx, eid, ('tuple', [bx, by]), cx, False)
        if m in ('keys', 'values', 'rev', 'skip', 'take', 'step_by', 'chain', 'zip', 'last', 'first', 'next', 'next_back', 'nth', 'max', 'min', 'count', 'len',
                 'is_empty', 'sum', 'split_first', 'get', 'contains', 'contains_key', 'to_string', 'to_uppercase', 'to_lowercase', 'to_snake', 'to_camel',
                 'union', 'parse', 'eq', 'entry', 'or_insert', 'or_insert_with', 'or_default', 'size', 'to_ctx', 'update', 'trim', 'replace',
                 'starts_with', 'ends_with', 'lines', 'chars', 'to_string_lossy', 'unwrap_or_default', 'intersects', 'bits', 'all', 'empty'):
            if m in ('is_empty', 'contains', 'contains_key', 'eq', 'starts_with', 'ends_with', 'intersects'):
                return ('t', ('mcall', recv, m, args))
            return ('mcall', recv, m, args)
        return ('mcall', recv, m, args)

    def is_optionish(self, recv, node):
        if recv[0] == 'opt':
            return True
        if recv[0] == 'star':
            return False
        if recv[0] in ('unwrap',):
            return False
        # `.iter().map(` / `.keys().map(` are iterator maps; field / find / get / first are options
        n = node
        while n['k'] == 'MethodCall' and n['method'] in ('as_ref', 'as_mut', 'clone', 'cloned', 'copied', 'as_deref'):
            n = n['recv']
        if n['k'] == 'MethodCall' and n['method'] == 'take' and not n['args']:
            return True    # Option::take(); Iterator::take(n) has an argument
        if n['k'] == 'MethodCall' and self.frame.get('callee') in self.c.fns:
            # a method of a crate type (`binding.name()`): its declared return type says whether the value is an Option
            rty_ = self.c.static_type(n['recv'], self.frame['callee'])
            mq_ = (self.c.method_of(rty_, n['method']) if rty_ else None) or self.c.method_at(self.c.fns[self.frame['callee']]['file'], n.get('line'), n['method'])
            if mq_:
                return self.c.fns[mq_].get('ret', '').replace(' ', '').replace('->', '').startswith('Option<')
        if n['k'] == 'MethodCall' and n['method'] in ('iter', 'into_iter', 'keys', 'values', 'iter_mut', 'enumerate', 'filter', 'map', 'filter_map', 'flat_map',
                                                      'rev', 'skip', 'take', 'chars', 'lines', 'chain', 'zip', 'drain', 'windows', 'chunks'):
            return False
        if n['k'] == 'MethodCall' and n['method'] in ('get', 'find', 'first', 'last', 'next', 'max', 'min', 'ok', 'and_then', 'position', 'split_first',
                                                      'find_map', 'max_by_key', 'min_by_key', 'pop', 'take', 'last_key_value', 'first_key_value', 'nth'):
            return True
        if n['k'] in ('Field',):
            tys = self.field_types.get(n['member'])
            if tys and all(t.startswith(('[', 'Vec<', 'Arena<', 'UniqueArena<', 'Block')) for t in tys):
                return False   # array / collection field: `.map` is the array / iterator map
            return True
        if n['k'] == 'Path':
            segs = n['path']['segs']
            pty = self.frame.get('param_types', {}).get(segs[0]) if len(segs) == 1 else None
            if pty and pty.lstrip('&').lstrip('mut').startswith(('[', 'Vec<', 'impl Iterator', 'implIterator')):
                return False   # a parameter declared as array / slice / Vec / iterator
            if pty and pty.lstrip('&').startswith('Option<'):
                return True
            return recv[0] not in ('acc', 'tuple', 'reorder', 'new')
        return False

    def as_opt(self, v, assume_option=False):
        """(cond, value) view of an Option-valued term, or (None, None); with assume_option (the term is matched against Some / None, so it IS an
        Option) arms of unknown structure are viewed generically as (is_some(x), unwrap(x))"""
        if v[0] == 'opt':
            return v[1], v[2]
        if v[0] == 'alt':
            cs, vs = [], []
            for c, x in v[1]:
                if x[0] == 'diverge':
                    continue
                oc, ov = self.as_opt(x, assume_option)
                if oc is None and assume_option and x[0] not in ('tmpl', 'tuple', 'struct', 'lit', 'star', 'acc'):
                    oc, ov = ('t', ('is_some', x)), ('unwrap', x)
                if oc is None:
                    return None, None
                cs.append((c, oc))
                vs.append((c, ov))
            return self.bool_alt(cs + [(TRUE, FALSE)]), ('alt', vs)
        if v[0] == 'propagate':
            return FALSE, ('tuple', [])
        if v[0] == 'ok':
            return TRUE, v[1]
        if v[0] == 'err':
            return FALSE, ('tuple', [])
        return None, None

    def unwrap_or(self, recv, d):
        c, v = self.as_opt(recv)
        if c is not None:
            return ('alt', [(c, v), (TRUE, d)])
        return ('alt', [(('t', ('is_some', recv)), ('unwrap', recv)), (TRUE, d)])

    def opt_method(self, m, recv, args_nodes, env):
        c, v = self.as_opt(recv)
        if c is None:
            c, v = ('t', ('is_some', recv)), ('unwrap', recv)
        else:
            pos, neg = cond_facts(c)
            v = prune(v, pos, neg)      # inside the closure the Option is known to be Some
        if m == 'map':
            fn = self.expr(args_nodes[0], env)
            r = self.call_value(fn, [v])
            return ('opt', c, r)
        if m == 'and_then':
            fn = self.expr(args_nodes[0], env)
            r = self.call_value(fn, [v])
            c2, v2 = self.as_opt(r)
            if c2 is None:
                c2, v2 = ('t', ('is_some', r)), ('unwrap', r)
            return ('opt', ('and', [c, c2]), v2)
        if m == 'filter':
            # Option::filter(pred): still that value, present only if the predicate holds for it
            fn = self.expr(args_nodes[0], env)
            r = self.call_value(fn, [v])
            return ('opt', ('and', [c, self.as_cond(r)]), v)
        if m == 'map_or':
            d = self.expr(args_nodes[0], env)
            fn = self.expr(args_nodes[1], env)
            r = self.call_value(fn, [v])
            return ('alt', [(c, r), (TRUE, d)])
        if m == 'is_some_and':
            fn = self.expr(args_nodes[0], env)
            r = self.apply(fn, [v])
            return ('and', [c, self.as_cond(r)])
        return ('mcall', recv, m, [])

    def iter_method(self, m, recv, args_nodes, env, node):
        if m == 'map' and recv[0] == 'tuple' and 0 < len(recv[1]) <= 8 and len(args_nodes) == 1:
            # a literal list mapped element by element (`[&struct_name].into_iter().zip([layout.size]).map(|(name, expected)| ..)`): a literal list
            fn_ = self.expr(args_nodes[0], env)
            if fn_[0] == 'closure' or (fn_[0] == 'path' and fn_[1] in self.c.fns):
                return ('tuple', [self.call_value(fn_, [x]) for x in recv[1]])
        if recv[0] == 'star' and recv[5] and m in ('map', 'filter', 'filter_map', 'inspect') and recv[3][0] not in ('tmpl', 'alt', 'opt', 'tuple', 'struct'):
            # an adapter after `flat_map(..)` works on the elements of the inner sequences: push it into the inner iteration
            _, src, eid, body, conds, _flat = recv
            if body[0] not in ('star', 'reorder'):
                ie = self.fresh('e')
                s2, b2, c2 = self.as_pipeline(body, ie)
                body = ('star', s2, ie, b2, c2, False)
            self.frame['loops'].append((eid, src, conds))
            try:
                inner = self.iter_method(m, body, args_nodes, env, node)
            finally:
                self.frame['loops'].pop()
            return ('star', src, eid, inner, conds, True)
        if recv[0] == 'star' and recv[5] and m in ('any', 'all') and recv[3][0] not in ('tmpl', 'alt', 'opt', 'tuple', 'struct'):
            # `outer.flat_map(inner).any(p)` is `outer.any(|x| inner(x).any(p))` (likewise `all`): the nested form the rules know
            _, src, eid, body, conds, _flat = recv
            if body[0] not in ('star', 'reorder'):
                ie = self.fresh('e')
                s2, b2, c2 = self.as_pipeline(body, ie)
                body = ('star', s2, ie, b2, c2, False)
            self.frame['loops'].append((eid, src, conds))
            try:
                inner = self.iter_method(m, body, args_nodes, env, node)
            finally:
                self.frame['loops'].pop()
            return ('t', (m, ('star', src, eid, ('elem', eid, src), conds, False), self.as_cond(inner)))
        fn = self.expr(args_nodes[0], env)
        if m == 'flat_map' and recv[0] == 'tuple' and len(recv[1]) == 1:
            # `std::iter::once(x).flat_map(f)` / `[x].iter().flat_map(f)` is f(x)
            r = self.call_value(fn, [recv[1][0]])
            if r[0] in ('star', 'reorder'):
                return r
            ie = self.fresh('e')
            s2, b2, c2 = self.as_pipeline(r, ie)
            return ('star', s2, ie, b2, c2, False)
        eid = self.fresh('e')
        src, body, conds = self.as_pipeline(recv, eid)
        flat = recv[5] if recv[0] == 'star' else False
        self.frame['loops'].append((eid, src, conds))
        n_eff0 = len(self.effects.get(self.frames[0]['fn'], []))
        try:
            r = self.call_value(fn, [body])
        finally:
            self.frame['loops'].pop()
        if m == 'try_for_each' and self.frame.get('propagated_try_for_each') == node.get('line'):
            self.frame['propagated_try_for_each'] = None
            return ('tuple', [])
        if m in ('any', 'all', 'find', 'find_map', 'position', 'take_while', 'skip_while', 'map_while', 'try_for_each', 'is_some_and'):
            # a short-circuiting consumer / prefix adapter stops calling the closure once it has its answer: whatever the closure *does* (a
            # recursive visit, an insertion, an update) happens for a prefix of the elements only - recorded as a condition of those effects
            pseudo = ('t', ('unknown', 'short-circuit', node.get('line', 0), m))
            for x_ in self.effects.get(self.frames[0]['fn'], [])[n_eff0:]:
                if x_['kind'] in ('reccall', 'mutate', 'assign') and eid in [l_[0] for l_ in x_.get('loops', ())]:
                    x_['cond'] = pseudo if x_['cond'] == TRUE else ('and', [x_['cond'], pseudo])
        if m in ('map', 'inspect'):
            return ('star', src, eid, r if m == 'map' else body, conds, flat)
        if m in ('filter', 'take_while', 'skip_while'):
            return ('star', src, eid, body, conds + [self.as_cond(r)], flat)
        if m == 'filter_map':
            c, v = self.as_opt(r)
            if c is None:
                c, v = ('t', ('is_some', r)), ('unwrap', r)
            pos, neg = cond_facts(c)
            v = prune(v, pos, neg)
            return ('star', src, eid, v, conds + [c], flat)
        if m == 'flat_map':
            return ('star', src, eid, r, conds, True)
        if m in ('any', 'all', 'position'):
            return ('t', (m, ('star', src, eid, body, conds, flat), self.as_cond(r)))
        if m in ('find',):
            return ('opt', ('t', ('any', ('star', src, eid, body, conds, flat), self.as_cond(r))), ('found', ('star', src, eid, body, conds + [self.as_cond(r)], flat), eid))
        if m == 'find_map':
            c, v = self.as_opt(r)
            if c is None:
                c, v = ('t', ('is_some', r)), ('unwrap', r)
            # the value is computed from the first element satisfying the condition: the same `found` element as `.find(cond)`
            found = ('found', ('star', src, eid, body, conds + [c], flat), eid)
            if body[0] == 'elem' and body[1] == eid:
                v = self.subst_elem(v, eid, found)
            return ('opt', ('t', ('any', ('star', src, eid, body, conds, flat), c)), v)
        if m == 'for_each':
            return ('tuple', [])
        if m in ('max_by_key', 'min_by_key'):
            return ('opt', ('t', ('nonempty', src)), ('mcall', ('star', src, eid, body, conds, flat), m, [r]))
        return ('mcall', recv, m, [r])


# ---------------------------------------------------------------------------------------------------------------------
class OGP:
    """evaluated crate: summaries of all functions, templates, accumulators, effects"""

    def __init__(self, src_dir=None):
        self.crate = Crate(src_dir)
        self.it = Interp(self.crate)
        self.summaries = {}
        for q in sorted(self.crate.fns):
            f = self.crate.fns[q]
            if f.get('cfg_test'):
                continue
            try:
                self.summaries[q] = self.it.summarize(q)
            except RecursionError:
                self.summaries[q] = ('unknown', 'recursion limit', f['line'], q)
        self.accs = self.it.accs
        self.effects = self.it.effects
        self.templates = self.it.templates
        self.unknowns = self.it.unknowns
        # canonical view for the rules: a quote! template interpolated unconditionally into another one (`let piece = quote!{..}; quote!{.. #piece ..}`,
        # or a helper function returning the piece) is spliced in place, so that splitting / merging quote! invocations does not change what the
        # rules see.  The raw summaries (one template per quote! site) stay available for the compile witness, which maps diagnostics to sites.
        self.raw = self.summaries
        memo = {}
        self.summaries = {q: flat_term(v, memo) for q, v in self.raw.items()}
        self._flat_memo = memo

    def fn(self, short):
        """qualified names ending with ::short"""
        return [q for q in self.summaries if q.endswith('::' + short) or q == short]


_cache = {}


def load():
    h = tree_hash()
    if h not in _cache:
        _cache[h] = OGP()
    return _cache[h]


# ---- generic term utilities ----------------------------------------------------------------------------------------------
def walk(t, fn, memo=None):
    """pre-order traversal over a term DAG; fn(term) may return False to stop descending"""
    if memo is None:
        memo = set()
    st = [t]
    while st:
        x = st.pop()
        if isinstance(x, tuple):
            if id(x) in memo:
                continue
            memo.add(id(x))
            if x and x[0] == 'closure':
                continue
            if x and isinstance(x[0], str):
                if fn(x) is False:
                    continue
            st.extend(reversed(x))
        elif isinstance(x, list):
            st.extend(reversed(x))
        elif isinstance(x, dict):
            st.extend(reversed(list(x.values())))


def repetition_anchor(ogp, pred, own_only=False):
    """[(q, template, star)]: for every quote! template whose text satisfies `pred` (judged at its definition site), the function q and the
    repetition (star term in q's summary) that produces it.  The repetition is looked for in the function that holds the template; if that
    function merely builds one item (a helper called once per element), in its nearest caller (syntactic call graph, breadth first, up to three
    levels) in whose summary the helper is inlined.  `template` is the instance inside q's summary."""
    out = []
    seen_sites = set()
    cg = ogp.crate.call_graph()
    callers = {}
    for a, bs in cg.items():
        for b in bs:
            callers.setdefault(b, set()).add(a)
    # closures / function values passed by name are edges of the syntactic graph as well (Path scan), so `callers` sees `.map(helper)`
    for q0 in sorted(ogp.summaries):
        v0 = ogp.summaries[q0]
        if v0 is None:
            continue
        for t0 in find_templates(v0, lambda t: t[3] == q0 and pred(t)):
            site = (t0[1], t0[3])
            if site in seen_sites:
                continue
            seen_sites.add(site)
            level = [q0]
            visited = {q0}
            found = False
            for depth in range(4):
                for q in sorted(level):
                    v = ogp.summaries.get(q)
                    if v is None:
                        continue
                    insts = find_templates(v, lambda t: (t[1], t[3]) == site)
                    for ti in insts:
                        stars = []
                        walk(v, lambda x: stars.append(x) if x[0] == 'star' and find_templates(x[3], lambda y: y is ti) else None)
                        if stars:
                            # innermost repetition holding the template
                            inner = [s_ for s_ in stars if not any(o is not s_ and _contains(s_[3], o) for o in stars)]
                            out.append((q, ti, inner[0]))
                            found = True
                            break
                    if found:
                        break
                if found or own_only:
                    break
                nxt = set()
                for q in level:
                    nxt |= callers.get(q, set()) - visited
                visited |= nxt
                level = sorted(nxt)
                if not level:
                    break
    return out


def module_anchors(ogp, pred):
    """[(q, template instance)]: for every quote! site whose template satisfies `pred`, the innermost function that has a `naga::Module`
    parameter and whose (helper-inlined) summary contains that template - the site's own function when it takes the module, else the nearest
    caller that does (a section split into `records = collect(module)` + `render(&records)` keeps its anchor)"""
    def has_module(q):
        return any(p['ty'].replace(' ', '').endswith('Module') for p in ogp.crate.fns[q]['params'])
    sites = {}
    for q, v in ogp.summaries.items():
        if q not in ogp.crate.fns or not has_module(q):
            continue
        for t in find_templates(v, pred):
            size = [0]
            walk(v, lambda x: size.__setitem__(0, size[0] + 1) if x[0] == 'tmpl' else None)
            # a function that is handed ready-made token streams (pieces its caller computed from the module) does not show where they come
            # from: its caller is the better anchor
            sites.setdefault(t[1], []).append((ogp.crate.receives(q, 'TokenStream'), t[3] != q, size[0], q, t))
    out = []
    for tid, cands in sites.items():
        _, _, _, q, t = sorted(cands, key=lambda c: c[:4])[0]
        out.append((q, t))
    return out


def _contains(term, sub):
    hit = []
    walk(term, lambda x: hit.append(1) if x is sub else None)
    return bool(hit)


def find_templates(t, pred):
    out = []

    def f(x):
        if x[0] == 'tmpl' and pred(x):
            out.append(x)
    walk(t, f)
    return out


def tmpl_text(t):
    return items_text(t[2])


def flat_term(t, memo):
    """`t` with every template flattened (see `flatten`), sharing preserved (one flattened object per original object)"""
    if isinstance(t, list):
        return [flat_term(x, memo) for x in t]
    if isinstance(t, dict):
        return {k: flat_term(v, memo) for k, v in t.items()}
    if not isinstance(t, tuple):
        return t
    if id(t) in memo:
        return memo[id(t)][1]
    if t and t[0] == 'closure':
        r = t
    elif t and t[0] == 'tmpl':
        used = set()

        def go(items):
            out = []
            for it in items:
                if it[0] == 'hole':
                    v = flat_term(it[2], memo)
                    if v[0] == 'tmpl':
                        for x in v[2]:
                            out.append(rename(x))
                    else:
                        out.append(rename(('hole', it[1], v)))
                elif it[0] == 'rep':
                    out.append(('rep', go(it[1]), it[2]))
                else:
                    out.append(it)
            return out

        def rename(x):
            if x[0] == 'hole':
                name, k = x[1], 2
                while name in used:
                    name = f'{x[1]}_{k}'
                    k += 1
                used.add(name)
                return ('hole', name, x[2])
            if x[0] == 'rep':
                return ('rep', [rename(y) for y in x[1]], x[2])
            return x
        r = ('tmpl', t[1], go(t[2]), t[3])
    else:
        r = tuple(flat_term(x, memo) for x in t)
    memo[id(t)] = (t, r)      # keep the original alive so that its id stays unique
    return r


def flatten(t):
    """the same template with every unconditional nested template (a hole whose value is itself a quote! template: `let inner = quote!{..};
    quote!{ .. #inner .. }`) spliced in place, recursively - splitting a quote! into interpolated pieces leaves the flattened form unchanged.
    Colliding hole names of spliced pieces get a numeric suffix."""
    if t[0] != 'tmpl':
        return t
    used = set()

    def go(items):
        out = []
        for it in items:
            if it[0] == 'hole' and it[2][0] == 'tmpl':
                out.extend(go(it[2][2]))
            elif it[0] == 'hole':
                name = it[1]
                k = 2
                while name in used:
                    name = f'{it[1]}_{k}'
                    k += 1
                used.add(name)
                out.append(('hole', name, it[2]))
            elif it[0] == 'rep':
                out.append(('rep', go(it[1]), it[2]))
            else:
                out.append(it)
        return out
    return ('tmpl', t[1], go(t[2]), t[3])


def plain_idents(t):
    """view of a term for structural comparison: a choice between Ident::new_raw(x) and Ident::new(x) reads as Ident::new(x) (see
    same_identifier); the evaluators keep the original term, where `to_string()` of a raw identifier differs"""
    memo = {}

    def go(x):
        if isinstance(x, tuple):
            if id(x) in memo:
                return memo[id(x)]
            if x and x[0] == 'closure':
                r = x
            else:
                r = tuple(go(y) for y in x)
                if r and r[0] == 'alt':
                    r = same_identifier(r)
                if all(a is b for a, b in zip(r, x)) and len(r) == len(x):
                    r = x
            memo[id(x)] = r
            return r
        if isinstance(x, list):
            r = [go(y) for y in x]
            return x if all(a is b for a, b in zip(r, x)) else r
        if isinstance(x, dict):
            return x
        return x
    return go(t)


def holes(t):
    """name -> term for the top-level holes of a template (repetition holes are prefixed with '*')"""
    out = {}

    def go(items, pre):
        for it in items:
            if it[0] == 'hole':
                out.setdefault(pre + it[1], plain_idents(it[2]))
            elif it[0] == 'rep':
                go(it[1], '*')
    go(t[2], '')
    return out


def show(t, depth=0, maxdepth=6):
    """compact printable form of a term"""
    if depth > maxdepth:
        return '...'
    if not isinstance(t, tuple):
        if isinstance(t, list):
            return '[' + ', '.join(show(x, depth + 1, maxdepth) for x in t[:6]) + (', ...' if len(t) > 6 else '') + ']'
        return repr(t) if not isinstance(t, dict) else '{' + ', '.join(f'{k}: {show(v, depth + 1, maxdepth)}' for k, v in list(t.items())[:6]) + '}'
    if not t:
        return '()'
    k = t[0]
    if not isinstance(k, str):
        return '<' + ', '.join(show(x, depth + 1, maxdepth) for x in t[:5]) + '>'
    if k == 'param':
        return f'{t[2]}'
    if k == 'f':
        return f'{show(t[1], depth + 1, maxdepth)}.{t[2]}'
    if k == 'tf':
        return f'{show(t[1], depth + 1, maxdepth)}.{t[2]}'
    if k == 'idx':
        return f'{show(t[1], depth + 1, maxdepth)}[{show(t[2], depth + 1, maxdepth)}]'
    if k == 'vf':
        return f'{show(t[1], depth + 1, maxdepth)}@{t[2].split("::")[-1]}.{t[3]}'
    if k == 'elem':
        return f'elem#{t[1]}<{show(t[2], depth + 1, maxdepth)}>'
    if k == 'pos':
        return f'pos#{t[1]}'
    if k == 'tmpl':
        return f'tmpl<{t[1]}>'
    if k == 'closure':
        return 'closure'
    if k == 'lit':
        return repr(t[2])
    if k == 'path':
        return t[1]
    if k == 'unwrap':
        return show(t[1], depth + 1, maxdepth) + '!'
    if k == 'is':
        return f'({show(t[1], depth + 1, maxdepth)} is {t[2].split("::")[-1]})'
    if k == 'star':
        return f'star#{t[2]}[{show(t[1], depth + 1, maxdepth)} | {show(t[4], depth + 1, maxdepth)} -> {show(t[3], depth + 1, maxdepth)}]'
    return k + '(' + ', '.join(show(x, depth + 1, maxdepth) for x in t[1:5]) + ')'
