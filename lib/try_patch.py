#!/usr/bin/env python3
"""try_patch.py <patch.diff> <PID> [<PID>...]  - apply a patch to a scratch copy of /repo (outside /repo and /verif), run the
named checks against it (VERIF_REPO), print their verdicts, remove the copy. Evidence goes to a scratch dir."""
import os, shutil, subprocess, sys, tempfile
patch = os.path.abspath(sys.argv[1]); pids = sys.argv[2:]
tmp = tempfile.mkdtemp(prefix='vscratch-')
try:
    subprocess.check_call(['rsync', '-a', '--exclude', 'target', '--exclude', '.git', '/repo/', tmp + '/repo/'])
    r = subprocess.run(['patch', '-p1', '-s', '-i', patch], cwd=tmp + '/repo')
    if r.returncode != 0:
        print('PATCH DOES NOT APPLY'); sys.exit(3)
    env = dict(os.environ, VERIF_REPO=tmp + '/repo', VERIF_EVID=tmp + '/ev')
    for pid in pids:
        p = subprocess.run(['/verif/check', pid], env=env, stdout=subprocess.PIPE, stderr=subprocess.STDOUT, text=True)
        lines = p.stdout.splitlines()
        keys = [l for l in lines if 'key=' in l]
        print(f'== {pid}: rc={p.returncode} violations={sum(1 for l in lines if l.startswith("VIOLATION"))}')
        for k in keys[:8]: print('   ', k[:230])
        if os.environ.get('VERBOSE'): print(p.stdout)
finally:
    shutil.rmtree(tmp, ignore_errors=True)
