"""Engine C: compile witness of the output grammar.

The output grammar extracted by Engine A (the term of the template that assembles all sections, with every function inlined) is
instantiated on small hand-made *model IRs* (Python objects shaped like naga's IR, Option fields wrapped according to the schema)
under many option sets, so that every template and every decision-table row occurs in a self-consistent module; the resulting Rust
text is type-checked by `cargo check` against the real wgpu 24 / bytemuck / encase / glam / serde crates (nalgebra: local stub).
This evaluates the *extracted terms* (templates, tables, iterations) - the generator itself is never run, no shader is parsed.
Diagnostics are mapped back to the template (file:line of the quote!) through marker comments."""
import collections, json, os, re, shutil, subprocess
import engine_ogp as E
import schema as S
from conc import Eval, V, Flags, Diverge, Unbound
from common import VERIF, REPO, WORK, Lock, run

SKEL_SRC = os.path.join(VERIF, 'tools', 'skeleton')


class Tok(str):
    """raw token text (as opposed to a Rust string value)"""
    pass


def rust_str(s):
    out = ['"']
    for ch in s:
        if ch == '"':
            out.append('\\"')
        elif ch == '\\':
            out.append('\\\\')
        elif ch == '\n':
            out.append('\\n')
        elif ch == '\r':
            out.append('\\r')
        elif ch == '\t':
            out.append('\\t')
        elif ord(ch) < 0x20 or ord(ch) == 0x7f:
            out.append('\\u{%x}' % ord(ch))
        else:
            out.append(ch)
    out.append('"')
    return ''.join(out)


def to_snake(s):
    out = []
    for i, ch in enumerate(s):
        if ch.isupper():
            if i > 0:
                out.append('_')
            out.append(ch.lower())
        else:
            out.append(ch)
    return ''.join(out)


class Num:
    """a numeric payload of a model literal: Rust primitive type + value; printed the way quote! prints a primitive (a literal suffixed with its type)"""
    __slots__ = ('ty', 'value')

    def __init__(self, ty, value):
        self.ty, self.value = ty, value

    def text(self):
        import math
        v = self.value
        if self.ty.startswith('f'):
            if math.copysign(1.0, v) < 0 and v == 0:
                body = '-0'
            elif v == int(v) and abs(v) < 1e15:
                body = str(int(v))
            else:
                body = repr(v)
            return body + self.ty
        return f'{v}{self.ty}'

    def __eq__(self, o):
        import math
        return isinstance(o, Num) and o.ty == self.ty and o.value == self.value and math.copysign(1, o.value) == math.copysign(1, self.value)

    def __hash__(self):
        return hash((self.ty, self.value))

    def __repr__(self):
        return f'Num({self.text()})'


class Handle(tuple):
    pass


def H(arena, i):
    return Handle(('h', arena, i))


# ---------------------------------------------------------------------------------------------------------------------------------
def mentions_err_guard(c):
    found = [False]

    def f(x):
        if x[0] == 'struct' and 'CreateModuleError' in str(x[1]):
            found[0] = True
        if x[0] == 'path' and 'CreateModuleError' in str(x[1]):
            found[0] = True
        import roles as R
        idx_f = (R.binding_roles(E.load())[0] or R.DEFAULT)['index']
        if x[0] == 'eq' and any(isinstance(y, tuple) and y and y[0] == 'f' and y[2] == idx_f for y in x[1:3]):
            found[0] = True
    E.walk(c, f)
    return found[0]


class _Default(int):
    """Default::default() of an unknown payload type"""
    def __eq__(self, o):
        return o is False or o == '' or o == [] or (isinstance(o, (int, float)) and not isinstance(o, bool) and o == 0) or isinstance(o, _Default)

    def __ne__(self, o):
        return not self.__eq__(o)

    def __hash__(self):
        return 0

    def __repr__(self):
        return '0'


DEFAULT = _Default(0)


class SkelEval(Eval):
    def __init__(self, ogp, model, options, src, include, extra_leaf=None):
        super().__init__(self._leaf, flag_types=S.load().flags, lenient=False)
        self.extra_leaf = extra_leaf
        self.accvars = {}
        self._optp = None
        self.ogp = ogp
        self.m = model
        self.options = options
        self.src, self.include = src, include
        self.elems = {}
        self.pos = {}
        self.params = []
        self.rendered = collections.Counter()
        self.arms = set()
        self.markers = True
        self.bound_roots = {}
        self.prov = {}

    # ---- leaves -----------------------------------------------------------------------------------------------------------------
    def _leaf(self, t):
        if self.extra_leaf is not None:
            r = self.extra_leaf(t)
            if r is not None:
                return r
        k = t[0]
        if self.m is None and k in ('new', 'call', 'unwrap', 'is_ok', 'is_some'):
            return None
        if k == 'param':
            for frame in reversed(self.params):
                if (t[1], t[2]) in frame:
                    return (frame[(t[1], t[2])],)
            raise Unbound(t)
        if k == 'new':
            kind, creator = t[1], t[4] if len(t) > 4 else ''
            role = self.m.collection_role(kind, creator, self.ogp)
            if role is None:
                raise Unbound(t)
            return (role,)
        if k == 'call' and t[1] == 'naga::proc::Layouter::default':
            return (self.m.layouter,)
        if k == 'unwrap' and t[1][0] == 'call' and t[1][1] == 'naga::front::wgsl::parse_str':
            return (self.m.module,)
        if k in ('is_ok', 'is_some') and t[1][0] == 'call' and t[1][1] == 'naga::front::wgsl::parse_str':
            return (True,)
        return None

    # ---- generic ------------------------------------------------------------------------------------------------------------------
    def ev_elem(self, t):
        if t[1] in self.elems:
            return self.elems[t[1]]
        raise Unbound(t)

    def ev_pos(self, t):
        if t[1] in self.pos:
            return self.pos[t[1]]
        raise Unbound(t)

    def iterable(self, v, t=None):
        if isinstance(v, dict):
            return list(v.items())
        if isinstance(v, (list, tuple)) and not (isinstance(v, tuple) and v and v[0] == 'some'):
            return list(v)
        if isinstance(v, V) and 'items' in v.fields:
            return list(v.fields['items'])
        if isinstance(v, V):
            # a model record that wraps exactly one list (the model's group record holds the binding list): code that keeps the bare list where
            # the model keeps the record iterates that list
            lists = [x for x in v.fields.values() if isinstance(x, list)]
            if len(lists) == 1:
                return list(lists[0])
            if not lists:
                return [v]          # the payload of an Option that is iterated (`flat_map(|m| &m.binding)`): Some(x) yields x once
        if v is None:
            return []               # .. and None yields nothing
        if isinstance(v, tuple) and len(v) == 2 and v[0] == 'some':
            return [v[1]]
        raise Unbound(t or ('not iterable', repr(v)[:40]))

    def ev_star(self, t):
        src = self.iterable(self.ev(t[1]), t[1])
        eid = t[2]
        out = []
        saved = (self.elems.get(eid), self.pos.get(eid))
        try:
            for i, x in enumerate(src):
                self.elems[eid] = x
                self.pos[eid] = i
                restore = self.enter_prov(x)
                try:
                    if all(self.truth(c) for c in t[4]):
                        v = self.ev(t[3])
                        if t[5]:
                            out.extend(self.iterable(v))
                        else:
                            if isinstance(v, (V, tuple, list)) and not isinstance(v, Handle):
                                # remember which iteration produced this element (a later pipeline stage may refer to it)
                                self.prov[id(v)] = (v, dict(self.elems), dict(self.pos))
                            out.append(v)
                finally:
                    self.leave_prov(restore)
        finally:
            if saved[0] is None:
                self.elems.pop(eid, None)
                self.pos.pop(eid, None)
            else:
                self.elems[eid], self.pos[eid] = saved
        return out

    def enter_prov(self, x):
        p = self.prov.get(id(x))
        added = []
        if p is not None and p[0] is x:
            for k, v in p[1].items():
                if k not in self.elems:
                    self.elems[k] = v
                    self.pos[k] = p[2].get(k, 0)
                    added.append(k)
        return added

    def leave_prov(self, added):
        for k in added:
            self.elems.pop(k, None)
            self.pos.pop(k, None)

    def ev_fold(self, t):
        # ('fold', src, eid, conds, init, accvar, step): acc = init; for elem in src (if conds): acc = step(acc, elem)
        _, src, eid, conds, init, accvar, step = t
        acc = self.ev(init)
        items = self.iterable(self.ev(src), src)
        saved = (self.elems.get(eid), self.pos.get(eid), self.accvars.get(accvar))
        try:
            for i, x in enumerate(items):
                self.elems[eid] = x
                self.pos[eid] = i
                self.accvars[accvar] = acc
                if all(self.truth(c) for c in conds):
                    acc = self.ev(step)
        finally:
            for d, k, v in ((self.elems, eid, saved[0]), (self.pos, eid, saved[1]), (self.accvars, accvar, saved[2])):
                if v is None:
                    d.pop(k, None)
                else:
                    d[k] = v
        return acc

    def ev_accvar(self, t):
        if t in self.accvars:
            return self.accvars[t]
        raise Unbound(t)

    def ev_any(self, t):
        st = t[1]
        src = self.iterable(self.ev(st[1]), st[1])
        eid = st[2]
        saved = (self.elems.get(eid), self.pos.get(eid))
        try:
            for i, x in enumerate(src):
                self.elems[eid] = x
                self.pos[eid] = i
                if all(self.truth(c) for c in st[4]) and self.truth(t[2]):
                    return True
            return False
        finally:
            if saved[0] is None:
                self.elems.pop(eid, None)
                self.pos.pop(eid, None)
            else:
                self.elems[eid], self.pos[eid] = saved

    def ev_found(self, t):
        r = self.ev_star(t[1])
        if not r:
            raise Diverge('find on empty', 0)
        return r[0]

    def ev_reorder(self, t):
        v = list(self.ev(t[1]))
        if not self.truth(t[4]):
            return v

        def name_key(x):
            if isinstance(x, V) and 'name' in x.fields:
                n = x.fields['name']
                return str(n[1] if isinstance(n, tuple) and n and n[0] == 'some' else n)
            return repr(x)
        key = name_key
        if t[2] != 'reverse':
            # the key the source's closure compares by (sort_by_key / dedup_by_key / sort_by(|a, b| k(a).cmp(&k(b))) / dedup_by(|a, b| k(a) == k(b)) /
            # retain(|x| seen.insert(k(x)))), evaluated on the model elements
            from rules.c07 import order_key
            A = ('param', '$key', 'a')
            kt = order_key(self.ogp, t)
            if kt is None:
                raise Unbound(t)

            def key(x, kt=kt):
                self.params.append({('$key', 'a'): x})
                try:
                    k_ = self.ev(kt)
                finally:
                    self.params.pop()
                if isinstance(k_, tuple) and k_ and k_[0] == 'some':
                    k_ = k_[1]
                if isinstance(k_, Num):
                    k_ = k_.value
                return k_ if isinstance(k_, (int, float, str)) else repr(k_)
        if t[2].startswith('sort'):
            return sorted(v, key=key)
        if t[2] == 'dedup_all_by_key':
            out, seen = [], set()
            for x in v:
                if key(x) not in seen:
                    seen.add(key(x))
                    out.append(x)
            return out
        if t[2].startswith('dedup'):
            out = []
            for x in v:
                if not out or key(out[-1]) != key(x):
                    out.append(x)
            return out
        if t[2] == 'reverse':
            return list(reversed(v))
        raise Unbound(t)

    def ev_acc(self, t):
        """the list built by the pushes of an accumulator: pushes inside one loop interleave per iteration, in program order"""
        out = []
        ents = [(en, [l for l in en['loops'] if l[0] not in self.elems]) for en in self.ogp.accs[t[1]]['entries']]

        def emit(group, depth):
            i = 0
            while i < len(group):
                en, loops = group[i]
                if depth >= len(loops):
                    try:
                        if self.truth(en['cond']):
                            if en.get('flat'):
                                out.extend(self.iterable(self.ev(en['val']), en['val']))
                            else:
                                out.append(self.ev(en['val']))
                    except Diverge:
                        pass
                    i += 1
                    continue
                eid, src, conds = loops[depth]
                j = i
                while j < len(group) and depth < len(group[j][1]) and group[j][1][depth][0] == eid:
                    j += 1
                items = self.iterable(self.ev(src), src)
                for k, x in enumerate(items):
                    self.elems[eid] = x
                    self.pos[eid] = k
                    try:
                        if all(self.truth(c) for c in conds):
                            emit(group[i:j], depth + 1)
                    finally:
                        self.elems.pop(eid, None)
                        self.pos.pop(eid, None)
                i = j
        try:
            emit(ents, 0)
        except Diverge:
            pass
        return out

    def ev_idx(self, t):
        base = self.ev(t[1])
        h = self.ev(t[2])
        if isinstance(base, V) and base.path == 'Layouter':
            return base.fields['table'][h]
        if isinstance(base, list) and isinstance(h, Handle):
            return base[h[2]][1]
        # a fixed list / array indexed by a number computed from the input (`formats[components - 1]`)
        hv = h.value if isinstance(h, Num) else h
        if isinstance(base, (list, tuple)) and isinstance(hv, int) and not isinstance(hv, bool):
            if 0 <= hv < len(base):
                return base[hv]
            raise Diverge('index out of bounds', 0)
        raise Unbound(t)

    def ev_f(self, t):
        v = self.ev(t[1])
        if isinstance(v, V):
            if t[2] in v.fields:
                return v.fields[t[2]]
        if t[1] == self.options_param() and t[2] in self.options:
            return self.options[t[2]]
        raise Unbound(t)

    def options_param(self):
        return self._optp

    def ev_tf(self, t):
        v = self.ev(t[1])
        if isinstance(v, (tuple, list)) and not isinstance(v, Handle):
            if isinstance(v, tuple) and v and v[0] == 'some':
                v = v[1]
            return v[t[2]]
        raise Unbound(t)

    def ev_struct(self, t):
        fields = {k: self.ev(v) for k, v in t[2].items()}
        # a numeric literal stored in a field of a crate type has the field's primitive type (`ScalarValue::F64(0.0)` holds an f64: interpolated
        # into a template it prints `0f64`)
        try:
            decl = None
            en = self.ogp.crate.enums.get(t[1].rsplit('::', 1)[0]) if self.ogp is not None else None
            if en:
                decl = next((v_['fields'] for v_ in en['variants'] if v_['name'] == t[1].rsplit('::', 1)[1]), None)
            elif self.ogp is not None and t[1] in self.ogp.crate.structs:
                decl = self.ogp.crate.structs[t[1]].get('fields')
            for fl in decl or []:
                ty_ = fl['ty'].replace(' ', '')
                v_ = fields.get(fl.get('name'))
                if ty_ in ('f32', 'f64', 'i32', 'u32', 'i64', 'u64') and isinstance(v_, (int, float)) and not isinstance(v_, bool):
                    fields[fl['name']] = Num(ty_, float(v_) if ty_.startswith('f') else int(v_))
        except Exception:
            pass
        return V(t[1], **fields)

    def ev_ok(self, t):
        return self.ev(t[1])

    def ev_is_some(self, t):
        return self.ev(t[1]) is not None

    def ev_okcond(self, t):
        # "an earlier `?` succeeded": the model module is accepted by construction (dense groups, unique bindings, parsable); the error
        # branches themselves are judged by the C11 / C17 rules.  Conditions that can be evaluated are evaluated.
        try:
            return self.truth(t[1])
        except Unbound:
            return True

    def ev_is_ok(self, t):
        # `?` on a crate function that returns Result<_, CreateModuleError>: the model module is accepted by construction
        # (dense groups, unique bindings), its error branches are decided by the C11 / C17 rules
        found = [False]
        E.walk(t[1], lambda x: found.__setitem__(0, True) if x[0] == 'err' else None)
        if found[0]:
            return True
        return self.ev(t[1]) is not None

    def ev_eq(self, t):
        a, b = self.ev(t[1]), self.ev(t[2])
        a, b = self.norm_flags(a), self.norm_flags(b)
        if isinstance(a, tuple) and a and a[0] == 'some' and not (isinstance(b, tuple) and b and b[0] == 'some') and b is not None:
            return a[1] == b
        return a == b

    def norm_flags(self, x):
        if isinstance(x, list) and x and all(isinstance(y, Flags) for y in x):
            bits = set()
            for y in x:
                bits |= y.bits
            return Flags(x[0].ty, bits)
        if isinstance(x, list) and not x:
            return Flags('wgpu::ShaderStages', [])
        return x

    def ev_path(self, t):
        p = t[1]
        if p.endswith('ShaderStages::NONE'):
            return Flags('wgpu::ShaderStages', [])
        if p.endswith('ShaderStages::VERTEX_FRAGMENT'):
            return Flags('wgpu::ShaderStages', ['VERTEX', 'FRAGMENT'])
        return super().ev_path(t)

    def ev_lit(self, t):
        if len(t) > 3 and t[3] in ('f32', 'f64', 'i32', 'u32', 'i64', 'u64'):
            # a literal written with a type suffix is a value of that primitive type: interpolated into a template it prints like a payload
            return Num(t[3], float(t[2]) if t[3].startswith('f') else int(t[2]))
        if t[1] == 'int':
            return int(t[2])
        return super().ev_lit(t)

    def ev_cast(self, t):
        v = self.ev(t[1])
        if isinstance(v, V) and 'repr' in v.fields:
            return v.fields['repr']
        return v

    def ev_bin(self, t):
        a, b = self.norm_flags(self.ev(t[2])), self.norm_flags(self.ev(t[3]))
        if t[1] in ('<', '>', '<=', '>='):
            # a size threshold (a length / count / index compared with an integer literal of 2 or more) is true or false on every model world alike:
            # evaluating it would hide whatever it guards from all world-based rules - it is reported as undecided instead
            for side in (t[2], t[3]):
                if side[0] == 'lit' and side[1] == 'int' and abs(int(str(side[2]).split('_')[0].rstrip('iusze') or 0)) >= 2:
                    raise Unbound(('size threshold: the model worlds cannot decide what it guards', t))
            x, y = (a.value if isinstance(a, Num) else a), (b.value if isinstance(b, Num) else b)
            if isinstance(x, (int, float)) and isinstance(y, (int, float)) and not isinstance(x, bool) and not isinstance(y, bool):
                return {'<': x < y, '>': x > y, '<=': x <= y, '>=': x >= y}[t[1]]
            raise Unbound(t)
        if isinstance(a, Flags) and isinstance(b, Flags):
            if t[1] == '|':
                return Flags(a.ty, a.bits | b.bits)
            if t[1] == '&':
                return Flags(a.ty, a.bits & b.bits)
        return {'+': lambda: a + b, '-': lambda: a - b, '*': lambda: a * b, '|': lambda: a | b, '&': lambda: a & b, '^': lambda: a ^ b}[t[1]]()

    def ev_reccall(self, t):
        q, args = t[1], t[2]
        f = self.ogp.crate.fns[q]
        frame = {}
        for p, a in zip(f['params'], args):
            frame[(q, p['pat'].get('name'))] = self.ev(a)
        self.params.append(frame)
        try:
            return self.ev(getattr(self.ogp, 'raw', self.ogp.summaries)[q])
        finally:
            self.params.pop()

    def ev_propagate(self, t):
        return None

    def ev_repeat(self, t):
        return [self.ev(t[1])] * int(self.ev(t[2]))

    def ev_alt(self, t):
        for i, (c, v) in enumerate(t[1]):
            if self.truth(c):
                self.arms.add((id(t), i))
                return self.ev(v)
        import os
        if os.environ.get('SKEL_DEBUG'):
            import engine_ogp as E_
            print('NO ARM', [E_.show(c, maxdepth=6) for c, v in t[1]][:8], file=__import__('sys').stderr)
        raise Diverge('no arm matches', 0)

    def ev_mcall(self, t):
        recv, m, args = t[1], t[2], t[3]
        if m == 'to_ctx':
            return self.ev(recv)
        r = self.ev(recv)
        if isinstance(r, Num):
            import math
            if m == 'abs':
                return Num(r.ty, abs(r.value))
            if m == 'is_sign_negative':
                return math.copysign(1, r.value) < 0
            if m == 'is_sign_positive':
                return math.copysign(1, r.value) > 0
            raise Unbound(t)
        if m == 'scalar' and isinstance(r, V) and r.path.startswith('naga::Literal::') and not args:
            # naga::Literal::scalar() (pinned naga source, proc/mod.rs)
            table = {'F64': ('Float', 8), 'F32': ('Float', 4), 'U32': ('Uint', 4), 'I32': ('Sint', 4), 'U64': ('Uint', 8), 'I64': ('Sint', 8), 'Bool': ('Bool', 1),
                     'AbstractInt': ('AbstractInt', 8), 'AbstractFloat': ('AbstractFloat', 8)}
            k = table.get(r.path.split('::')[-1])
            if k:
                return V('naga::Scalar', kind=V('naga::ScalarKind::' + k[0]), width=k[1])
        if m in ('collect_into_HashSet', 'collect_into_BTreeSet'):
            items = self.iterable(r, recv)
            try:
                return frozenset(items)          # membership only: iterating a hashed set has no defined order (ev.iterable refuses it)
            except TypeError:
                raise Unbound(t)
        if m in ('keys',):
            return list(r.keys())
        if m == 'values':
            return list(r.values())
        if m == 'len':
            return len(self.iterable(r))
        if m == 'is_empty':
            return len(self.iterable(r)) == 0
        if m == 'get':
            if isinstance(r, dict):
                k = self.ev(args[0])
                return ('some', r[k]) if k in r else None
            if not args:
                return r
            if isinstance(r, list) and args and all(isinstance(x_, tuple) and len(x_) == 2 and x_[0] != 'some' for x_ in r):
                # a lookup table collected from (key, value) pairs (`.collect::<HashMap<_, _>>()` is membership only - order is never observed):
                # the last pair with that key wins, as in a map
                k = self.ev(args[0])
                hit = [x_[1] for x_ in r if x_[0] == k]
                return ('some', hit[-1]) if hit else None
        if m == 'contains' or m == 'contains_key':
            a = self.ev(args[0])
            r2 = self.norm_flags(r)
            if isinstance(r2, Flags) and isinstance(a, Flags):
                return a.bits <= r2.bits
            if isinstance(r, (set, frozenset, dict, list, tuple)) and not (isinstance(r, tuple) and r and r[0] == 'some'):
                return a in r
        if m == 'to_uppercase':
            return str(r).upper()
        if m == 'to_lowercase':
            return str(r).lower()
        if m == 'to_snake':
            return to_snake(str(r))
        if m == 'to_string':
            return str(r)
        if m == 'size' and isinstance(r, V) and '_size' in r.fields:
            return r.fields['_size']
        if m == 'split_first':
            l = self.iterable(r)
            return ('some', (l[0], l[1:])) if l else None
        if m == 'parse':
            return Tok(str(r))
        if m == 'max' and args:
            return max(r, self.ev(args[0]))
        if m == 'min' and args:
            return min(r, self.ev(args[0]))
        if m == 'max':
            l = self.iterable(r)
            return ('some', max(l)) if l else None
        if m == 'count':
            return len(self.iterable(r))
        if m == 'unwrap_or_default':
            # Default::default() of the payload type: 0 / "" / false / empty - a value that compares equal to each of them
            if r is None:
                return DEFAULT
            return r[1] if isinstance(r, tuple) and len(r) == 2 and r[0] == 'some' else r
        if m == 'union':
            a, b = self.norm_flags(r), self.norm_flags(self.ev(args[0]))
            return Flags(a.ty, a.bits | b.bits)
        raise Unbound(t)

    def ev_call(self, t):
        p, args = t[1], t[2]
        if p == 'naga::Scalar::float' and len(args) == 1:
            return V('naga::Scalar', kind=V('naga::ScalarKind::Float'), width=self.ev(args[0]))
        if p == 'Ident::new':
            v = self.ev(args[0])
            return Tok(str(v))
        if p == 'Ident::new_raw':
            return Tok('r#' + str(self.ev(args[0])))
        if p in ('Literal::f64_unsuffixed', 'Literal::f32_unsuffixed'):
            v_ = self.ev(args[0])
            v_ = v_.value if isinstance(v_, Num) else v_
            t_ = repr(float(v_))
            return Tok(t_ if ('.' in t_ or 'e' in t_ or 'inf' in t_ or 'nan' in t_) else t_ + '.0')      # proc-macro2 prints a float literal with a decimal point
        if p.startswith('Literal::') and p.endswith('unsuffixed'):
            return Tok(str(int(self.ev(args[0]))))
        if p == 'Literal::string':
            return Tok(rust_str(str(self.ev(args[0]))))
        if p == 'naga::Literal::zero' and len(args) == 1:
            sc = self.ev(args[0])
            if isinstance(sc, V) and 'kind' in sc.fields:
                k, w = sc.fields['kind'].path.split('::')[-1], sc.fields['width']
                table = {('Float', 8): ('F64', Num('f64', 0.0)), ('Float', 4): ('F32', Num('f32', 0.0)), ('Uint', 4): ('U32', Num('u32', 0)), ('Sint', 4): ('I32', Num('i32', 0)),
                         ('Uint', 8): ('U64', Num('u64', 0)), ('Sint', 8): ('I64', Num('i64', 0)), ('Bool', 1): ('Bool', False)}
                if (k, w) in table:
                    var, val = table[(k, w)]
                    return ('some', V('naga::Literal::' + var, **{'0': val}))
                return None
        if p == 'include_str!':
            return Tok('include_str ! ( ' + rust_str(str(self.ev(args[0]))) + ' )')
        if p.endswith('ShaderStages::all'):
            return Flags('wgpu::ShaderStages', ['VERTEX', 'FRAGMENT', 'COMPUTE'])
        if p.endswith(('ShaderStages::empty', 'ShaderStages::default')):
            return Flags('wgpu::ShaderStages', [])
        raise Unbound(t)

    def ev_unwrap(self, t):
        try:
            v = self.ev(t[1])
        except (Unbound, Diverge):
            # the success value of a crate function returning Result (its error paths are judged by C11 / C17)
            oks = []
            E.walk(t[1], lambda x: oks.append(x) if x[0] == 'ok' else None)
            if not oks:
                raise
            v = self.ev(oks[0][1])
        if isinstance(v, tuple) and v and v[0] == 'some':
            return v[1]
        if v is None:
            raise Diverge('unwrap on None', 0)
        return v

    # ---- templates ---------------------------------------------------------------------------------------------------------------
    def ev_tmpl(self, t):
        self.rendered[t[1]] += 1
        body = self.render_items(t[2])
        if self.markers and body.strip():
            return Tok(f'\n/*@{t[1]}*/ {body}')
        return Tok(body)

    def render_items(self, items):
        out = []
        for it in items:
            if it[0] == 'tok':
                out.append(it[1])
            elif it[0] == 'hole':
                try:
                    out.append(self.tokens(self.ev(it[2])))
                except Unbound:
                    if not self.lenient:
                        raise
                    out.append('#' + it[1])
            else:
                try:
                    out.append(self.render_rep(it))
                except Unbound:
                    if not self.lenient:
                        raise
                    out.append('#(..)*')
        return ' '.join(x for x in out if x != '')

    def render_rep(self, it):
        inner, sep = it[1], it[2]
        lists = {}
        n = None
        for x in inner:
            if x[0] == 'hole':
                v = self.ev(x[2])
                l = self.iterable(v, x[2])
                lists[id(x)] = l
                n = len(l) if n is None else min(n, len(l))
        if n is None:
            raise Unbound(('rep without iterable',))
        parts = []
        for i in range(n):
            row = []
            for x in inner:
                if x[0] == 'tok':
                    row.append(x[1])
                elif x[0] == 'hole':
                    row.append(self.tokens(lists[id(x)][i]))
                else:
                    row.append(self.render_rep(x))
            parts.append(' '.join(r for r in row if r != ''))
        return (' ' + sep + ' ').join(parts) if sep else ' '.join(parts)

    def tokens(self, v):
        if isinstance(v, Tok):
            return str(v)
        if isinstance(v, bool):
            return 'true' if v else 'false'
        if isinstance(v, Num):
            return v.text()
        if v is None:
            return ''
        if isinstance(v, tuple) and v and v[0] == 'some':
            return self.tokens(v[1])
        if isinstance(v, str):
            return rust_str(v)
        if isinstance(v, int):
            return str(v)
        if isinstance(v, list):
            return ' '.join(self.tokens(x) for x in v)
        if isinstance(v, V) and 'tokens' in v.fields:
            return v.fields['tokens']
        raise Unbound(('cannot print', repr(v)[:60]))

    def ev_fmt(self, t):
        tmpl, vals, named = t[1], list(t[2]), dict(t[3])
        pos = [0]

        def sub(m):
            name = m.group(1)
            if name:
                v = self.ev(named[name]) if name in named else '?'
            else:
                v = self.ev(vals[pos[0]])
                pos[0] += 1
            if isinstance(v, V):
                return v.name
            return str(v)
        return re.sub(r'\{([A-Za-z_][A-Za-z0-9_]*)?(:[^}]*)?\}', sub, tmpl)


# ---------------------------------------------------------------------------------------------------------------------------------
class Model:
    """a small naga-like module; Option-typed fields (per the naga schema) are wrapped as ('some', x) / None"""

    def __init__(self, name):
        self.name = name
        self.sch = S.load()
        self.types = []
        self.globals = []
        self.constants = []
        self.gexprs = []
        self.overrides = []
        self.entry_points = []
        self.sizes = {}
        self.stages = {}

    def wrap(self, struct, fields):
        spec = dict(self.sch.structs.get('naga::' + struct, []))
        out = {}
        for k, v in fields.items():
            ty = spec.get(k, '')
            if ty.startswith('Option<'):
                out[k] = None if v is None else ('some', v)
            else:
                out[k] = v
        return V('naga::' + struct, **out)

    # types
    def ty(self, name, inner, size):
        h = H('types', len(self.types))
        inner.fields['_size'] = size
        self.types.append((h, self.wrap('Type', {'name': name, 'inner': inner})))
        self.sizes[h] = size
        return h

    def scalar(self, kind, width):
        return self.ty(None, V('naga::TypeInner::Scalar', **{'0': V('naga::Scalar', kind=V('naga::ScalarKind::' + kind), width=width)}), width)

    def vec(self, n, kind='Float', width=4):
        size = {2: 2, 3: 3, 4: 4}[n] * width
        return self.ty(None, V('naga::TypeInner::Vector', size=V('naga::VectorSize::' + {2: 'Bi', 3: 'Tri', 4: 'Quad'}[n], repr=n),
                               scalar=V('naga::Scalar', kind=V('naga::ScalarKind::' + kind), width=width)), size)

    def mat(self, c, r, width=4):
        col = {2: 2, 3: 4, 4: 4}[r] * width
        return self.ty(None, V('naga::TypeInner::Matrix', columns=V('naga::VectorSize::' + {2: 'Bi', 3: 'Tri', 4: 'Quad'}[c], repr=c),
                               rows=V('naga::VectorSize::' + {2: 'Bi', 3: 'Tri', 4: 'Quad'}[r], repr=r), scalar=V('naga::Scalar', kind=V('naga::ScalarKind::Float'), width=width)), col * c)

    def atomic(self, kind):
        return self.ty(None, V('naga::TypeInner::Atomic', **{'0': V('naga::Scalar', kind=V('naga::ScalarKind::' + kind), width=4)}), 4)

    def array(self, base, n, stride):
        if n is None:
            return self.ty(None, V('naga::TypeInner::Array', base=base, size=V('naga::ArraySize::Dynamic'), stride=stride), stride)
        return self.ty(None, V('naga::TypeInner::Array', base=base, size=V('naga::ArraySize::Constant', **{'0': n}), stride=stride), stride * n)

    def struct(self, name, members, size):
        ms = []
        for (mname, ty, binding, offset) in members:
            ms.append(self.wrap('StructMember', {'name': mname, 'ty': ty, 'binding': binding, 'offset': offset}))
        return self.ty(name, V('naga::TypeInner::Struct', members=ms, span=size), size)

    def image(self, dim, arrayed, cls):
        return self.ty(None, V('naga::TypeInner::Image', dim=V('naga::ImageDimension::' + dim), arrayed=arrayed, **{'class': cls}), 0)

    def sampler(self, comparison):
        return self.ty(None, V('naga::TypeInner::Sampler', comparison=comparison), 0)

    @staticmethod
    def loc(n):
        return V('naga::Binding::Location', location=n, second_blend_source=False, interpolation=None, sampling=None)

    @staticmethod
    def builtin(name):
        return V('naga::Binding::BuiltIn', **{'0': V('naga::BuiltIn::' + name)})

    def global_(self, name, space, ty, group=None, binding=None, stages=()):
        rb = None if group is None else V('naga::ResourceBinding', group=group, binding=binding)
        h = H('globals', len(self.globals))
        self.globals.append((h, self.wrap('GlobalVariable', {'name': name, 'space': space, 'binding': rb, 'ty': ty, 'init': None})))
        if stages is not None:
            self.stages[name] = Flags('wgpu::ShaderStages', stages)
        return h

    def const(self, name, ty, expr):
        eh = H('gexprs', len(self.gexprs))
        self.gexprs.append((eh, expr))
        self.constants.append((H('constants', len(self.constants)), self.wrap('Constant', {'name': name, 'ty': ty, 'init': eh})))

    def override(self, name, ty, id_=None, init=False):
        ih = None
        if init:
            ih = H('gexprs', len(self.gexprs))
            self.gexprs.append((ih, V('naga::Expression::Literal', **{'0': V('naga::Literal::F32', **{'0': '1f32'})})))
        self.overrides.append((H('overrides', len(self.overrides)), self.wrap('Override', {'name': name, 'id': id_, 'ty': ty, 'init': ih})))

    def entry(self, name, stage, args=(), result=None, workgroup=(0, 0, 0)):
        fargs = [self.wrap('FunctionArgument', {'name': an, 'ty': ty, 'binding': b}) for an, ty, b in args]
        res = None if result is None else self.wrap('FunctionResult', {'ty': result[0], 'binding': result[1]})
        fn = self.wrap('Function', {'name': name, 'arguments': fargs, 'result': res, 'body': [], 'expressions': []})
        self.entry_points.append(self.wrap('EntryPoint', {'name': name, 'stage': V('naga::ShaderStage::' + stage), 'function': fn, 'workgroup_size': list(workgroup),
                                                          'early_depth_test': None}))

    def finish(self):
        self.module = V('naga::Module', types=self.types, global_variables=self.globals, constants=self.constants, global_expressions=self.gexprs,
                        overrides=self.overrides, entry_points=self.entry_points, functions=[], special_types=None)
        self.layouter = V('Layouter', table={h: V('naga::proc::TypeLayout', size=s, alignment=4) for h, s in self.sizes.items()})
        # the collections the generator builds from the module (their construction is decided by C11 / C03 / C08 rules)
        groups = {}
        import roles as R
        roles, rec = R.binding_roles(E.load())     # field names of the collected-binding record, by provenance
        if roles is None:
            roles, rec = R.DEFAULT, 'crate::bindgroup::GroupBinding'
        for h, g in self.globals:
            b = g.fields['binding']
            if b is not None:
                rb = b[1]
                fields = {}
                for role_, val_ in (('name', g.fields['name']), ('index', rb.fields['binding']), ('type', self.types[g.fields['ty'][2]][1]), ('space', g.fields['space'])):
                    spec_ = roles[role_]
                    if isinstance(spec_, str):
                        fields[spec_] = val_
                    else:
                        fields[spec_[0]] = g        # the record keeps the variable itself: the role is read through it
                groups.setdefault(rb.fields['group'], []).append(V(rec, **fields))
        self.group_map = collections.OrderedDict((k, V('crate::bindgroup::GroupData', bindings=v)) for k, v in sorted(groups.items()))
        closure = set()

        def add(h):
            if h in closure:
                return
            closure.add(h)
            inner = self.types[h[2]][1].fields['inner']
            if inner.name in ('Array', 'Pointer', 'BindingArray'):
                add(inner.fields['base'])
            elif inner.name == 'Struct':
                for m in inner.fields['members']:
                    add(m.fields['ty'])
        for h, g in self.globals:
            add(g.fields['ty'])
        self.closure = closure
        return self

    def collection_role(self, kind, creator, ogp):
        role = getattr(self, '_roles', None)
        if role is None:
            self._roles = role = {}
        key = (kind, creator)
        if key in role:
            return role[key]
        r = None
        if kind == 'BTreeMap':
            # creator constructs DuplicateBinding -> group map ; creator seeds the stage walk -> stage map
            f = ogp.crate.fns.get(creator)
            body = json.dumps(f['body']) if f else ''
            # helpers called by the creator count as part of it
            g = ogp.crate.call_graph()
            seen, st = set(), [creator]
            while st:
                x = st.pop()
                if x in seen or x not in g:
                    continue
                seen.add(x)
                st.extend(g[x])
            body = ' '.join(json.dumps(ogp.crate.fns[x]['body']) for x in seen if x in ogp.crate.fns)
            if 'DuplicateBinding' in body:
                r = self.group_map
            elif 'entry_points' in body:
                r = self.stages
        elif kind == 'HashSet':
            r = self.closure
        role[key] = r
        return r


def storage(bits):
    return V('naga::AddressSpace::Storage', access=Flags('naga::StorageAccess', bits))


def build_world_a(rts=False):
    m = Model('kitchen_sink' + ('_rts' if rts else ''))
    f32_, u32_, i32_, bool_ = m.scalar('Float', 4), m.scalar('Uint', 4), m.scalar('Sint', 4), m.scalar('Bool', 1)
    v4, v2, v4u = m.vec(4), m.vec(2), m.vec(4, 'Uint')
    m44 = m.mat(4, 4)
    vin0 = m.struct("VertexInput0", [("position", v4, m.loc(0), 0), ("idx", u32_, m.builtin("VertexIndex"), 16), ("uv", v4, m.loc(1), 32)], 48)
    vin1 = m.struct('VertexInput1', [('color', v4, m.loc(2), 0), ('id', v4u, m.loc(3), 16)], 32)
    inner = m.struct('Inner', [('a', v4, None, 0), ('b', v4, None, 16)], 32)
    arr = m.array(v4, 2, 16)
    uniforms = m.struct('Uniforms', [('transform', m44, None, 0), ('inner', inner, None, 64), ('values', arr, None, 96), ('scale', v4, None, 128)], 144)
    au, ai = m.atomic('Uint'), m.atomic('Sint')
    counters = m.struct('Counters', [('hits', au, None, 0), ('misses', ai, None, 4)], 8)
    fout = m.struct('FragOut', [('color', v4, m.loc(0), 0), ('depth', f32_, m.builtin('FragDepth'), 16), ('extra', v4, m.loc(2), 32)], 48)
    pcs = m.struct('PushConsts', [('tint', v4, None, 0)], 16)
    sarr = m.array(v4, 4, 16)
    U, H_ = V('naga::AddressSpace::Uniform'), V('naga::AddressSpace::Handle')
    m.global_('uniforms', U, uniforms, 0, 0, ['VERTEX', 'FRAGMENT'])
    if rts:
        rarr = m.array(v4, None, 16)
        particles = m.struct('Particles', [('count', v4u, None, 0), ('data', rarr, None, 16)], 32)
        m.global_('particles', storage(['LOAD']), particles, 0, 1, ['COMPUTE'])
    else:
        m.global_('table', storage(['LOAD']), sarr, 0, 1, ['COMPUTE'])
    m.global_('counters', storage(['LOAD', 'STORE']), counters, 0, 3, ['COMPUTE'])
    m.global_('scalar_buf', storage(['LOAD', 'STORE']), f32_, 0, 4, [])
    m.global_('vec_buf', U, v4, 0, 5, ['VERTEX'])
    m.global_('mat_buf', U, m44, 0, 7, ['FRAGMENT'])
    S_ = 'naga::ImageClass::'
    sk = lambda k: V('naga::ScalarKind::' + k)
    m.global_('color_tex', H_, m.image('D2', False, V(S_ + 'Sampled', kind=sk('Float'), multi=False)), 1, 0, ['FRAGMENT'])
    m.global_('color_sampler', H_, m.sampler(False), 1, 1, ['FRAGMENT'])
    m.global_('shadow_sampler', H_, m.sampler(True), 1, 2, ['FRAGMENT'])
    m.global_('depth_tex', H_, m.image('D2', False, V(S_ + 'Depth', multi=False)), 1, 4, ['FRAGMENT'])
    m.global_('out_tex', H_, m.image('D2', False, V(S_ + 'Storage', format=V('naga::StorageFormat::Rgba8Unorm'), access=Flags('naga::StorageAccess', ['STORE']))), 1, 5, ['COMPUTE'])
    m.global_('rw_tex', H_, m.image('D2', True, V(S_ + 'Storage', format=V('naga::StorageFormat::R32Uint'), access=Flags('naga::StorageAccess', ['LOAD', 'STORE']))), 1, 6, ['COMPUTE'])
    m.global_('atomic_tex', H_, m.image('D3', False, V(S_ + 'Storage', format=V('naga::StorageFormat::R32Sint'), access=Flags('naga::StorageAccess', ['LOAD', 'STORE', 'ATOMIC']))), 1, 7,
              ['COMPUTE'])
    m.global_('ro_tex', H_, m.image('D1', False, V(S_ + 'Storage', format=V('naga::StorageFormat::Rg11b10Ufloat'), access=Flags('naga::StorageAccess', ['LOAD']))), 1, 8, ['COMPUTE'])
    m.global_('cube_tex', H_, m.image('Cube', True, V(S_ + 'Sampled', kind=sk('Float'), multi=False)), 1, 9, ['FRAGMENT'])
    m.global_('vol_tex', H_, m.image('D3', False, V(S_ + 'Sampled', kind=sk('Uint'), multi=False)), 1, 10, ['VERTEX', 'FRAGMENT', 'COMPUTE'])
    m.global_('line_tex', H_, m.image('D1', False, V(S_ + 'Sampled', kind=sk('Sint'), multi=False)), 1, 11, ['VERTEX'])
    m.global_('ms_tex', H_, m.image('D2', False, V(S_ + 'Sampled', kind=sk('Sint'), multi=True)), 1, 12, ['FRAGMENT'])
    m.global_('depth_ms', H_, m.image('D2', False, V(S_ + 'Depth', multi=True)), 1, 13, ['FRAGMENT'])
    m.global_('cube_depth', H_, m.image('Cube', False, V(S_ + 'Depth', multi=False)), 1, 14, ['FRAGMENT'])
    m.global_('arr_tex', H_, m.image('D2', True, V(S_ + 'Sampled', kind=sk('Float'), multi=False)), 1, 15, ['FRAGMENT'])
    m.global_('pc', V('naga::AddressSpace::PushConstant'), pcs, None, None, ['VERTEX', 'FRAGMENT'])
    L = 'naga::Literal::'
    for name, var, payload in (('C_F32', 'F32', Num('f32', 1.5)), ('C_I32', 'I32', Num('i32', -3)), ('C_U32', 'U32', Num('u32', 7)), ('C_BOOL', 'Bool', True), ('C_F64', 'F64', Num('f64', 2.5)),
                               ('C_I64', 'I64', Num('i64', 5)), ('C_U64', 'U64', Num('u64', 6)), ('C_AI', 'AbstractInt', Num('i64', 9)), ('C_AF', 'AbstractFloat', Num('f64', 0.5)),
                               ('C_NEG', 'F32', Num('f32', -2.25))):
        m.const(name, f32_, V('naga::Expression::Literal', **{'0': V(L + var, **{'0': payload})}))
    m.const('C_ZERO', u32_, V('naga::Expression::ZeroValue', **{'0': u32_}))
    for zn, zt in (('C_ZERO_F32', f32_), ('C_ZERO_I32', i32_), ('C_ZERO_BOOL', bool_), ('C_ZERO_F64', m.scalar('Float', 8)), ('C_ZERO_I64', m.scalar('Sint', 8)),
                   ('C_ZERO_U64', m.scalar('Uint', 8))):
        m.const(zn, zt, V('naga::Expression::ZeroValue', **{'0': zt}))
    m.const('C_ZERO_VEC', v4, V('naga::Expression::ZeroValue', **{'0': v4}))
    m.const(None, f32_, V('naga::Expression::Literal', **{'0': V(L + 'F32', **{'0': Num('f32', 1.0)})}))
    m.const('C_COMPOSE', v4, V('naga::Expression::Compose', ty=v4, components=[]))
    m.override('o_flag', bool_)
    m.override('o_scale', f32_, init=True)
    m.override('o_count', i32_, id_=7)
    m.override('o_size', u32_, id_=8, init=True)
    m.override('o_enabled', bool_, init=True)
    m.entry('vs_main', 'Vertex', [('in0', vin0, None), ('in1', vin1, None), ('instance', u32_, m.builtin('InstanceIndex'))], (v4, m.builtin('Position')))
    m.entry('vs_shadow', 'Vertex', [('in0', vin0, None)], (v4, m.builtin('Position')))
    m.entry('fs_main', 'Fragment', [], (fout, None))
    m.entry('fs_simple', 'Fragment', [], (v4, m.loc(1)))
    m.entry('fs_none', 'Fragment', [], None)
    m.entry('main', 'Compute', [], None, (8, 4, 1))
    m.entry('clear_pass', 'Compute', [], None, (64, 1, 1))
    return m.finish()


def build_world_min():
    m = Model('minimal')
    m.vec(4)
    m.entry('fs_main', 'Fragment', [], None)
    return m.finish()


def build_world_overrides(kind):
    """a small world whose overrides all have a default ('optional': the map starts empty and is only filled by inserts) or all lack one
    ('required': the map is never mutated) - the two boundary cases of the `let` / `let mut entries` choice and of the helper parameters"""
    m = Model('overrides_' + kind)
    f32_ = m.scalar('Float', 4)
    bool_ = m.scalar('Bool', 1)
    u32_ = m.scalar('Uint', 4)
    v4 = m.vec(4)
    if kind == 'optional':
        m.override('o_gain', f32_, init=True)
        m.override('o_on', bool_, id_=3, init=True)
    else:
        m.override('o_count', u32_)
        m.override('o_flag', bool_, id_=5)
    m.entry('vs_main', 'Vertex', [], (v4, m.builtin('Position')))
    m.entry('fs_main', 'Fragment', [], (v4, m.loc(0)))
    return m.finish()


def build_world_bare():
    """entry points of all three stages and nothing else: no struct parameters, no overrides, no resources, no constants - every list empty"""
    m = Model('bare')
    v4 = m.vec(4)
    m.entry('vs_main', 'Vertex', [('vertex_index', m.scalar('Uint', 4), m.builtin('VertexIndex'))], (v4, m.builtin('Position')))
    m.entry('fs_main', 'Fragment', [], None)
    m.entry('cs_main', 'Compute', [], None, workgroup=(8, 1, 1))
    return m.finish()


def build_world_leaf_zoo():
    """every leaf type of the type table as a member of one host-shareable struct (derive switches off: no layout constraints)"""
    m = Model('leaf_zoo')
    members = []
    off = 0
    for k, w in (('Float', 4), ('Sint', 4), ('Uint', 4), ('Float', 8)):
        members.append((f's_{k.lower()}{w * 8}', m.scalar(k, w), None, off)); off += 16
        for n in (2, 3, 4):
            members.append((f'v{n}_{k.lower()}{w * 8}', m.vec(n, k, w), None, off)); off += 32
    for c in (2, 3, 4):
        for r in (2, 3, 4):
            members.append((f'm{c}x{r}_f32', m.mat(c, r, 4), None, off)); off += 64
        members.append((f'm{c}x{c}_f64', m.mat(c, c, 8), None, off)); off += 128
    zoo = m.struct('LeafZoo', members, off)
    m.global_('zoo', V('naga::AddressSpace::Uniform'), zoo, 0, 0, ['COMPUTE'])
    m.entry('main', 'Compute', [], None, (1, 1, 1))
    return m.finish()


def build_world_vertex_plain():
    m = Model('vertex_plain')
    v4 = m.vec(4)
    vin = m.struct('PlainInput', [('a', v4, m.loc(0), 0), ('b', m.vec(2, 'Sint'), m.loc(1), 16), ('c', m.scalar('Float', 8), m.loc(5), 24), ('d', m.vec(3, 'Uint'), m.loc(6), 32)], 48)
    m.entry('vs', 'Vertex', [('input', vin, None)], (v4, m.builtin('Position')))
    return m.finish()


def build_world_vertex_only():
    m = Model('vertex_only')
    v4 = m.vec(4)
    f32_ = m.scalar('Float', 4)
    m.struct('Input', [('a', v4, m.loc(0), 0)], 16)
    m.entry('vs', 'Vertex', [('vertex_index', m.scalar('Uint', 4), m.builtin('VertexIndex'))], (v4, m.builtin('Position')))
    m.override('only', f32_)
    return m.finish()


OPTION_FIELDS = ['derive_bytemuck_vertex', 'derive_bytemuck_host_shareable', 'derive_encase_host_shareable', 'derive_serde']


def option_sets(tier):
    sets = []
    reprs = ['Rust', 'Glam', 'Nalgebra']
    import itertools
    for i, bits in enumerate(itertools.product([False, True], repeat=4)):
        for r in reprs:
            if tier == 'quick' and not ((i % 5 == 0) or bits == (True, True, True, True) or (bits == (False, False, True, False) and r == 'Glam')):
                continue
            sets.append((dict(zip(OPTION_FIELDS, bits)), r))
    return sets


def render_world(ogp, top_q, out_tmpl, model, opts, rep_, embed=True):
    f = ogp.crate.fns[top_q]
    ev = SkelEval(ogp, model, dict(opts), 'SRC', None if embed else 'shader.wgsl')
    frame = {}
    for p in f['params']:
        name, ty = p['pat'].get('name'), p['ty'].replace(' ', '')
        if 'WriteOptions' in ty:
            ev._optp = ('param', top_q, name)
            o = dict(opts)
            o['matrix_vector_types'] = V('crate::MatrixVectorTypes::' + rep_)
            o['rustfmt'] = False
            o['validate'] = None
            ev.options = o
            frame[(top_q, name)] = V('crate::WriteOptions', **o)
        elif ty.startswith('Option<'):
            frame[(top_q, name)] = None if embed else ('some', 'shader.wgsl')
        elif ty.replace('&', '').replace("'_", '').endswith(('naga::Module', 'Module')) and model is not None:
            frame[(top_q, name)] = model.module          # the assembling function takes the parsed module (front end split off into a caller)
        else:
            frame[(top_q, name)] = '// model shader \\ "quoted" {braces}\n@fragment fn fs_main() {}'
    ev.params.append(frame)
    text = ev.ev(out_tmpl)
    return str(text), ev


def static_expand(ogp, t):
    """text of template `t` in which the holes / repetitions whose value does not depend on the input (constant templates of helper functions,
    repetitions over constant lists, identifiers built from literals) are expanded; input-dependent ones stay as `#name` / `#( .. )*` exactly as in
    engine_ogp.tmpl_text.  Lets the fixed parts of the output be judged as text wherever the source chose to build them."""
    import engine_ogp as E
    ev = SkelEval(ogp, None, {}, '', None)
    ev.markers = False

    def items(its):
        out = []
        for it in its:
            if it[0] == 'tok':
                out.append(it[1])
            elif it[0] == 'hole':
                try:
                    v = ev.ev(it[2])
                    out.append(ev.tokens(v))
                except Exception:
                    if it[2][0] == 'tmpl':
                        out.append(items(it[2][2]))
                    else:
                        out.append('#' + it[1])
            else:
                try:
                    out.append(ev.render_rep(it))
                except Exception:
                    out.append('#( ' + items(it[1]) + ' )' + it[2] + '*')
        return ' '.join(x for x in out if x)
    return ' '.join(items(t[2]).split())


def find_output_template(ogp):
    raw = getattr(ogp, 'raw', ogp.summaries)

    def bindable(q):
        # every parameter can be bound from a model world: the options, the module, the source text, the include path (or a context record of those)
        for p in ogp.crate.fns[q]['params']:
            ty = p['ty'].replace(' ', '')
            if p.get('synthetic') or 'WriteOptions' in ty or ty.startswith('Option<') or ty.replace('&', '').replace("'_", '').endswith('Module') or ty.endswith('str'):
                continue
            if ogp.crate.context_struct(ogp.crate.fns[q]['mod'], p['ty']):
                continue
            return False
        return True
    for q, v in raw.items():
        for t in E.find_templates(v, lambda t: t[3] == q and sum(1 for it in t[2] if it[0] in ('hole', 'rep')) >= 10 and all(it[0] != 'tok' for it in t[2])):
            if any('WriteOptions' in p['ty'] for p in ogp.crate.fns[q]['params']):
                if bindable(q):
                    return q, t
                # the assembling function is handed intermediate results (`analysis: &ModuleAnalysis`) by a staged caller: instantiate the
                # grammar from the innermost caller that computes them
                cands = []
                for c, cv in raw.items():
                    if c != q and cv is not None and c in ogp.crate.fns and bindable(c):
                        inst = E.find_templates(cv, lambda x: x[1] == t[1])
                        if inst:
                            cg = ogp.crate.call_graph()
                            seen, st_ = set(), [c]
                            while st_:
                                x_ = st_.pop()
                                if x_ not in seen:
                                    seen.add(x_)
                                    st_.extend(cg.get(x_, ()))
                            cands.append((len(seen), c, inst[0]))       # innermost = fewest functions below it (the public wrappers sit above)
                if cands:
                    _, c, inst = sorted(cands, key=lambda x: x[:2])[0]
                    return c, inst
                return q, t
    return None, None


def all_template_ids(term):
    ids = set()
    E.walk(term, lambda x: ids.add(x[1]) if x[0] == 'tmpl' else None)
    return ids


def cargo_check(lib_rs_text):
    """type-check the skeleton source against the real crates; returns (ok, diagnostics list of (line, message))"""
    work = os.path.join(WORK, 'skeleton')
    with Lock('skeleton'):
        shutil.rmtree(work, ignore_errors=True)
        shutil.copytree(SKEL_SRC, work, ignore=shutil.ignore_patterns('target'))
        lock = os.path.join(REPO, 'Cargo.lock')
        if os.path.exists(lock):
            shutil.copy(lock, os.path.join(work, 'Cargo.lock'))
        open(os.path.join(work, 'src', 'lib.rs'), 'w').write(lib_rs_text)
        rc, out = run('cargo check --offline --message-format=json', cwd=work, env={'CARGO_TARGET_DIR': os.path.join(WORK, 'skel-target'), 'RUSTFLAGS': '-Awarnings'}, timeout=3600)
    diags = []
    for line in out.splitlines():
        if not line.startswith('{'):
            continue
        try:
            j = json.loads(line)
        except Exception:
            continue
        if j.get('reason') == 'compiler-message' and j['message'].get('level') == 'error':
            msg = j['message']
            spans = [s for s in msg.get('spans', []) if s.get('is_primary')]
            ln = spans[0]['line_start'] if spans else 0
            diags.append((ln, msg.get('message', ''), (msg.get('code') or {}).get('code')))
    return rc == 0, diags, out[-3000:] if rc != 0 and not diags else ''


def table_ev(ogp, leaf, term, lenient=False, flag_types=None):
    """evaluate an extracted decision table at one point of its domain: the plain table evaluator first; a table written as a lookup in a
    constant list (`TABLE.iter().find(|row| key(row) == key).map(|row| ..)`) needs the iteration forms, which the model-less SkelEval has"""
    from conc import Eval as _Eval
    try:
        return _Eval(leaf, flag_types, lenient=lenient).ev(term) if flag_types is not None else _Eval(leaf, lenient=lenient).ev(term)
    except Unbound:
        ev = SkelEval(ogp, None, {}, '', None, extra_leaf=leaf)
        ev.markers = False
        ev.lenient = lenient
        return ev.ev(term)
