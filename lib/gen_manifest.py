#!/usr/bin/env python3
"""Writes /verif/MANIFEST.json from the table below (one place to keep claims, levels and notes in sync)."""
import json, os
V = os.path.dirname(os.path.dirname(os.path.abspath(__file__)))

CHECKS = {
    # id: (technique, level text, level note, design ref)
    'C20': ('MIR call-graph SCCs + dominator rule: arena-following recursion must be visited-set guarded (rustc_private driver)',
            'Structural clause decided for every recursive call site of the crate (resolved MIR, all paths): un-memoised recursion along shared arena handles is the only way the generator can multiply work with call depth / nesting; the rule demands a dominating visited-set branch keyed by the followed handle (or a single recursive call per activation) and forbids shrinking the set. Decides the shape of the recursion, not wall-clock time.',
            'Trusted: rustc nightly MIR + Instance resolution; cost inside naga/syn/prettyplease/rustfmt; constant factors. Loops are polynomial by nesting (reported, not judged).',
            'DESIGN.md section 3 C20'),
}
NOT_YET = 'check not built yet in this round (design in DESIGN.md section 3); listed here so that nothing is claimed without a running check'

def main():
    props = [json.loads(l) for l in open(os.path.join(V, 'properties.jsonl'))]
    checks, na = [], []
    for p in props:
        pid = p['id']
        if pid in CHECKS:
            tech, text, note, ref = CHECKS[pid]
            checks.append({
                'property_id': pid,
                'quick_cmd': f'./check {pid} --tier quick',
                'thorough_cmd': f'./check {pid} --tier thorough',
                'evidence_file': f'/verif/evidence/{pid}.json',
                'replay_cmd_template': f'./check {pid} --replay {{path}}',
                'engine': 'static',
                'level_claimed': {'category': 'other', 'text': text, 'design_ref': ref},
                'level_note': note,
                'technique': tech,
            })
        else:
            na.append({'property_id': pid, 'reason': NA.get(pid, NOT_YET)})
    m = {
        'version': 1,
        'setup_cmd': './setup.sh',
        'hooks': {
            'guard': 'scanmountgoat_wgsl_to_wgpu_verif',
            'enable': 'no hooks are needed: every check reads the source / resolved MIR of the unmodified crate (RUSTFLAGS would carry --cfg scanmountgoat_wgsl_to_wgpu_verif if one were added)',
            'baseline_off_cmd': 'cd /repo && cargo test --workspace --no-fail-fast --offline',
            'source_commits': [],
            'add_only': True,
        },
        'engines': [
            {'name': 'mirfacts', 'path': 'tools/mirfacts', 'serves_properties': sorted(k for k in CHECKS),
             'kind_free_text': 'rustc_private driver (nightly) dumping resolved MIR facts of the crate: CFG, resolved callees, def-use, aggregates; rules in lib/rules/*.py'},
        ],
        'checks': checks,
        'not_applicable': na,
        'notes': 'Static analysis only: no check executes the generator, the generated code or a solver. Known genuine defects are listed in known_findings.json (status known/fixed). See DESIGN.md.',
    }
    json.dump(m, open(os.path.join(V, 'MANIFEST.json'), 'w'), indent=1)
    print('checks:', [c['property_id'] for c in checks], 'n/a:', len(na))

NA = {}
if __name__ == '__main__':
    main()
