#!/usr/bin/env python3
"""Writes /verif/MANIFEST.json from the table below (one place to keep claims, levels and notes in sync)."""
import json, os
V = os.path.dirname(os.path.dirname(os.path.abspath(__file__)))

CHECKS = {
    'C01': ('compile witness of the extracted output grammar (instantiated on model IRs, cargo check against the real crates) + identifier-hygiene / name-collision / definition-reference rules',
            'Decided: (a) every template of the extracted grammar that is reachable from WGSL (148 of 153; the rest are table rows for types WGSL cannot spell) is instantiated in a self-consistent module on hand-made model IRs under many option sets and type-checked by rustc against the real wgpu 24 / bytemuck / encase / glam / serde crates (diagnostics mapped back to the quote! site) - this is type-checking the object-language fragments of the staged program, not compiling sampled outputs; (c) identifier conversion chains classified against naga\'s reserved-word table; (d) top-level name families vs fixed names; (e) impl-without-struct via the C07/C08 predicates. Genuine input classes on which the module cannot compile are known findings keyed exactly.',
            'Trusted: Engine A/C term semantics; rustc + pinned crates; nalgebra only via a stub. NOT decided: interactions on inputs outside the modelled worlds (rustc per concrete output is the only complete oracle - a dynamic technique).',
            'DESIGN.md section 3 C01'),
    'C10': ('glam leaf-table inclusion in encase\'s impl table (read from the pinned encase source) + shared composite-type / derive / closure rules',
            'The byte image written by encase is run-time behaviour and is NOT decided. Decided necessary structural clause: under Glam every vector / square-matrix leaf maps to a type for which encase-0.10/src/impls/glam.rs declares a vector/matrix impl of the same dimensions and scalar (never a plain array for a WGSL vector), scalars are encase-supported; arrays/structs/runtime arrays per C06 rules; ShaderType derived exactly on the closed host-shareable set when the switch is on (C09 rows + closure discipline). The clause on nested structs needs every struct reachable from a host-shareable variable to be emitted: C08\'s selection-formula and closure rules are evaluated in the same run.',
            'Trusted: encase lays out its impls per the WGSL rules; glam types. Known finding: f64 leaves have no encase impl.',
            'DESIGN.md section 3 C10'),
    'C14': ('hole-provenance / sibling-agreement rules on entry-point templates + finite evaluation of the fragment target-count table (syn-based abstract interpreter)',
            'Structural clauses: ENTRY_ constants for all entry points with value = exact name, and every helper builds the constant identifier with the same expression as the definition; compute items per Compute entry (constructor name, entry_point: Some(name) identity, module\'s own shader/layout, workgroup constant = components 0,1,2 in order); fragment helper per Fragment entry with target count = location+1 / max(location+1) over struct members / 0 (evaluated on representative result shapes and symbolically for structs); vertex helper per Vertex entry (buffer count by C07 rule D); vertex_state/fragment_state forward field-wise.',
            'Trusted: Engine A semantics; wgpu addresses colour targets by @location.',
            'DESIGN.md section 3 C14'),
    'C16': ('hole-provenance rule on the SOURCE template (empty conversion chain) + MIR pass-through rule on the public wrappers',
            'Decided structural clause only: SOURCE is the public wgsl_source parameter itself interpolated as one string literal, or include_str!(the given path unmodified), selected solely by the presence of the path; wrappers forward their parameters unchanged (MIR); create_shader_module hands Cow::Borrowed(SOURCE) to ShaderSource::Wgsl; the parsed text is the same parameter. The escaping/printing round-trip of arbitrary strings through proc-macro2/syn/prettyplease/rustfmt is a library law and is NOT decided.',
            'Trusted: proc-macro2 Literal::string escaping; syn/prettyplease/rustfmt preserve literal tokens.',
            'DESIGN.md section 3 C16'),
    'C12': ('dependence rule on the extracted override section + instantiation of the extracted grammar over complete model override lists (syn-based abstract interpreter; the generator is never run)',
               "The override section is shown to read only module.overrides[*].{name,id,ty,init} and module.types; it is then instantiated on model lists enumerating scalar kind {bool,i32,u32,f32} x @id present/absent x default present/absent completely, in two worlds with different names, ids and order (thorough: 24 more seeded sub-lists), and every piece of the instantiated text is compared with the property: one field per override, named after it, Option<..> iff it has a default; each override in exactly one of the required list / optional inserts; key = decimal @id else the name; value = bool ? `if x {1.0} else {0.0}` : `x as f64` on the same override's field; `entries` returned; nothing for a module without overrides; entry helpers take/pass the map iff the module has overrides (evaluated on all combinations); vertex_state/fragment_state forward &entry.constants. Independent of how the source splits the work (closures, helper struct with methods, partition).",
               'Trusted: Engine A semantics; naga\'s override resolution (keys by decimal id or name, f64 values).',
            'DESIGN.md section 3 C12'),
    'C13': ('hole-provenance rules on the summary of the top-level function (every helper inlined) + adopted stage-walk rules of C03 (syn-based abstract interpreter)',
               'Structural clauses, decided where the range reaches the pipeline layout so that free functions, closures or a helper struct with methods give the same result: range is `PushConstantRange { stages: PUSH_CONSTANT_STAGES, range: 0..n }` with n the unmodified byte size (TypeInner::size(ctx) or Layouter[ty].size - not a stride) of the type of the global selected by space == PushConstant; range and constant present under one condition that is (truth table) "some global has space PushConstant"; single optional range hole; stage set = map.get(name of that global) else entry stages (decision-list comparison), the map being the stage walker\'s and the fallback the union of the 3-row stage table over all entry points (evaluated on model entry lists); C03\'s traversal / propagation / seeding rules are evaluated in the same run because the statement includes "the stages using the variable".',
               'Trusted: Engine A semantics; naga sizes; C03 rules for the content of the stage map.',
            'DESIGN.md section 3 C13'),
    'C07': ('hole-provenance rules on the vertex attribute / buffer-layout templates + exhaustive vertex-format table lookup + sort-then-dedup discipline',
            'Structural clauses: one attribute per Binding::Location member of the argument struct (builtins skipped, no other filter), location/offset_of!/format all from the same member, count = length of the same list, impl/stride/attributes name the struct itself; the format table is looked up on all 16 reachable (scalar kind, width, component count) points; impl blocks once per struct (sort(key) then dedup(same key), unfiltered); per-entry helper lists one layout per struct argument in argument order with step-mode parameters declared by the same iteration and N = length of the same list.',
            'Trusted: Engine A semantics; wgpu-core format semantics by name; rustc offset_of!/size_of with repr(C). Direct @location parameters are outside the property\'s domain.',
            'DESIGN.md section 3 C07'),
    'C04': ('hole-provenance and sibling-agreement rules over the output grammar (syn-based abstract interpreter) + MIR rules on the group-map construction',
            'Structural clauses decided for every template of the bind-group section: resource-struct fields, BindGroupEntry list and layout-entry list range over the same unfiltered binding list of the same group; field name and `bindings.<name>` come from the same element, `binding:` is that element\'s binding_index (never a position), resource kind partition agrees with the field type partition; all names agree on the group key (impl, descriptor definition/uses, from_bindings parameter, set index); BindGroups/set_bind_groups/pipeline layout range over every key of the same ordered map unadapted; SetBindGroup has exactly the three forwarding impls. The map construction (key = group, element from one variable) is decided by the C11 MIR rules in the same run.',
            'Trusted: Engine A semantics; wgpu behind create_bind_group/set_bind_group; C11 density contract (position == index).',
            'DESIGN.md section 3 C04'),
    'C05': ('hole-provenance rules on the layout-assertion templates (syn-based abstract interpreter) + gate truth table',
            'Structural clauses on the extracted assertion templates: one offset assertion per emitted field (same member list and filter), expected number = StructMember.offset of the same member, offset_of!(this struct, that member); size assertion against Layouter[this type handle].size (layouter updated with this module) or the type\'s own size; assertions present iff derive_bytemuck_host_shareable && membership of the handle in the closure set seeded from every module-scope variable. With rustc\'s const evaluation this makes every compiling struct match naga\'s WGSL layout numbers.',
            'Trusted: naga computes the WGSL layout (offsets/sizes); rustc const-evaluates assertions and lays out repr(C) as specified; Engine A semantics. The suite pins the reachable rows by snapshots, so the added value is mainly the one-to-one/identity provenance.',
            'DESIGN.md section 3 C05'),
    'C08': ('type-closure exhaustiveness against the naga TypeInner schema + 8-row truth table of the extracted selection predicate + single-producer rule',
            'Every Handle<Type> field of naga::TypeInner (from the pinned source) is followed unconditionally by the closure function, which inserts every visited handle and is seeded from all global variables; the extracted emission predicate is equivalent to (not A and B) or C on all 8 rows, its conditions on the entry points being truth tables over (A: some entry returns the type, B: some entry takes it) obtained by evaluating them on model entry points of all three stages; the set behind C is altered only by the inserts of the closure itself (closure-only); only TypeInner::Struct yields items; the assembled output has exactly one producer of user struct items, a plain pass over module.types (UniqueArena).',
            'Trusted: naga stores each type once; Engine A semantics.',
            'DESIGN.md section 3 C08'),
    'C09': ('per-row instantiation of the extracted struct item over the full 64-row truth table + option non-interference over the output grammar',
               "Exhaustive over a finite domain: for all 64 assignments of the six atoms (4 switches, host-shareable, ends-in-runtime-array) the struct item is instantiated (names, members, sizes symbolic) and the derive list, #[repr(C)] and the layout assertions are read from the text and compared with the property's table, including exactly the documented panic rows - whichever helper, early return or template produces them; for host-shareable rows every entry-point role of the struct is enumerated as well; the host-shareable atom is membership in the closure set of all module-scope variable types, which nothing but the closure alters (closure discipline rule); the options travel between crate functions unchanged (shared MIR pass-through rule); no other section of the assembled output (and no condition outside the struct section) reads a WriteOptions field other than the validate/rustfmt gates.",
               'Trusted: Engine A semantics; derive macros behave as documented; validate/rustfmt gates are C17/C19.',
            'DESIGN.md section 3 C09'),
    'C06': ('output-grammar provenance rules + exhaustive leaf-type table lookup (syn-based abstract interpreter)',
            'Structural clauses on the struct item template: fields iterate the member list in order, filtered only by not-builtin, names by identity, type hole = the type table on module.types[member.ty] under options.matrix_vector_types; the table is looked up at the use site over its whole finite leaf domain (scalars, atomics, vec2-4, 9 matrix shapes x f32/f64 x Rust/Glam/Nalgebra) against oracle formulas; array/struct/runtime-array rows checked structurally.',
            'Trusted: Engine A semantics; oracle formulas of DESIGN appendix A.3; rustc layout is C05\'s subject.',
            'DESIGN.md section 3 C06'),
    'C15': ('payload-operation whitelist on the extracted constants section + instantiation over a complete model constant list (syn-based abstract interpreter; the generator is never run)',
               "The section reads only module.constants[*].{name,init}, global_expressions and types, and applies to a literal's payload only value-preserving operations (identity, sign test / abs to print sign and magnitude separately, comparison with zero - no cast, arithmetic or formatting). It is instantiated on a model list holding, for every variant of naga::Literal (read from the pinned naga source), boundary and ordinary values (0, -0.0, negative, extreme; thorough: 60 more seeded values per type), every scalar zero-value constructor, non-scalar zero values, a non-literal expression and an unnamed constant; the result must be exactly one `pub const <name>: <payload type> = <payload as a literal of that type>;` per named scalar literal / scalar zero value, in order, and nothing else.",
               'Trusted: Engine A semantics; float printing/parsing round-trip in proc-macro2/syn/prettyplease/rustfmt (library law).',
            'DESIGN.md section 3 C15'),
    'C02': ('abstract interpretation of the generator (syn) -> extracted decision table, exhaustive lookup over the finite domain of WGSL resource types vs. a wgpu-core oracle',
            'Exhaustive over a finite domain: the `ty:` decision table of the layout-entry template is extracted from the source and looked up at every WGSL-spellable resource type (703 points enumerated from the pinned naga source: buffers x address spaces, sampled/depth/multisampled textures x 6 view dimensions, all 41 storage formats x 4 accesses x 4 dimensions, samplers); the emitted wgpu::BindingType tokens are compared with an oracle transliterated from wgpu-core 24 (check_binding_use, map_storage_format_to_naga, create_bind_group_layout entry rules). Visibility (C03 rules) is evaluated in the same run because the statement includes it.',
            'Trusted: Engine A\'s abstract semantics of the Rust idioms used; the hand-transliterated oracle (rows cite wgpu-core functions); naga reports types as enumerated. Existence/order of bindings is C04/C11.',
            'DESIGN.md section 3 C02'),
    'C03': ('abstract effect summary of the stage walker (syn-based interpreter): traversal exhaustiveness against the naga Statement/Expression schema, stage propagation, seeding, lookup wiring',
            'Necessary-and-sufficient structural conditions of the reachability computation, decided on the abstract effect summary of the walker functions (anchored by role): every Block / Handle<Function> field of naga::Statement (enumerated from the pinned naga source) and Expression::CallResult is followed without extra condition, from whole blocks; GlobalVariable updates map[name] by union with the unchanged stage parameter; the driver seeds all entry points with the 3-row stage table, a visited set fresh per entry point, and returns the map; the visibility hole is map.get(name of the same binding) or NONE. No `return` / `break` inside a traversal loop or the loop over the entry points (early exits are recorded as effects); the stage map is written only by that union update and only inside the recursive walk (resolved MIR, whole crate).',
            'Trusted: naga\'s IR invariant (calls are Statement::Call/Expression::CallResult; global uses are Expression::GlobalVariable); quote_shader_stages on its 8 inputs is pinned by an existing unit test.',
            'DESIGN.md section 3 C03'),
    'C11': ('MIR dominator/guard rules on the group-data function: scan-before-push, density-before-Ok, no panic path (rustc_private driver)',
            'Structural clauses decided on every path of the function(s) that construct DuplicateBinding and of the top-level function: each push onto a group list is dominated by the false edge of a whole-list scan comparing binding_index, whose true edge returns DuplicateBinding{binding}; list = map entry keyed by the same ResourceBinding.group; loop over all globals unfiltered; the single Ok(groups: BTreeMap) is dominated by a recognised density test keys == 0..len whose other edge returns NonConsecutiveBindGroups; NonConsecutive only after the scan loop; no panic-capable callee / checked arithmetic; error returned unchanged before any emission. The scan predicate is exactly the index comparison; anywhere in the crate no call removes, replaces or adds elements of a binding list or of the group map other than the guarded push (no-other-writer); the emission side (C04 rules: same list, own index, one item set per group key) is adopted. Decides the control/data-flow shape, not the interplay with naga\'s validator.',
            'Trusted: rustc MIR + Instance resolution; naga handles index their own module; recognised density idioms are the two listed (another equivalent form is reported as undecided).',
            'DESIGN.md section 3 C11'),
    'C17': ('MIR dominance/taint rules on the top-level function and the four diagnostic helpers (rustc_private driver)',
            'Decided on every path: parse_str receives the caller\'s text unchanged; its success edge dominates all generation and validator calls; nothing panic-capable before it or on the error path; ParseError/ValidationError are built from the very error values; with validate=Some the validator\'s success edge dominates all generation calls and nothing runs before the gate; the validator\'s Ok value is dropped, options.validate is read only at the gate, the module is never mutably borrowed (so validation cannot change the output); the validator is created with ValidationFlags::all() and the capability set of the caller\'s options.validate; the options travel between crate functions unchanged; the emit_* helpers dispatch to naga\'s same-named renderer with the caller\'s source and contain no panic-capable callee.',
            'Trusted: naga front end / validator / diagnostic renderer do not panic (library behaviour, not analysed).',
            'DESIGN.md section 3 C17'),
    'C18': ('whole-crate effect discipline over resolved callees in MIR: hash-order iteration, ambient input, retained state, gated process spawn',
            'Decided for every resolved call site and static of the crate: hash containers are only used for membership (iteration accepted only into order-insensitive consumers); no env/time/fs/net/thread/random/pointer-address input in code reachable from the entry points; no static mut / interior-mutable static / thread-local; std::process only behind the rustfmt-gated call site. These are necessary and (given deterministic dependencies) sufficient structural conditions for the output to be a function of (source, include path, options). R5: the spawned formatter child is reaped - from the point where the Child exists every path to a normal return passes wait()/wait_with_output() (formatter helpers inlined at MIR level). Reachability is over a call graph that over-approximates dispatch the compiler leaves open: every crate implementation of an unresolved trait-method call (trait objects, bounded type parameters), the trait impls of a crate type that library code is instantiated with, Display/Debug impls behind format_args!, Drop impls at drops, every crate function of the signature of a function-pointer call.',
            'Trusted: determinism of naga, syn, prettyplease and of rustfmt itself; no hidden global state in dependencies.',
            'DESIGN.md section 3 C18'),
    'C19': ('MIR rules on the formatter functions: same tokens to both printers, no panic-capable callee, stdout use dominated by success/non-empty/write checks, identity text flow',
            'Decided on every path of the functions behind the rustfmt-gated call: both printers get the same TokenStream local and nothing else happens in the two arms; no unwrap/expect/indexing/explicit panic; the captured stdout is only used under ExitStatus::success() && non-empty && write outcome checked; the returned text derives only by identity-like operations from the token string or the captured stdout (every fallback is the same program). The options reach the printer choice unchanged (shared pass-through rule). C19.d.stdout-drained: no bare wait()/try_wait() on a child with piped stdout before the pipe is read (the one pipe deadlock that is visible in the shape of the code). Timing and slow formatters are not decided (OS scheduling).',
            'Trusted: std::process/OS pipe semantics; rustfmt and prettyplease preserve the token sequence.',
            'DESIGN.md section 3 C19'),
    # id: (technique, level text, level note, design ref)
    'C20': ('MIR call-graph SCCs + dominator rule: arena-following recursion must be visited-set guarded (rustc_private driver)',
            'Structural clause decided for every recursive call site of the crate (resolved MIR, all paths): un-memoised recursion along shared arena handles is the only way the generator can multiply work with call depth / nesting; the rule demands a dominating visited-set branch keyed by the followed handle (or a single recursive call per activation), requires every recursive call to hand on the very set it received (C20.guard-set-threaded: a clone or a fresh set forgets what sibling calls visit), and forbids shrinking the set; work lists are classified the same way (owned sub-structure is linear, arena handles need the guard). Decides the shape of the recursion, not wall-clock time.',
            'Trusted: rustc nightly MIR + Instance resolution; cost inside naga/syn/prettyplease/rustfmt; constant factors. Loops are polynomial by nesting (reported, not judged).',
            'DESIGN.md section 3 C20'),
}
ENGINE_A = {'C01','C02','C03','C04','C05','C06','C07','C08','C09','C10','C12','C13','C14','C15','C16'}
NOT_YET = 'check not built yet in this round (design in DESIGN.md section 3); listed here so that nothing is claimed without a running check'

def main():
    props = [json.loads(l) for l in open(os.path.join(V, 'properties.jsonl'))]
    checks, na = [], []
    for p in props:
        pid = p['id']
        if pid in CHECKS:
            tech, text, note, ref = CHECKS[pid]
            checks.append({
                'property_id': pid,
                'quick_cmd': f'./check {pid} --tier quick',
                'thorough_cmd': f'./check {pid} --tier thorough',
                'evidence_file': f'/verif/evidence/{pid}.json',
                'replay_cmd_template': f'./check {pid} --replay {{path}}',
                'engine': 'static',
                'level_claimed': {'category': 'other', 'text': text, 'design_ref': ref},
                'level_note': note,
                'technique': tech,
            })
        else:
            na.append({'property_id': pid, 'reason': NA.get(pid, NOT_YET)})
    m = {
        'version': 1,
        'setup_cmd': './setup.sh',
        'hooks': {
            'guard': 'scanmountgoat_wgsl_to_wgpu_verif',
            'enable': 'no hooks are needed: every check reads the source / resolved MIR of the unmodified crate (RUSTFLAGS would carry --cfg scanmountgoat_wgsl_to_wgpu_verif if one were added)',
            'baseline_off_cmd': 'cd /repo && cargo test --workspace --no-fail-fast --offline',
            'source_commits': [],
            'add_only': True,
        },
        'engines': [
            {'name': 'syndump+ogp', 'path': 'tools/syndump', 'serves_properties': sorted(k for k in CHECKS if k in ENGINE_A),
             'kind_free_text': 'syn-based AST dumper + Python abstract interpreter (lib/engine_ogp.py) producing the output grammar with provenance: templates, decision tables, hole provenance, effect summaries; finite-domain table lookup in lib/conc.py; schemas from pinned dependency sources in lib/schema.py'},
            {'name': 'skeleton', 'path': 'tools/skeleton', 'serves_properties': ['C01'],
             'kind_free_text': 'Engine C: the extracted grammar instantiated on model IRs (lib/engine_skel.py) and type-checked with cargo check against wgpu 24, bytemuck, encase, glam, serde (nalgebra stub)'},
            {'name': 'mirfacts', 'path': 'tools/mirfacts', 'serves_properties': sorted(k for k in CHECKS if k not in ENGINE_A),
             'kind_free_text': 'rustc_private driver (nightly) dumping resolved MIR facts of the crate: CFG, resolved callees, def-use, aggregates; rules in lib/rules/*.py'},
        ],
        'checks': checks,
        'not_applicable': na,
        'notes': 'Static analysis only: no check executes the generator, the generated code or a solver. Known genuine defects are listed in known_findings.json (status known/fixed). Every Engine-A check also applies the shared section-wiring rule (lib/sections.py: each section reaches the assembled output unconditionally, or is empty exactly when it has no content). See DESIGN.md (7.9-7.11 for the latest rounds).',
    }
    json.dump(m, open(os.path.join(V, 'MANIFEST.json'), 'w'), indent=1)
    print('checks:', [c['property_id'] for c in checks], 'n/a:', len(na))

NA = {}
if __name__ == '__main__':
    main()
