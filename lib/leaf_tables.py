"""Leaf type tables (C06, C10, C05) and the vertex-format table (C07): looked up over their finite domains in the OGP."""
import engine_ogp as E
import schema as S
from conc import Eval, V, Diverge, Unbound

SIZES = {'Bi': 2, 'Tri': 3, 'Quad': 4}
SCALARS = [('Sint', 4), ('Sint', 8), ('Uint', 4), ('Uint', 8), ('Float', 4), ('Float', 8), ('Bool', 1)]
VEC_SCALARS = [('Sint', 4), ('Uint', 4), ('Float', 4), ('Float', 8)]
REPRS = ['Rust', 'Glam', 'Nalgebra']


def scalar_v(kind, width):
    return V('naga::Scalar', kind=V('naga::ScalarKind::' + kind), width=width)


def vsize(n):
    name = {2: 'Bi', 3: 'Tri', 4: 'Quad'}[n]
    return V('naga::VectorSize::' + name, repr=n)


def rust_scalar(kind, width):
    if kind == 'Bool':
        return 'bool'
    return {'Sint': 'i', 'Uint': 'u', 'Float': 'f'}[kind] + str(8 * width)


def find_type_fn(ogp):
    """the type-mapping function by role: summary is a decision table over naga::TypeInner whose rows are type tokens and that
    has a parameter of the representation enum"""
    hits = []
    for q, f in ogp.crate.fns.items():
        if any('MatrixVectorTypes' in p['ty'] for p in f['params']) and any(p['ty'].replace(' ', '').endswith('naga::Type') for p in f['params']):
            v = ogp.summaries.get(q)
            if v and v[0] == 'alt' and any(c[0] == 'is' and 'TypeInner' in c[2] for c, _ in v[1]):
                hits.append(q)
    return hits


def type_points():
    TI = 'naga::TypeInner::'
    pts = []
    for k, w in SCALARS:
        pts.append((f'scalar/{k}{w * 8}', V(TI + 'Scalar', **{'0': scalar_v(k, w)}), ('scalar', k, w)))
        if k != 'Bool' and w == 4 or (k, w) in (('Sint', 8), ('Uint', 8)):
            pts.append((f'atomic/{k}{w * 8}', V(TI + 'Atomic', **{'0': scalar_v(k, w)}), ('scalar', k, w)))
    pts.append(('atomic/Float32', V(TI + 'Atomic', **{'0': scalar_v('Float', 4)}), ('scalar', 'Float', 4)))
    for n in (2, 3, 4):
        for k, w in VEC_SCALARS:
            pts.append((f'vec{n}/{k}{w * 8}', V(TI + 'Vector', size=vsize(n), scalar=scalar_v(k, w)), ('vector', n, k, w)))
    for c in (2, 3, 4):
        for r in (2, 3, 4):
            for w in (4, 8):
                pts.append((f'mat{c}x{r}/f{w * 8}', V(TI + 'Matrix', columns=vsize(c), rows=vsize(r), scalar=scalar_v('Float', w)), ('matrix', c, r, w)))
    return pts


def expected_type_tokens(shape, rep_):
    """set of acceptable token strings for a leaf type under a representation"""
    if shape[0] == 'scalar':
        return {rust_scalar(shape[1], shape[2])}
    if shape[0] == 'vector':
        _, n, k, w = shape
        s = rust_scalar(k, w)
        rust = f'[ {s} ; {n} ]'
        if rep_ == 'Rust':
            return {rust}
        if rep_ == 'Glam':
            pre = {('Float', 4): '', ('Float', 8): 'D', ('Uint', 4): 'U', ('Sint', 4): 'I'}.get((k, w))
            return {f'glam :: {pre}Vec{n}'} if pre is not None else {rust}
        return {f'nalgebra :: SVector < {s} , {n} >'}
    _, c, r, w = shape
    s = rust_scalar('Float', w)
    rust = {f'[ [ {s} ; {c} ] ; {r} ]', f'[ [ {s} ; {r} ] ; {c} ]'}
    if rep_ == 'Rust':
        return rust
    if rep_ == 'Glam':
        if c == r:
            return {f'glam :: {"D" if w == 8 else ""}Mat{c}'}
        return rust
    return {f'nalgebra :: SMatrix < {s} , {r} , {c} >'}


def eval_type(ogp, q, inner, rep_):
    f = ogp.crate.fns[q]
    ty_name = [p['pat']['name'] for p in f['params'] if p['ty'].replace(' ', '').endswith('naga::Type')][0]
    fmt_name = [p['pat']['name'] for p in f['params'] if 'MatrixVectorTypes' in p['ty']][0]
    tyP = ('f', ('param', q, ty_name), 'inner')
    fmtP = ('param', q, fmt_name)

    def leaf(t):
        if t == tyP:
            return (inner,)
        if t == fmtP:
            return (V('crate::MatrixVectorTypes::' + rep_),)
        return None
    import engine_skel as _K
    return _K.table_ev(ogp, leaf, ogp.summaries[q])


def check_type_table(rep, ogp, rule, where_prefix=''):
    """evaluates the whole leaf table; returns dict (label, repr) -> tokens (or None when the generator panics)"""
    qs = find_type_fn(ogp)
    rep.floor('type-mapping function (decision table over naga::TypeInner x representation)', len(qs), 1)
    out = {}
    if not qs:
        return out, None
    q = qs[0]
    f = ogp.crate.fns[q]
    where = f"{ogp.crate.relfile(f['file'])} fn {f['name']}"
    n = 0
    for label, inner, shape in type_points():
        for r in REPRS:
            key = f'{rule}:{label}/{r}'
            try:
                txt = eval_type(ogp, q, inner, r)
            except Diverge as d:
                out[(label, r)] = None
                continue
            except Unbound as u:
                rep.bad(rule, key, where, f'cannot look up the type table at {label}/{r}: {u}', undecided=True)
                continue
            n += 1
            out[(label, r)] = txt
            exp = expected_type_tokens(shape, r)
            rep.check(txt in exp, rule, key, where,
                      f'{label} under {r} is emitted as `{txt}`; expected {" or ".join(sorted("`" + e + "`" for e in exp))}: the field would not denote the same scalar kind, width and element counts',
                      ok_detail=txt)
    rep.floor('leaf-type table points that yield a type', n, 117)
    return out, q


def vertex_format_points():
    TI = 'naga::TypeInner::'
    pts = []
    for k, w in VEC_SCALARS:
        pts.append((f'scalar/{k}{w * 8}', V(TI + 'Scalar', **{'0': scalar_v(k, w)}), (1, k, w)))
        for n in (2, 3, 4):
            pts.append((f'vec{n}/{k}{w * 8}', V(TI + 'Vector', size=vsize(n), scalar=scalar_v(k, w)), (n, k, w)))
    return pts


def expected_vertex_format(n, k, w):
    return {'Sint': 'Sint', 'Uint': 'Uint', 'Float': 'Float'}[k] + str(w * 8) + ('' if n == 1 else f'x{n}')
