#!/usr/bin/env python3
"""debug helper: pretty-print the MIR facts of one body"""
import json, sys
sys.path.insert(0, '/verif/lib')
def fmt_place(p):
    s = f"_{p['l']}"
    for e in p['p']:
        if e == 'deref': s = f"(*{s})"
        elif isinstance(e, dict) and 'f' in e: s += f".{e['f']}"
        elif isinstance(e, dict) and 'downcast' in e: s += f" as {e['downcast']}"
        elif isinstance(e, dict) and 'index' in e: s += f"[_{e['index']}]"
        else: s += f".{e}"
    return s
def fmt_op(o):
    if 'copy' in o: return fmt_place(o['copy'])
    if 'move' in o: return 'move ' + fmt_place(o['move'])
    if 'const' in o: return 'const ' + (o.get('fn') or o['const'])[:60]
    return '?'
def fmt_rv(rv):
    k = rv['rk']
    if k == 'ref': return ('&mut ' if rv['mut'] else '&') + fmt_place(rv['place'])
    if k == 'discriminant': return 'discr(' + fmt_place(rv['place']) + ')'
    if k == 'aggregate': return rv['agg'] + '(' + ', '.join(map(fmt_op, rv['ops'])) + ')'
    if 'ops' in rv: return k + ':' + rv.get('op', '') + '(' + ', '.join(map(fmt_op, rv['ops'])) + ')'
    return k + ' ' + rv.get('dbg', '')[:60]
def dump(b):
    print('fn', b['fn'], 'args', b['arg_count'])
    for i, t in enumerate(b['locals']): print(f'  _{i}: {t[:100]}')
    for d in b['debug']: print('  dbg', d['name'], '=', fmt_place(d['place']))
    for i, blk in enumerate(b['blocks']):
        print(f"bb{i}{' (cleanup)' if blk['cleanup'] else ''}:")
        for st in blk['stmts']:
            print('   ', fmt_place(st['lhs']), '=', fmt_rv(st['rv']))
        t = blk['term']
        if t['k'] == 'call':
            print(f"    {fmt_place(t['dest'])} = CALL {t['callee'] or '?' + t['raw']}({', '.join(map(fmt_op, t['args']))}) -> bb{t['target']} unwind {t['unwind']}  [self={t['self_ty'][:50]}] L{t['span']['line']} {t['span']['mac']}")
        elif t['k'] == 'switch':
            print(f"    SWITCH {fmt_op(t['discr'])} {t['targets']} else bb{t['otherwise']}")
        else:
            print('   ', {k: v for k, v in t.items() if k != 'span'})
if __name__ == '__main__':
    j = json.load(open(sys.argv[1]))
    for b in j['bodies']:
        if b['fn'] == sys.argv[2]: dump(b)
