#!/usr/bin/env python3
"""agent_prompt_r12.py <worktree> <n> <PID> <PID> ...  - prompt of a round-12 sub-agent: the round-1 prompt plus a list of kinds of defect that are already well covered (to push the search elsewhere) (independent faulty changes, only the
property text and a scratch worktree) for several properties at once, <n> changes per property - a second sample from the same distribution."""
import json, sys
wt = sys.argv[1]
n = int(sys.argv[2])
pids = sys.argv[3:]
props = {}
for l in open('/verif/properties.jsonl'):
    p = json.loads(l)
    props[p['id']] = p
blocks = []
for pid in pids:
    p = props[pid]
    blocks.append(f"""--- property {p['id']} - {p['title']}
  statement: {p['statement']}
  quantified over: {p['quantifier']['text']}
""")
total = n * len(pids)
print(f"""You are working on a scratch git worktree of the open-source Rust project wgsl_to_wgpu (a build-time code generator that parses WGSL shaders with naga and emits Rust wgpu bindings). The worktree is at {wt} (library crate in {wt}/wgsl_to_wgpu, an example crate in {wt}/example). Work ONLY inside {wt}. Never read or write /repo or /verif. The sandbox has no network: always pass --offline to cargo and set CARGO_TARGET_DIR={wt}/target for every cargo command. The existing test suite is `cd {wt} && CARGO_TARGET_DIR={wt}/target cargo test --workspace --no-fail-fast --offline` (53 tests + 3 doctests, they pass now; rustfmt is on PATH and some tests use it).

This is robustness research on the project's verification: I need realistic faulty changes ("seeded defects") that a reviewer and the existing tests would not catch, so I can find out whether independent checks catch them.

Below are {len(pids)} behavioural guarantees ("properties") of the library that should hold for all inputs:

{''.join(blocks)}
Your task: for EACH property produce {n} DIFFERENT, independent changes to the library's non-test source code (files under {wt}/wgsl_to_wgpu/src, outside #[cfg(test)] modules; do not edit tests, snapshots or test data) - {total} changes in total - such that each change on its own
  (a) still compiles, and the whole existing test suite still passes unchanged, and
  (b) breaks its property for some input/configuration, and
  (c) needs something specific to manifest - an unusual input, a particular combination of options, a multi-step situation, a fault at a particular point, or two cooperating edits that each look fine alone - NOT something ordinary use would expose at once, and
  (e) is NOT of one of the following kinds, which earlier rounds of this research already cover well (do not submit these): a wrong row / swapped variant / wrong constant in a decision table or template; a wrong field of the same element flowing into a hole (index vs position, offset vs size ..); a dropped, narrowed or widened condition in a filter or match guard; a sort / dedup / reverse / take / skip added to or removed from a list; an `unwrap` / panic added on a failure path; a visited-set guard removed or a cache / memo table added; a static / thread-local / environment / file-system / time dependence; an option read in the wrong section or rewritten by a wrapper; a `break` / `return` / `continue` mix-up in a loop; a size or count threshold; a section dropped or post-processed on its way into the output; validation moved, weakened or its result used; the order of the duplicate / density checks. Look for OTHER ways in which the property can break while everything still compiles and the suite passes - e.g. subtle misuse of a naga or wgpu concept (handles into the wrong arena, spans vs sizes, strides vs sizes, locations vs indices, abstract vs concrete literals, pointer / reference types, atomics, arrays of arrays, binding arrays, f16 / f64 / i64, dual-source blending, @interpolate / @invariant, @must_use, const_assert, override expressions, workgroup_size from overrides ..), a Rust-level subtlety (integer width / sign / overflow, float formatting, Unicode case mapping, string escaping, identifier validity, shadowing, operator precedence, iterator laziness, Option / Result combinator semantics, Drop order, aliasing of clones), or an interaction with the printers (syn / prettyplease / rustfmt) or with the generated code's own compile-time behaviour, and
  (d) looks like something that could realistically happen (a plausible refactoring, optimisation, feature addition or "bug fix" gone subtly wrong), not an obvious sabotage; vary the kind of change, its size (from a one-line slip to a 100-line rework) and the code location across your changes (different functions / different clauses of the property where possible; prefer clauses and code paths that are rarely exercised).
For each change also write a demonstration: a small Rust integration test file (wgsl_to_wgpu/tests/demo.rs using the crate's public API create_shader_module / create_shader_module_embedded, plus string assertions on the generated text or on the Result; or a timing assertion, or a stub `rustfmt` earlier on PATH, whatever the property needs) that FAILS with the change applied and PASSES on the unchanged tree. Verify both directions yourself, and verify that the full existing suite passes with the change.

Deliver, for change i = 1..{total}, a directory {wt}/out/<i>/ containing:
  - patch.diff   : `git diff` of the library source change only (must apply with `git apply` to a clean checkout of this worktree's HEAD; must not contain the demonstration)
  - demo.rs      : the demonstration test file (placed as wgsl_to_wgpu/tests/demo.rs) - if it needs helper files, put them next to it and say so
  - notes.md     : first line `property: <id>`; then which clause of the property it breaks, what exactly is needed for it to manifest, the exact commands you ran, and their observed outcome with and without the change
When finished, restore the worktree source to a clean state (git checkout -- . ; remove the demo test from the tree; keep only {wt}/out/). Finally reply with a short summary: per change one paragraph (property, what it alters, why tests miss it, how the demo exposes it). Keep going until all {total} are verified; if one idea turns out to be caught by the existing tests, replace it with another.""")
