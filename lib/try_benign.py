#!/usr/bin/env python3
"""try_benign.py <dir-with-out/i/patch.diff> ... : apply each behaviour-preserving patch to a scratch copy and run ALL checks; any alarm is a false alarm"""
import json, os, shutil, subprocess, sys, tempfile
HERE = '/verif'
have = [c['property_id'] for c in json.load(open(HERE + '/MANIFEST.json'))['checks']]
for patch in sys.argv[1:]:
    tmp = tempfile.mkdtemp(prefix='vbenign-')
    try:
        subprocess.check_call(['rsync', '-a', '--exclude', 'target', '--exclude', '.git', '/repo/', tmp + '/repo/'])
        r = subprocess.run(['patch', '-p1', '-s', '-i', patch], cwd=tmp + '/repo', stdout=subprocess.DEVNULL)
        if r.returncode != 0:
            print(patch, 'DOES NOT APPLY'); continue
        env = dict(os.environ, VERIF_REPO=tmp + '/repo', VERIF_EVID=tmp + '/ev')
        alarms = {}
        for pid in have:
            p = subprocess.run([HERE + '/check', pid], env=env, stdout=subprocess.PIPE, stderr=subprocess.STDOUT, text=True)
            if p.returncode != 0:
                alarms[pid] = [l.split('key=', 1)[1].strip() for l in p.stdout.splitlines() if 'key=' in l and l.startswith('[')][:4]
        print(patch, 'silent' if not alarms else 'FALSE ALARM ' + json.dumps(alarms))
    finally:
        shutil.rmtree(tmp, ignore_errors=True)
