"""Shared Engine-A rule: every section reaches the assembled output unconditionally.

The per-property rules judge how a section is built; this rule judges the way from there to the module text.  In the summary of the
top-level function (all helpers inlined) each hole of the template that assembles the output must hold its section as it was built: the only
conditions allowed between the hole and the section's content are
  * "emit nothing when there is nothing to emit" - an alternative with an empty branch whose guard is an emptiness test of a sequence that
    occurs inside the other branch (`if entries.is_empty() { quote!() } else { .. #(#entries)* .. }`),
  * presence of a value that the content is built from (`find(..)?` / `Option::map`), and
  * choices between two non-empty contents (embedded source / include_str!), which the owning property's rules judge.
Anything else - a size threshold, a condition on an unrelated part of the module, an option - means the section is silently missing (or replaced
by nothing) for some inputs."""
import engine_ogp as E

_CACHE = {}


def _is_empty_value(v):
    if v[0] == 'tmpl':
        return not [it for it in v[2] if it[0] != 'tok' or it[1].strip()]
    if v[0] == 'tuple':
        return not v[1]
    if v[0] == 'path' and v[1].endswith(('TokenStream::new', 'Vec::new')):
        return True
    if v[0] == 'call' and v[1].endswith(('TokenStream::new', 'Vec::new', 'Default::default')) and not v[2]:
        return True
    return False


def _atoms(c, out):
    if c[0] in ('and', 'or'):
        for x in c[1]:
            _atoms(x, out)
    elif c[0] in ('not', 'okcond'):
        _atoms(c[1], out)
    elif c[0] == 't':
        out.append(c[1])
    elif c[0] not in ('true', 'false'):
        out.append(c)


def _stars_in(term, ogp, out, seen=None):
    seen = set() if seen is None else seen

    def f(x):
        if id(x) in seen:
            return False
        seen.add(id(x))
        if x[0] == 'star':
            out.append(x)
        if x[0] == 'acc':
            for en in ogp.accs[x[1]]['entries']:
                _stars_in(en['val'], ogp, out, seen)
                for l in en.get('loops', ()):
                    out.append(('star', l[1], l[0], ('tuple', []), list(l[2]), False))
    E.walk(term, f)


def _occurs(sub, term, ogp):
    """`sub` (a sequence whose emptiness is tested) feeds the content `term`: it occurs there, or the content repeats over the same source
    under at least the same selection - then an empty `sub` means there is nothing to emit"""
    found = [False]
    key = E.alpha_key(sub)

    def f(x):
        if found[0]:
            return False
        if x is sub or x == sub or (isinstance(x, tuple) and x and x[0] == sub[0] and E.alpha_key(x) == key):
            found[0] = True
            return False
        if x[0] == 'acc':
            for en in ogp.accs[x[1]]['entries']:
                E.walk(en['val'], f)
    E.walk(term, f)
    if found[0]:
        return True
    X = sub
    while X[0] == 'reorder':
        X = X[1]
    cands = []
    _stars_in(term, ogp, cands)
    if X[0] == 'acc':
        # several pushes: the loops they sit in
        xs = [('star', l[1], l[0], ('tuple', []), list(l[2]), False) for en in ogp.accs[X[1]]['entries'] for l in en.get('loops', ())[:1]]
    else:
        xs = [X]
    for x in xs:
        if x[0] != 'star':
            if any(E.alpha_key(y[1]) == E.alpha_key(x) for y in cands):
                return True
            continue
        sx, cx = x[1], [ogp.it.rename_elem(c, x[2], '$e') for c in x[4]]
        kx = E.alpha_key(sx)
        for y in cands:
            if E.alpha_key(y[1]) != kx:
                continue
            cy = {E.alpha_key(ogp.it.rename_elem(ogp.it.subst_elem(c, y[2], ('elem', '$e', sx)), y[2], '$e')) for c in y[4]}
            if all(E.alpha_key(ogp.it.subst_elem(c, '$e', ('elem', '$e', sx))) in cy for c in cx):
                return True
    return False


def _spine(term, ogp, bad, depth=0):
    """conditions between a hole and its content"""
    if depth > 6 or not isinstance(term, tuple) or not term:
        return
    if term[0] == 'alt':
        arms = term[1]
        empties = [(c, v) for c, v in arms if _is_empty_value(v)]
        others = [(c, v) for c, v in arms if not _is_empty_value(v)]
        if empties and others:
            # guard of the empty branch(es): every atom must be an emptiness test of something the other branch is made of
            conds = [c for c, _ in arms if c != ('true',)]
            atoms = []
            for c in conds:
                _atoms(c, atoms)
            for a in atoms:
                ok = a[0] == 'mcall' and a[2] in ('is_empty',) and any(_occurs(a[1], v, ogp) for _, v in others)
                if not ok and a[0] == 'eq':
                    # `x.len() == 0`
                    sides = [a[1], a[2]]
                    lens = [s for s in sides if s[0] == 'mcall' and s[2] == 'len']
                    zeros = [s for s in sides if s[0] == 'lit' and str(s[2]) in ('0',)]
                    ok = bool(lens) and bool(zeros) and any(_occurs(lens[0][1], v, ogp) for _, v in others)
                if not ok:
                    bad.append(('emitted-only-if', a))
        for c, v in others if (empties and others) else arms:
            _spine(v, ogp, bad, depth + 1)
    elif term[0] == 'opt':
        # presence of a value (`find(..)?`, `Option::map`): which presence test is the right one is judged by the owning property (C13 compares
        # it with "some variable is a push constant"); here only tests that cannot be a presence are reported: size thresholds, comparisons
        atoms = []
        _atoms(term[1], atoms)
        for a in atoms:
            sus = []
            E.walk(a, lambda x: sus.append(x) if (x[0] == 'bin' and x[1] in ('<', '>', '<=', '>=')) or (x[0] == 'mcall' and x[2] in ('len', 'count')) else None)
            if sus:
                bad.append(('present-only-if', a))
        _spine(term[2], ogp, bad, depth + 1)
    elif term[0] == 'call' and term[1] in ('Literal::string', 'Literal::usize_unsuffixed', 'Ident::new') and not any(
            isinstance(a_, tuple) and a_ and a_[0] in ('tmpl', 'star', 'acc', 'rep') for a_ in term[2]):
        pass        # a leaf token made from a value (a string literal of the source text, a number, an identifier): not an operation on a section
    elif term[0] in ('mcall', 'call', 'unwrap', 'cast', 'fmt', 'bin', 'callv', 'field', 'tf', 'f', 'idx'):
        # the content is not the section as it was built but the result of an operation on it (`.to_string().replace(..).parse().unwrap()`,
        # a token filter, ..): what reaches the output is then no longer what the section rules judged
        def head(t_, d_=0):
            if d_ > 4 or not isinstance(t_, tuple) or not t_:
                return '..'
            if t_[0] == 'mcall':
                return head(t_[1], d_ + 1) + '.' + str(t_[2]) + '()'
            if t_[0] == 'unwrap':
                return head(t_[1], d_ + 1) + '.unwrap()'
            if t_[0] == 'call':
                return str(t_[1]) + '(..)'
            return t_[0]
        bad.append(('post-processed-by', ('path', head(term))))


def wiring(ogp):
    """[(hole name, text of the templates inside the hole, [(kind, offending atom)])] for the template that assembles the output"""
    if id(ogp) in _CACHE:
        return _CACHE[id(ogp)]
    res = []
    tops = [q for q in ogp.summaries if 'WriteOptions' in str([p['ty'] for p in ogp.crate.fns[q]['params']])]
    best = None
    for tq in tops:
        top = ogp.summaries[tq]
        outs = E.find_templates(top, lambda t: t[3] == tq and sum(1 for it in t[2] if it[0] in ('hole', 'rep')) >= 8)
        if outs:
            best = (tq, outs[0])
            break
    if best is None:
        _CACHE[id(ogp)] = None
        return None
    tq, out = best

    def items(its):
        for it in its:
            if it[0] == 'hole':
                yield it[1], it[2]
            elif it[0] == 'rep':
                for x in items(it[1]):
                    yield x
    for name, term in items(out[2]):
        bad = []
        _spine(term, ogp, bad)
        texts = []

        def text_of(x):
            # the fixed parts of a template are expanded statically, so that a macro name / keyword built as an identifier from a literal
            # (`format_ident!("include_str")`) reads like the token it prints
            try:
                import engine_skel as _K
                return E.tmpl_text(x) + ' | ' + _K.static_expand(ogp, x)
            except Exception:
                return E.tmpl_text(x)
        E.walk(term, lambda x: texts.append(text_of(x)) if x[0] == 'tmpl' else None)
        accs = []
        E.walk(term, lambda x: accs.append(x) if x[0] == 'acc' else None)
        for a in accs:
            for en in ogp.accs[a[1]]['entries']:
                E.walk(en['val'], lambda x: texts.append(E.tmpl_text(x)) if x[0] == 'tmpl' else None)
        res.append((name, ' | '.join(texts), bad))
    _CACHE[id(ogp)] = (tq, res)
    return _CACHE[id(ogp)]


def check_wiring(rep, rule, markers, label):
    """the sections whose templates contain one of `markers` reach the assembled output unconditionally"""
    ogp = E.load()
    w = wiring(ogp)
    if w is None:
        rep.bad(rule, f'{label}:output-template', '', 'cannot find the template that assembles the sections of the output', undecided=True)
        return
    tq, res = w
    f = ogp.crate.fns[tq]
    where = f"{ogp.crate.relfile(f['file'])} fn {f['name']}"
    n = 0
    for name, text, bad in res:
        if not any(m in text for m in markers):
            continue
        n += 1
        rep.check(not bad, rule, f'{label}:{name.lstrip("*")}', where,
                  f'section `{name}` is put into the output only under {[k + " " + E.show(a, maxdepth=4) for k, a in bad][:3]}: for other inputs it is silently left out, although '
                  f'the rest of the module (helpers, constants, references) is generated as if it were there', ok_detail='reaches the output unconditionally (or is empty exactly when it has no content)')
    rep.floor(f'{label}: sections of the assembled output', n, 1)
    # .. and all sections are generated from the one parsed module (resolved MIR)
    from wrappers import check_one_module
    check_one_module(rep, rule.rsplit('.', 1)[0] + '.one-module')
