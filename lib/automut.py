#!/usr/bin/env python3
"""automut.py [--workers N] [--limit K] [--out FILE]  - breadth self-audit of the checks by automatic mutation of /repo.

Small syntactic mutants of the library's non-test source are generated (operator flips, dropped negations, off-by-one literals, swapped
sibling methods / fields, deleted statements, swapped match-arm results).  Each is built and run against the project's own suite in a scratch
copy (never in /repo); mutants the suite kills are dropped.  Every survivor - a change that compiles and passes all existing tests - is given
to all 20 checks.  Survivors no check reports are written out for manual triage (equivalent mutant, or a gap in the rules).

This is a development tool (it runs cargo test, i.e. it is not one of the registered static checks); its result is summarised in DESIGN.md."""
import json, os, re, shutil, subprocess, sys, threading, queue, time
HERE = os.path.dirname(os.path.dirname(os.path.abspath(__file__)))
REPO = '/repo'
SRC = ['lib.rs', 'bindgroup.rs', 'consts.rs', 'entry.rs', 'structs.rs', 'wgsl.rs']


def non_test_span(text):
    i = text.find('#[cfg(test)]')
    return len(text) if i < 0 else i


ROUND2 = False
ROUND3 = False
ROUND4 = False


def gen_mutants():
    muts = []
    for fn in SRC:
        path = f'wgsl_to_wgpu/src/{fn}'
        text = open(os.path.join(REPO, path)).read()
        end = non_test_span(text)
        body = text[:end]
        lines = body.split('\n')
        off = 0
        for ln, line in enumerate(lines, 1):
            stripped = line.strip()
            if stripped.startswith('//') or not stripped:
                off += len(line) + 1
                continue
            code = line.split('//')[0] if '"' not in line else line

            def add(start, old, new, op):
                muts.append({'file': path, 'line': ln, 'pos': off + start, 'old': old, 'new': new, 'op': op})
            for m in re.finditer(r'==|!=|<=|>=|&&|\|\|', code):
                rep = {'==': '!=', '!=': '==', '<=': '<', '>=': '>', '&&': '||', '||': '&&'}[m.group(0)]
                add(m.start(), m.group(0), rep, 'relop')
            for m in re.finditer(r'(?<![=!<>-])([<>])(?![=<>])', code):
                if re.search(r'[\w>]\s*$', code[:m.start()]) and re.match(r'\s*[\w(*&]', code[m.end():]) and ' < ' in code or ' > ' in code:
                    if code[m.start() - 1:m.start()] == ' ' and code[m.end():m.end() + 1] == ' ':
                        add(m.start(), m.group(1), {'<': '<=', '>': '>='}[m.group(1)], 'relop-strict')
            for m in re.finditer(r'!(?=[\w(])(?!\()', code):
                if code[m.start() - 1:m.start()] not in ('=',) and not re.match(r'\w+!', code[max(0, m.start() - 12):m.start() + 1].split()[-1] if code[:m.start() + 1].split() else ''):
                    add(m.start(), '!', '', 'drop-not')
            for m in re.finditer(r'(?<=[ (])([+-]) (\d+)\b', code):
                add(m.start(2), m.group(2), str(int(m.group(2)) + 1), 'literal+1')
                if int(m.group(2)) > 0:
                    add(m.start(2), m.group(2), str(int(m.group(2)) - 1), 'literal-1')
            for a, b in (('any', 'all'), ('is_some', 'is_none'), ('min', 'max'), ('is_empty()', 'len() == 1'), ('iter().rev()', 'iter()'), ('first', 'last'),
                         ('unwrap_or', 'or_else_dummy'), ('to_uppercase', 'to_lowercase'), ('insert', 'contains')):
                for x, y in ((a, b), (b, a)):
                    if y.endswith('_dummy') or x.endswith('_dummy'):
                        continue
                    for m in re.finditer(r'\.' + re.escape(x) + (r'\b' if x[-1].isalnum() else ''), code):
                        add(m.start() + 1, x, y, 'sibling-method')
            for a, b in (('true', 'false'),):
                for x, y in ((a, b), (b, a)):
                    for m in re.finditer(r'\b' + x + r'\b', code):
                        add(m.start(), x, y, 'bool-literal')
            for group in (('group', 'binding'), ('offset', 'span'), ('columns', 'rows'), ('accept', 'reject'), ('body', 'continuing'), ('VERTEX', 'FRAGMENT', 'COMPUTE'),
                          ('Vertex', 'Fragment', 'Compute'), ('D1', 'D2', 'D3', 'Cube'), ('Bi', 'Tri', 'Quad'), ('Uniform', 'Storage'), ('Sint', 'Uint', 'Float'),
                          ('LOAD', 'STORE'), ('ReadOnly', 'WriteOnly', 'ReadWrite'), ('Filtering', 'Comparison', 'NonFiltering'), ('derive_bytemuck_vertex', 'derive_bytemuck_host_shareable'),
                          ('derive_encase_host_shareable', 'derive_serde'), ('Float32x2', 'Float32x3', 'Float32x4'), ('Sint32', 'Uint32', 'Float32'), ('name', 'id'), ('is_ok', 'is_err'),
                          ('stdout', 'stderr'), ('f32', 'f64'), ('i32', 'u32'), ('i64', 'u64'), ('usize', 'u8')):
                for i_, x in enumerate(group):
                    y = group[(i_ + 1) % len(group)]
                    for m in re.finditer(r'(?<![\w])' + re.escape(x) + r'(?![\w])', code):
                        add(m.start(), x, y, 'sibling-name')
            if ROUND2:
                # round 2 operators: forced conditions, iteration adapters, swapped holes / arguments, numeric literals inside templates
                m = re.match(r'^(\s*)(\} else )?if (?!let )(.+) \{\s*$', code)
                if m:
                    st_ = len(m.group(1)) + len(m.group(2) or '') + 3
                    add(st_, m.group(3), 'true', 'force-true')
                    add(st_, m.group(3), 'false', 'force-false')
                for m in re.finditer(r'\.iter\(\)', code):
                    for rep_ in ('.iter().rev()', '.iter().skip(1)', '.iter().take(1)'):
                        add(m.start(), '.iter()', rep_, 'iter-adapter')
                holes = list(re.finditer(r'#(\w+)', code))
                for i_ in range(len(holes) - 1):
                    a_, b_ = holes[i_], holes[i_ + 1]
                    if a_.group(1) != b_.group(1) and 'quote' in body[max(0, off - 1500):off + len(line)]:
                        muts.append({'file': path, 'line': ln, 'pos': off + a_.start(), 'old': code[a_.start():b_.end()],
                                     'new': '#' + b_.group(1) + code[a_.end():b_.start()] + '#' + a_.group(1), 'op': 'hole-swap'})
                for m in re.finditer(r'\b(\w+)\((\*?&?[\w.]+), (\*?&?[\w.]+)\)', code):
                    if m.group(2) != m.group(3) and m.group(1) not in ('format', 'quote', 'assert', 'matches', 'panic', 'println'):
                        add(m.start(2), m.group(2) + ', ' + m.group(3), m.group(3) + ', ' + m.group(2), 'arg-swap')
                for m in re.finditer(r'(?<![\w.])(\d+)\.(\d+)(?![\w])', code):
                    add(m.start(), m.group(0), '0.5' if m.group(0) != '0.5' else '1.5', 'float-literal')
                for m in re.finditer(r'(?<![\w.#])(\d+)(?![\w.])', code):
                    if 'quote' in code or code.strip().startswith(('(naga', 'naga::')):
                        add(m.start(), m.group(1), str(int(m.group(1)) + 1), 'int-literal+1')
                for m in re.finditer(r' as (usize|u64|u32)', code):
                    add(m.start() + 4, m.group(1), 'u8', 'narrowing-cast')
                for m in re.finditer(r'\.filter\(', code):
                    add(m.start(), '.filter(', '.skip_while(', 'filter->skip_while')
                for m in re.finditer(r'\bSome\(', code):
                    if '=> Some(' in code or 'return Some(' in code:
                        pass
            if ROUND3:
                # round 3 operators: conjunct / disjunct dropped, Some -> None, len()+1, dropped filter, neighbouring hole, deleted template token,
                # changed affix in a format string, swapped results of adjacent single-line match arms, index +1, dropped dereference-free adapters
                for m in re.finditer(r'(&&|\|\|)', code):
                    # drop the right operand up to the end of a simple condition (single-line `if a && b {` / closure bodies)
                    rest = code[m.end():]
                    m2 = re.match(r'\s*([^&|{};]+?)\s*(\{|\)\s*$|$)', rest)
                    if m2 and m2.group(1).count('(') == m2.group(1).count(')'):
                        add(m.start(), code[m.start():m.end() + m2.end(1)], '', 'drop-right-operand')
                for m in re.finditer(r'\bSome\(([^()]*(\([^()]*\))?[^()]*)\)', code):
                    if '=>' in code[:m.start()] or 'return' in code[:m.start()] or code.strip().startswith('Some('):
                        add(m.start(), m.group(0), 'None', 'some->none')
                for m in re.finditer(r'\.len\(\)', code):
                    add(m.start(), '.len()', '.len().saturating_sub(1)', 'len-1')
                    add(m.start(), '.len()', '.len().saturating_add(1)', 'len+1')
                for m in re.finditer(r'\.filter\(\|[^|]*\| [^()]*(\([^()]*\))*[^()]*\)$', code.rstrip()):
                    add(m.start(), m.group(0), '', 'drop-filter')
                holes = [h for h in re.finditer(r'#(\w+)', code)]
                if holes and 'quote' in body[max(0, off - 2500):off + len(line)]:
                    ctx_ = body[max(0, off - 1200):off + len(line) + 600]
                    names_ = []
                    for h in re.finditer(r'#(\w+)', ctx_):
                        if h.group(1) not in names_:
                            names_.append(h.group(1))
                    for h in holes:
                        for other in names_:
                            if other != h.group(1):
                                add(h.start(), h.group(0), '#' + other, 'hole-neighbour')
                                break
                if 'quote!' in code or ('quote' in body[max(0, off - 1500):off] and not re.search(r'\blet\b|=>|\bif\b|\bfn\b', code)):
                    for m in re.finditer(r"(?<![\w#])(&|mut |pub |'a |'static |\*|as u64|as f64|Some)(?=[\w#(' ])", code):
                        if m.group(1) == '*' and code[m.start() - 1:m.start()] in (')', ']') or m.group(1) == '*' and code[m.start() + 1:m.start() + 2] in (' ', ')'):
                            continue
                        add(m.start(), m.group(1), '', 'template-token-delete')
                for m in re.finditer(r'format!\("([^"]*)"', code):
                    lit = m.group(1)
                    if '_' in lit:
                        i_ = lit.index('_')
                        add(m.start(1) + i_, '_', '', 'affix-underscore')
                    if lit.startswith('{') and lit.endswith('}') is False and len(lit) > 2:
                        pass
                m = re.match(r'^(\s*)(.+?) => (.+),\s*$', code)
                if m and ln < len(lines):
                    nxt = lines[ln] if ln < len(lines) else ''
                    m2 = re.match(r'^(\s*)(.+?) => (.+),\s*$', nxt.split('//')[0] if '"' not in nxt else nxt)
                    if m2 and m.group(3) != m2.group(3) and '{' not in m.group(3) and '{' not in m2.group(3):
                        muts.append({'file': path, 'line': ln, 'pos': off, 'old': line + '\n' + nxt,
                                     'new': f'{m.group(1)}{m.group(2)} => {m2.group(3)},\n{m2.group(1)}{m2.group(2)} => {m.group(3)},', 'op': 'arm-swap'})
                for m in re.finditer(r'\*(\w+)(?= as usize| as u64|\))', code):
                    if m.group(1) in ('group_no', 'location', 'size', 'i'):
                        add(m.start(), m.group(0), '(' + m.group(0) + ' + 1)', 'value+1')
                for m in re.finditer(r'\.(cloned|copied)\(\)', code):
                    pass
                for m in re.finditer(r'\.enumerate\(\)', code):
                    add(m.start(), '.enumerate()', '.enumerate().skip(1)', 'enumerate-skip')
                for m in re.finditer(r'\.keys\(\)', code):
                    add(m.start(), '.keys()', '.keys().rev()', 'keys-rev')
                    add(m.start(), '.keys()', '.keys().skip(1)', 'keys-skip')
                for m in re.finditer(r'\.unwrap_or\(([^()]+)\)', code):
                    pass
            if ROUND4:
                # round 4 operators - rare-input conditions: every mutant behaves like the original on small modules (so the suite cannot see it) and
                # differently on a module with more than 1000 types / 100000-sized quantities: a conjunct or disjunct added to a condition, an
                # iteration cut off after 1000 elements, a number clamped, an early `return` of an empty result at the top of a function
                fn_has_module = False
                k_ = ln - 1
                while k_ >= 0:
                    if re.match(r'^(pub )?fn ', lines[k_].strip()):
                        sig = ' '.join(lines[k_:k_ + 12])
                        sig = sig[:sig.find('{')] if '{' in sig else sig
                        fn_has_module = bool(re.search(r'\bmodule: &(naga::)?Module', sig))
                        break
                    k_ -= 1
                if fn_has_module:
                    m = re.match(r'^(\s*)(\} else )?if (?!let )(.+) \{\s*$', code)
                    if m:
                        st_ = len(m.group(1)) + len(m.group(2) or '') + 3
                        add(st_, m.group(3), '(' + m.group(3) + ') && module.types.len() < 1000', 'rare-conjunct')
                        add(st_, m.group(3), '(' + m.group(3) + ') || module.types.len() > 1000', 'rare-disjunct')
                    for m in re.finditer(r'\.iter\(\)', code):
                        add(m.start(), '.iter()', '.iter().take(1000)', 'rare-take')
                    for m in re.finditer(r'\.filter\(\|(\w+)\| ', code):
                        add(m.end(), '', 'module.types.len() < 1000 && ', 'rare-filter-conjunct')
                    m = re.match(r'^(pub )?fn \w+.*-> (TokenStream|Vec<TokenStream>|Vec<\w+>|usize|bool) \{\s*$', line)
                    if m:
                        dflt = {'TokenStream': 'quote!()', 'usize': '0', 'bool': 'false'}.get(m.group(2), 'Vec::new()')
                        add(len(line), '', f'\n    if module.types.len() > 1000 {{ return {dflt}; }}', 'rare-early-return')
                for m in re.finditer(r'usize_unsuffixed\(([^()]*(\([^()]*\))?[^()]*)\)', code):
                    add(m.start(1), m.group(1), '(' + m.group(1) + ').min(100000)', 'rare-clamp')
            # statement deletion: a line that is one complete expression statement (method call / macro), not a let / return / brace
            if stripped.endswith(';') and not stripped.startswith(('let ', 'return', 'use ', 'pub ', 'const ', '}', '#', 'type ', 'struct ', 'mod ')) and \
                    stripped.count('(') == stripped.count(')') and '=' not in stripped.split('(')[0] and re.match(r'^[\w.:&*]+[(!]', stripped):
                muts.append({'file': path, 'line': ln, 'pos': off + (len(line) - len(line.lstrip())), 'old': stripped, 'new': '', 'op': 'delete-statement'})
            off += len(line) + 1
    # de-duplicate
    seen, out = set(), []
    for m in muts:
        k = (m['file'], m['pos'], m['old'], m['new'])
        if k not in seen:
            seen.add(k)
            out.append(m)
    return out


def sh(cmd, cwd, env=None, timeout=900):
    try:
        p = subprocess.run(cmd, shell=True, cwd=cwd, env=env, stdout=subprocess.PIPE, stderr=subprocess.STDOUT, text=True, timeout=timeout)
        return p.returncode, p.stdout
    except subprocess.TimeoutExpired:
        return 124, 'timeout'


def worker(wi, q, results, lock, checks):
    root = f'/tmp/am-w{wi}'
    shutil.rmtree(root, ignore_errors=True)
    os.makedirs(root)
    subprocess.check_call(['rsync', '-a', '--exclude', 'target', '--exclude', '.git', REPO + '/', root + '/repo/'])
    env = dict(os.environ, CARGO_TARGET_DIR=root + '/target', CARGO_NET_OFFLINE='true')
    rc, out = sh('cargo test --workspace --no-fail-fast --offline 2>&1 | tail -5', root + '/repo', env, 1800)   # warm build on the clean tree
    while True:
        try:
            m = q.get_nowait()
        except queue.Empty:
            break
        path = os.path.join(root, 'repo', m['file'])
        orig = open(os.path.join(REPO, m['file'])).read()
        assert orig[m['pos']:m['pos'] + len(m['old'])] == m['old'], (m, orig[m['pos']:m['pos'] + 20])
        open(path, 'w').write(orig[:m['pos']] + m['new'] + orig[m['pos'] + len(m['old']):])
        t0 = time.time()
        rc, out = sh('cargo test --workspace --no-fail-fast --offline 2>&1', root + '/repo', env, 600)
        res = dict(m)
        if rc != 0:
            res['status'] = 'killed-by-suite' if 'test result' in out else ('timeout' if rc == 124 else 'does-not-compile')
        else:
            warn = 'warning: unused' in out or 'warning: unreachable' in out
            res['status'] = 'survived'
            res['new_warning'] = warn
            hits = {}
            envc = dict(os.environ, VERIF_REPO=root + '/repo', VERIF_EVID=root + '/ev')
            for pid in checks:
                p = subprocess.run([os.path.join(HERE, 'check'), pid], env=envc, stdout=subprocess.PIPE, stderr=subprocess.STDOUT, text=True)
                if p.returncode != 0:
                    hits[pid] = [l.split('key=', 1)[1].strip() for l in p.stdout.splitlines() if 'key=' in l and l.startswith('[')][:3]
                    if 'engine-failure' in p.stdout:
                        res.setdefault('engine_failure_output', {})[pid] = p.stdout[-3000:]
            res['detected_by'] = hits
        res['secs'] = round(time.time() - t0, 1)
        open(path, 'w').write(orig)
        with lock:
            results.append(res)
            with open(OUT, 'a') as f:
                f.write(json.dumps(res) + '\n')
    shutil.rmtree(root, ignore_errors=True)


if __name__ == '__main__':
    args = sys.argv[1:]
    nw = int(args[args.index('--workers') + 1]) if '--workers' in args else 8
    limit = int(args[args.index('--limit') + 1]) if '--limit' in args else None
    OUT = args[args.index('--out') + 1] if '--out' in args else '/tmp/automut.jsonl'
    if '--round2' in args:
        globals()['ROUND2'] = True
        base = {(m['file'], m['pos'], m['old'], m['new']) for m in gen_mutants.__wrapped__()} if hasattr(gen_mutants, '__wrapped__') else set()
    muts = gen_mutants()
    if '--round2' in args:
        globals()['ROUND2'] = False
        first = {(m['file'], m['pos'], m['old'], m['new']) for m in gen_mutants()}
        muts = [m for m in muts if (m['file'], m['pos'], m['old'], m['new']) not in first]
    if '--round3' in args:
        first = {(m['file'], m['pos'], m['old'], m['new']) for m in gen_mutants()}
        globals()['ROUND2'] = True
        first |= {(m['file'], m['pos'], m['old'], m['new']) for m in gen_mutants()}
        globals()['ROUND2'] = False
        globals()['ROUND3'] = True
        muts = [m for m in gen_mutants() if (m['file'], m['pos'], m['old'], m['new']) not in first]
        globals()['ROUND3'] = False
    if '--round4' in args:
        first = {(m['file'], m['pos'], m['old'], m['new']) for m in gen_mutants()}
        globals()['ROUND4'] = True
        muts = [m for m in gen_mutants() if (m['file'], m['pos'], m['old'], m['new']) not in first]
        globals()['ROUND4'] = False
    if '--list' in args:
        from collections import Counter
        print(len(muts), Counter(m['op'] for m in muts))
        sys.exit(0)
    if limit:
        import random
        random.Random(7).shuffle(muts)
        muts = muts[:limit]
    checks = [c['property_id'] for c in json.load(open(os.path.join(HERE, 'MANIFEST.json')))['checks']]
    open(OUT, 'w').close()
    q = queue.Queue()
    for m in muts:
        q.put(m)
    results, lock = [], threading.Lock()
    ths = [threading.Thread(target=worker, args=(i, q, results, lock, checks)) for i in range(nw)]
    for t in ths:
        t.start()
    for t in ths:
        t.join()
    from collections import Counter
    c = Counter(r['status'] for r in results)
    surv = [r for r in results if r['status'] == 'survived']
    und = [r for r in surv if not r['detected_by']]
    print(json.dumps({'mutants': len(results), 'status': c, 'survivors': len(surv), 'survivors_detected': len(surv) - len(und), 'survivors_undetected': len(und)}))
