@fragment fn fs_main() {}
