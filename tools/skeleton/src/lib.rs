pub fn _empty() {}
