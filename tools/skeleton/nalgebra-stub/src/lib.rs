//! Stand-in for nalgebra (not available in the offline registry): just enough for the surrounding templates to type-check.
//! The nalgebra rows themselves are judged at token level by the C06 table rule.
pub type SVector<T, const N: usize> = [T; N];
pub type SMatrix<T, const R: usize, const C: usize> = [[T; R]; C];
