// mirfacts: rustc_private driver that dumps resolved MIR facts of the crate under analysis as JSON.
// Used as RUSTC_WORKSPACE_WRAPPER under `cargo +nightly check`; see /verif/lib/engine_mir.py.
#![feature(rustc_private)]
#![allow(clippy::all)]

extern crate rustc_abi;
extern crate rustc_driver;
extern crate rustc_hir;
extern crate rustc_interface;
extern crate rustc_middle;
extern crate rustc_session;
extern crate rustc_span;

use rustc_driver::{Callbacks, Compilation};
use rustc_hir::def::DefKind;
use rustc_middle::mir::{
    AggregateKind, BasicBlock, Body, Operand, Place, PlaceElem, Rvalue, StatementKind,
    TerminatorKind, UnwindAction,
};
use rustc_middle::ty::{self, Instance, Ty, TyCtxt, TypingEnv};
use rustc_span::def_id::DefId;
use rustc_span::Span;
use std::fmt::Write as _;

fn esc(s: &str) -> String {
    let mut o = String::with_capacity(s.len() + 2);
    o.push('"');
    for c in s.chars() {
        match c {
            '"' => o.push_str("\\\""),
            '\\' => o.push_str("\\\\"),
            '\n' => o.push_str("\\n"),
            '\r' => o.push_str("\\r"),
            '\t' => o.push_str("\\t"),
            c if (c as u32) < 0x20 => {
                let _ = write!(o, "\\u{:04x}", c as u32);
            }
            c => o.push(c),
        }
    }
    o.push('"');
    o
}

struct Cx<'tcx> {
    tcx: TyCtxt<'tcx>,
}

impl<'tcx> Cx<'tcx> {
    fn path(&self, d: DefId) -> String {
        self.tcx.def_path_str(d)
    }

    fn span_json(&self, sp: Span) -> String {
        let sm = self.tcx.sess.source_map();
        let cs = sp.source_callsite();
        let lo = sm.lookup_char_pos(cs.lo());
        let file = format!("{}", lo.file.name.prefer_local_unconditionally());
        let mut mac = String::new();
        if sp.from_expansion() {
            let ed = sp.ctxt().outer_expn_data();
            if let Some(d) = ed.macro_def_id {
                mac = self.path(d);
            } else {
                mac = format!("{:?}", ed.kind);
            }
        }
        format!(
            "{{\"file\":{},\"line\":{},\"exp\":{},\"mac\":{}}}",
            esc(&file),
            lo.line,
            sp.from_expansion(),
            esc(&mac)
        )
    }

    fn place_json(&self, body: &Body<'tcx>, p: &Place<'tcx>) -> String {
        let mut out = format!("{{\"l\":{},\"p\":[", p.local.as_usize());
        let mut pty = rustc_middle::mir::PlaceTy::from_ty(body.local_decls[p.local].ty);
        let mut first = true;
        for elem in p.projection.iter() {
            if !first {
                out.push(',');
            }
            first = false;
            match elem {
                PlaceElem::Deref => out.push_str("\"deref\""),
                PlaceElem::Field(f, _) => {
                    let mut name = format!("{}", f.as_usize());
                    let mut adt_s = String::new();
                    let mut var_s = String::new();
                    if let ty::Adt(adt, _) = pty.ty.kind() {
                        let vi = pty.variant_index.unwrap_or(rustc_abi::FIRST_VARIANT);
                        if vi.as_usize() < adt.variants().len() {
                            let v = adt.variant(vi);
                            if f.as_usize() < v.fields.len() {
                                name = v.fields[f].name.to_string();
                            }
                            var_s = v.name.to_string();
                        }
                        adt_s = self.path(adt.did());
                    } else if let ty::Closure(..) = pty.ty.kind() {
                        adt_s = "closure".to_string();
                    } else if let ty::Tuple(..) = pty.ty.kind() {
                        adt_s = "tuple".to_string();
                    }
                    let _ = write!(
                        out,
                        "{{\"f\":{},\"i\":{},\"adt\":{},\"variant\":{}}}",
                        esc(&name),
                        f.as_usize(),
                        esc(&adt_s),
                        esc(&var_s)
                    );
                }
                PlaceElem::Downcast(name, vi) => {
                    let n = name.map(|s| s.to_string()).unwrap_or_else(|| format!("{}", vi.as_usize()));
                    let _ = write!(out, "{{\"downcast\":{}}}", esc(&n));
                }
                PlaceElem::Index(l) => {
                    let _ = write!(out, "{{\"index\":{}}}", l.as_usize());
                }
                PlaceElem::ConstantIndex { offset, from_end, .. } => {
                    let _ = write!(out, "{{\"cindex\":{},\"from_end\":{}}}", offset, from_end);
                }
                PlaceElem::Subslice { .. } => out.push_str("\"subslice\""),
                _ => out.push_str("\"other\""),
            }
            pty = pty.projection_ty(self.tcx, elem);
        }
        out.push_str("]}");
        out
    }

    fn const_json(&self, body_def: DefId, co: &rustc_middle::mir::ConstOperand<'tcx>) -> String {
        let c = &co.const_;
        let ty = c.ty();
        let mut s = String::from("{\"const\":");
        let mut fn_path = String::new();
        let mut fn_args = String::new();
        match ty.kind() {
            ty::FnDef(d, args) => {
                fn_path = self.path(*d);
                fn_args = format!("{:?}", args);
                let _ = body_def;
            }
            ty::Closure(d, _) => {
                fn_path = self.path(*d);
            }
            _ => {}
        }
        s.push_str(&esc(&format!("{}", c)));
        let _ = write!(s, ",\"ty\":{}", esc(&format!("{}", ty)));
        if !fn_path.is_empty() {
            let _ = write!(s, ",\"fn\":{},\"fn_args\":{}", esc(&fn_path), esc(&fn_args));
        }
        if let Some(d) = co.check_static_ptr(self.tcx) {
            let _ = write!(s, ",\"static\":{}", esc(&self.path(d)));
        }
        s.push('}');
        s
    }

    fn operand_json(&self, body_def: DefId, body: &Body<'tcx>, op: &Operand<'tcx>) -> String {
        match op {
            Operand::Copy(p) => format!("{{\"copy\":{}}}", self.place_json(body, p)),
            Operand::Move(p) => format!("{{\"move\":{}}}", self.place_json(body, p)),
            Operand::Constant(c) => self.const_json(body_def, c),
            #[allow(unreachable_patterns)]
            _ => "{\"other_operand\":true}".to_string(),
        }
    }

    fn ops_json(&self, body_def: DefId, body: &Body<'tcx>, ops: &[&Operand<'tcx>]) -> String {
        let v: Vec<String> = ops.iter().map(|o| self.operand_json(body_def, body, o)).collect();
        format!("[{}]", v.join(","))
    }

    fn rvalue_json(&self, body_def: DefId, body: &Body<'tcx>, rv: &Rvalue<'tcx>) -> String {
        match rv {
            Rvalue::Use(op, ..) => format!("{{\"rk\":\"use\",\"ops\":{}}}", self.ops_json(body_def, body, &[op])),
            Rvalue::Ref(_, bk, p) => format!(
                "{{\"rk\":\"ref\",\"mut\":{},\"place\":{}}}",
                matches!(bk, rustc_middle::mir::BorrowKind::Mut { .. }),
                self.place_json(body, p)
            ),
            Rvalue::RawPtr(_, p) => format!("{{\"rk\":\"rawptr\",\"place\":{}}}", self.place_json(body, p)),
            Rvalue::Discriminant(p) => format!("{{\"rk\":\"discriminant\",\"place\":{}}}", self.place_json(body, p)),
            Rvalue::CopyForDeref(p) => format!(
                "{{\"rk\":\"use\",\"ops\":[{{\"copy\":{}}}]}}",
                self.place_json(body, p)
            ),
            Rvalue::Cast(kind, op, ty) => format!(
                "{{\"rk\":\"cast\",\"kind\":{},\"ty\":{},\"ops\":{}}}",
                esc(&format!("{:?}", kind)),
                esc(&format!("{}", ty)),
                self.ops_json(body_def, body, &[op])
            ),
            Rvalue::BinaryOp(op, ab) => format!(
                "{{\"rk\":\"binop\",\"op\":{},\"ops\":{}}}",
                esc(&format!("{:?}", op)),
                self.ops_json(body_def, body, &[&ab.0, &ab.1])
            ),
            Rvalue::UnaryOp(op, a) => format!(
                "{{\"rk\":\"unop\",\"op\":{},\"ops\":{}}}",
                esc(&format!("{:?}", op)),
                self.ops_json(body_def, body, &[a])
            ),
            Rvalue::Repeat(op, _) => format!("{{\"rk\":\"repeat\",\"ops\":{}}}", self.ops_json(body_def, body, &[op])),
            Rvalue::Aggregate(kind, ops) => {
                let (agg, fields) = match &**kind {
                    AggregateKind::Adt(did, vi, _, _, _) => {
                        let adt = self.tcx.adt_def(*did);
                        let v = adt.variant(*vi);
                        let names: Vec<String> = v.fields.iter().map(|f| esc(&f.name.to_string())).collect();
                        (
                            format!("adt:{}::{}", self.path(*did), v.name),
                            format!("[{}]", names.join(",")),
                        )
                    }
                    AggregateKind::Tuple => ("tuple".to_string(), "[]".to_string()),
                    AggregateKind::Array(_) => ("array".to_string(), "[]".to_string()),
                    AggregateKind::Closure(d, _) => (format!("closure:{}", self.path(*d)), "[]".to_string()),
                    other => (format!("other:{:?}", other), "[]".to_string()),
                };
                let v: Vec<&Operand<'tcx>> = ops.iter().collect();
                format!(
                    "{{\"rk\":\"aggregate\",\"agg\":{},\"fields\":{},\"ops\":{}}}",
                    esc(&agg),
                    fields,
                    self.ops_json(body_def, body, &v)
                )
            }
            other => format!("{{\"rk\":\"other\",\"dbg\":{}}}", esc(&format!("{:?}", other))),
        }
    }

    fn bb(&self, b: BasicBlock) -> usize {
        b.as_usize()
    }

    fn unwind_json(&self, u: &UnwindAction) -> String {
        match u {
            UnwindAction::Cleanup(b) => format!("{}", self.bb(*b)),
            _ => "null".to_string(),
        }
    }

    fn body_json(&self, def: DefId, body: &Body<'tcx>) -> String {
        let tcx = self.tcx;
        let kind = tcx.def_kind(def);
        let mut out = String::new();
        let parent = {
            // enclosing fn of a closure
            let mut d = def;
            while matches!(tcx.def_kind(d), DefKind::Closure | DefKind::InlineConst) {
                d = tcx.parent(d);
            }
            self.path(d)
        };
        let vis_pub = match kind {
            DefKind::Fn | DefKind::AssocFn => tcx.visibility(def).is_public(),
            _ => false,
        };
        let _ = write!(
            out,
            "{{\"fn\":{},\"kind\":{},\"parent\":{},\"pub\":{},\"span\":{},\"arg_count\":{},",
            esc(&self.path(def)),
            esc(&format!("{:?}", kind)),
            esc(&parent),
            vis_pub,
            self.span_json(body.span),
            body.arg_count
        );
        // locals
        out.push_str("\"locals\":[");
        for (i, d) in body.local_decls.iter().enumerate() {
            if i > 0 {
                out.push(',');
            }
            out.push_str(&esc(&format!("{}", d.ty)));
        }
        out.push_str("],\"debug\":[");
        let mut first = true;
        for vdi in body.var_debug_info.iter() {
            if let rustc_middle::mir::VarDebugInfoContents::Place(p) = &vdi.value {
                if !first {
                    out.push(',');
                }
                first = false;
                let _ = write!(
                    out,
                    "{{\"name\":{},\"place\":{},\"line\":{}}}",
                    esc(&vdi.name.to_string()),
                    self.place_json(body, p),
                    tcx.sess.source_map().lookup_char_pos(vdi.source_info.span.lo()).line
                );
            }
        }
        out.push_str("],\"blocks\":[");
        let typing_env = TypingEnv::post_analysis(tcx, def);
        for (bi, bbd) in body.basic_blocks.iter().enumerate() {
            if bi > 0 {
                out.push(',');
            }
            let _ = write!(out, "{{\"cleanup\":{},\"stmts\":[", bbd.is_cleanup);
            let mut firsts = true;
            for st in bbd.statements.iter() {
                if let StatementKind::Assign(bx) = &st.kind {
                    let (lhs, rv) = &**bx;
                    if !firsts {
                        out.push(',');
                    }
                    firsts = false;
                    let _ = write!(
                        out,
                        "{{\"lhs\":{},\"rv\":{},\"span\":{}}}",
                        self.place_json(body, lhs),
                        self.rvalue_json(def, body, rv),
                        self.span_json(st.source_info.span)
                    );
                } else if let StatementKind::SetDiscriminant { place, variant_index } = &st.kind {
                    if !firsts {
                        out.push(',');
                    }
                    firsts = false;
                    let _ = write!(
                        out,
                        "{{\"lhs\":{},\"rv\":{{\"rk\":\"setdiscr\",\"variant\":{}}},\"span\":{}}}",
                        self.place_json(body, place),
                        variant_index.as_usize(),
                        self.span_json(st.source_info.span)
                    );
                }
            }
            out.push_str("],\"term\":");
            let term = bbd.terminator();
            let sp = self.span_json(term.source_info.span);
            match &term.kind {
                TerminatorKind::Goto { target } => {
                    let _ = write!(out, "{{\"k\":\"goto\",\"target\":{}}}", self.bb(*target));
                }
                TerminatorKind::SwitchInt { discr, targets } => {
                    let mut ts = Vec::new();
                    for (v, t) in targets.iter() {
                        ts.push(format!("[{},{}]", v, self.bb(t)));
                    }
                    let _ = write!(
                        out,
                        "{{\"k\":\"switch\",\"discr\":{},\"targets\":[{}],\"otherwise\":{},\"span\":{}}}",
                        self.operand_json(def, body, discr),
                        ts.join(","),
                        self.bb(targets.otherwise()),
                        sp
                    );
                }
                TerminatorKind::Return => out.push_str("{\"k\":\"return\"}"),
                TerminatorKind::Unreachable => out.push_str("{\"k\":\"unreachable\"}"),
                TerminatorKind::UnwindResume => out.push_str("{\"k\":\"resume\"}"),
                TerminatorKind::UnwindTerminate(_) => out.push_str("{\"k\":\"terminate\"}"),
                TerminatorKind::Drop { place, target, unwind, .. } => {
                    let _ = write!(
                        out,
                        "{{\"k\":\"drop\",\"place\":{},\"target\":{},\"unwind\":{}}}",
                        self.place_json(body, place),
                        self.bb(*target),
                        self.unwind_json(unwind)
                    );
                }
                TerminatorKind::Assert { cond, expected, msg, target, unwind } => {
                    let _ = write!(
                        out,
                        "{{\"k\":\"assert\",\"cond\":{},\"expected\":{},\"msg\":{},\"target\":{},\"unwind\":{},\"span\":{}}}",
                        self.operand_json(def, body, cond),
                        expected,
                        esc(&format!("{:?}", msg)),
                        self.bb(*target),
                        self.unwind_json(unwind),
                        sp
                    );
                }
                TerminatorKind::Call { func, args, destination, target, unwind, .. } => {
                    let raw;
                    let mut resolved = String::new();
                    let mut rargs = String::new();
                    let mut self_ty = String::new();
                    let mut indirect = false;
                    let fty: Ty<'tcx> = func.ty(&body.local_decls, tcx);
                    match fty.kind() {
                        ty::FnDef(d, ga) => {
                            raw = self.path(*d);
                            rargs = format!("{:?}", ga);
                            if let Some(first) = ga.types().next() {
                                self_ty = format!("{}", first);
                            }
                            match Instance::try_resolve(tcx, typing_env, *d, ga) {
                                Ok(Some(inst)) => {
                                    resolved = self.path(inst.def_id());
                                }
                                _ => {
                                    resolved = String::new();
                                }
                            }
                        }
                        _ => {
                            indirect = true;
                            raw = format!("<indirect:{}>", fty);
                        }
                    }
                    let av: Vec<&Operand<'tcx>> = args.iter().map(|a| &a.node).collect();
                    let _ = write!(
                        out,
                        "{{\"k\":\"call\",\"raw\":{},\"callee\":{},\"generics\":{},\"self_ty\":{},\"indirect\":{},\"args\":{},\"dest\":{},\"target\":{},\"unwind\":{},\"span\":{}}}",
                        esc(&raw),
                        esc(&resolved),
                        esc(&rargs),
                        esc(&self_ty),
                        indirect,
                        self.ops_json(def, body, &av),
                        self.place_json(body, destination),
                        target.map(|t| format!("{}", self.bb(t))).unwrap_or_else(|| "null".to_string()),
                        self.unwind_json(unwind),
                        sp
                    );
                }
                other => {
                    let succ: Vec<String> = term.successors().map(|b| format!("{}", self.bb(b))).collect();
                    let _ = write!(
                        out,
                        "{{\"k\":\"other\",\"dbg\":{},\"succ\":[{}]}}",
                        esc(&format!("{:?}", other).chars().take(80).collect::<String>()),
                        succ.join(",")
                    );
                }
            }
            out.push('}');
        }
        out.push_str("]}");
        out
    }
}

struct Cb;

impl Callbacks for Cb {
    fn after_analysis<'tcx>(
        &mut self,
        _compiler: &rustc_interface::interface::Compiler,
        tcx: TyCtxt<'tcx>,
    ) -> Compilation {
        let outdir = match std::env::var("MIRFACTS_OUT") {
            Ok(v) => v,
            Err(_) => return Compilation::Continue,
        };
        let want = std::env::var("MIRFACTS_CRATE").unwrap_or_else(|_| "wgsl_to_wgpu".to_string());
        let krate = tcx.crate_name(rustc_span::def_id::LOCAL_CRATE).to_string();
        if krate != want {
            return Compilation::Continue;
        }
        let cx = Cx { tcx };
        let mut out = String::new();
        out.push_str("{\"crate\":");
        out.push_str(&esc(&krate));
        // statics and other stateful items
        out.push_str(",\"statics\":[");
        let mut first = true;
        for ld in tcx.hir_crate_items(()).definitions() {
            let d = ld.to_def_id();
            if let DefKind::Static { mutability, .. } = tcx.def_kind(d) {
                if !first {
                    out.push(',');
                }
                first = false;
                let ty = tcx.type_of(d).instantiate_identity().skip_norm_wip();
                let _ = write!(
                    out,
                    "{{\"path\":{},\"mut\":{},\"ty\":{},\"freeze\":{},\"span\":{}}}",
                    esc(&cx.path(d)),
                    matches!(mutability, rustc_hir::Mutability::Mut),
                    esc(&format!("{}", ty)),
                    ty.is_freeze(tcx, TypingEnv::post_analysis(tcx, d)),
                    cx.span_json(tcx.def_span(d))
                );
            }
        }
        out.push_str("],\"bodies\":[");
        let mut first = true;
        for ld in tcx.hir_body_owners() {
            let d = ld.to_def_id();
            match tcx.def_kind(d) {
                DefKind::Fn | DefKind::AssocFn | DefKind::Closure => {}
                _ => continue,
            }
            let body = tcx.optimized_mir(d);
            if !first {
                out.push(',');
            }
            first = false;
            out.push_str(&cx.body_json(d, body));
            out.push('\n');
        }
        out.push_str("]}");
        let path = format!("{}/{}-{}.json", outdir, krate, std::process::id());
        let _ = std::fs::create_dir_all(&outdir);
        std::fs::write(&path, out).expect("mirfacts: cannot write fact file");
        Compilation::Continue
    }
}

fn main() {
    let mut args: Vec<String> = std::env::args().collect();
    // RUSTC_WORKSPACE_WRAPPER: argv[1] is the path of the real rustc
    if args.len() > 1 && (args[1].ends_with("rustc") || args[1].contains("/rustc")) {
        args.remove(1);
    }
    rustc_driver::run_compiler(&args, &mut Cb);
}
